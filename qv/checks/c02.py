"""C02  All representations of one object denote the same operator.

Contracts on every conversion function / method of State, Povm, Gate, MProcess,
matrix_basis and matrix_util.truncate_hs.  A post-condition maps the *input* of
the conversion to an operator (or to the natural representation N of a
super-operator, vec_row(E(X)) = N vec_row(X)) with the reference helpers below,
maps the defining formula of the target representation onto it and compares with
what quara returned.  The driver evaluates every linear conversion on a complete
real basis of its input space plus random combinations (linearity), the
non-linear ones (Kraus extraction, truncate_hs) on random inputs, and adds
alternative-implementation agreement, round trips and cache-rebuild agreement.

History / combination steps (hist_state, hist_povm, hist_gate, hist_mprocess, visit_veterans; the hooks judge every
one of these calls against the defining formula for the operand as it is at the time of the call): every case ends by
 (a) asking the objects it built AGAIN (other order: column- before row-major, sparse before dense, outcomes and POVM
     elements descending, tuple before int index), and by re-judging the arrays it still HOLDS from the first pass
     (a result must not change under the caller because of later calls);
 (b) converting objects reached through copy() (non-default MProcess shape and Gate eps_proj_physical included),
     copy().set_zero() (query -> public mutator -> query on the same object), generate_from_var, generate_origin_obj /
     generate_zero_obj, +, scalar *, a pickle round trip, and one object of ANOTHER class on the same composite system;
 (c) re-querying a VETERAN object per job that is kept alive over all cases (and the veteran of the previous job of
     the shard: same shape, other basis), interleaved with the case's own objects of the same class and size, and
     handing the caller's OWN argument arrays (one array object per job) to the conversion functions again with new
     contents;
 (d) giving options in the other order (constrained var form first, non-default eps / atol before the default).
Driver-level verdicts of these steps use the ordinary tolerances and carry the step in their key (":second-call",
":via-copy", ":after-set_zero", ":re-used-object", "formula:held-result"); operations that merely produce an object for
a step (copy, set_zero, +, pickle ...) are not judged here (a failure is counted under history:step-unavailable).

Reference conventions (independent of quara's formulas):
  X = sum_a x_a B_a                    V = [vec_row(B_0) ... ] (columns)
  E(B_b) = sum_a HS[a,b] B_a     =>    N = V HS V^-1
  Choi = sum_ij E(|i><j|) (x) |i><j|   =>  Choi[(a,i),(b,j)] = N[(a,b),(i,j)]
  E(X) = sum_k K X K^dagger            =>  N[(a,b),(i,j)] = sum_k K[a,i] conj(K[b,j])
  E(X) = sum chi[al,be] E_al X E_be^dagger over row-major matrix units
                                       =>  N[(a,c),(b,e)] = chi[(a,b),(c,e)]
"""
import inspect

import numpy as np

from qv import gen, ref
from qv.monitor import HookSet

ID = "C02"
RULE = ("per configuration (type x shape S1,S3,S2,S23 x Hermitian orthonormal basis: normalised Pauli/Gell-Mann, generalised "
        "Gell-Mann, quara's Hermitian basis with identity not first, rotated basis with identity not first) every linear "
        "conversion is evaluated on each element of a complete real basis of its input space (unit coefficient vectors, unit "
        "HS matrices, Hermitian matrix units E_ii, E_ij+E_ji, i(E_ij-E_ji) for density/POVM/Choi inputs) and on random real "
        "combinations, complex Hermitian non-symmetric operands and physical objects (complex Kraus of every rank 1..d^2); "
        "Kraus extraction and truncate_hs on random inputs; a case is distinct by (family, shape, basis, basis-element index "
        "or rounded random input) and non-trivial when its operand is a basis element or a non-symmetric / complex operand; "
        "every case ends with history steps judged by the same oracles (not counted as distinct cases): the case's objects are "
        "asked again in another order and the results still held from the first pass are re-judged, conversions are repeated on "
        "copy(), copy().set_zero(), generate_from_var / origin / zero objects, sums, scalar multiples and pickle round trips, on a "
        "veteran object kept alive over all cases of a job (and the previous job's), on an object of another class on the same "
        "composite system and on caller-owned argument arrays re-used with new contents")
TOL_PASS = 1e-11
TOL_FAIL = 1e-8

_A = {
    "quara/objects/state.py": [
        "State.to_density_matrix", "State.to_density_matrix_with_sparsity", "State.convert_basis",
        "to_density_matrix_from_vec", "to_vec_from_density_matrix_with_sparsity", "to_density_matrix_from_var",
        "to_var_from_density_matrix"],
    "quara/objects/povm.py": [
        "Povm.matrices", "Povm.matrices_with_sparsity", "Povm.matrix", "Povm.matrix_with_sparsity", "Povm.convert_basis",
        "to_matrices_from_vecs", "to_vec_from_matrix_with_sparsity", "to_vecs_from_matrices_with_sparsity",
        "to_matrices_from_var", "to_var_from_matrices"],
    "quara/objects/gate.py": [
        "to_choi_from_hs", "to_choi_from_hs_with_dict", "to_choi_from_hs_with_sparsity", "to_hs_from_choi",
        "to_hs_from_choi_with_dict", "to_hs_from_choi_with_sparsity", "to_kraus_matrices_from_hs",
        "to_hs_from_kraus_matrices", "to_process_matrix_from_hs", "to_choi_from_var", "to_var_from_choi", "convert_hs",
        "Gate.convert_basis", "Gate.convert_to_comp_basis", "Gate.to_choi_matrix", "Gate.to_choi_matrix_with_dict",
        "Gate.to_choi_matrix_with_sparsity", "Gate.to_kraus_matrices", "Gate.to_process_matrix"],
    "quara/objects/mprocess.py": [
        "MProcess.convert_basis", "MProcess.convert_to_comp_basis", "MProcess.to_choi_matrix",
        "MProcess.to_choi_matrix_with_dict", "MProcess.to_choi_matrix_with_sparsity", "MProcess.to_kraus_matrices",
        "MProcess.to_process_matrix"],
    "quara/objects/matrix_basis.py": ["convert_vec", "get_comp_basis", "calc_matrix_expansion_coefficient",
                                      "calc_hermitian_matrix_expansion_coefficient_hermitian_basis",
                                      "calc_mat_from_coefficient_basis"],
    "quara/objects/composite_system.py": ["CompositeSystem.comp_basis"],
    "quara/utils/matrix_util.py": ["truncate_hs"],
}
ANCHORS = [f"{f}:{n}" for f, ns in _A.items() for n in ns]
REQUIRED_REACH = ANCHORS
# every hooked conversion must reach >= 1 decided verdict of its defining-formula oracle (an exception raised by a driver
# call of a conversion is a failed evaluation of that oracle)
REQUIRED_ORACLES = [
    f"{lab}:formula" for lab in (
        [f"State.{n}" for n in ("to_density_matrix", "to_density_matrix_with_sparsity", "convert_basis")]
        + [f"state.{n}" for n in _A["quara/objects/state.py"][3:]]
        + [f"Povm.{n}" for n in ("matrices", "matrices_with_sparsity", "matrix", "matrix_with_sparsity", "convert_basis")]
        + [f"povm.{n}" for n in _A["quara/objects/povm.py"][5:]]
        + [f"gate.{n}" for n in _A["quara/objects/gate.py"][:12]]
        + [n for n in _A["quara/objects/gate.py"][12:]]
        + [n for n in _A["quara/objects/mprocess.py"]]
        + ["matrix_basis.convert_vec", "matrix_basis.calc_matrix_expansion_coefficient",
           "matrix_basis.calc_hermitian_matrix_expansion_coefficient_hermitian_basis",
           "matrix_basis.calc_mat_from_coefficient_basis"])
] + ["matrix_basis.get_comp_basis:definition", "CompositeSystem.comp_basis:definition", "matrix_util.truncate_hs:within-eps",
     "matrix_util.truncate_hs:raises-only-on-imaginary-input"]
MIN_EVALS = {"quick": 100000, "thorough": 1000000}
WATCHDOG = {"quick": 900, "thorough": 3600}
ASSUMPTIONS = [
    "conversions are judged only for orthonormal Hermitian bases of the CompositeSystem (and orthonormal source/target bases of "
    "convert_vec/convert_hs), as the property quantifies; var<->matrix helpers with on_para_eq_constraint=True only for "
    "identity-first bases and inputs that satisfy the equality constraint",
    "Kraus extraction is judged for maps whose reference Choi matrix has lambda_min >= -atol/10 (must give Kraus operators that "
    "reproduce the map); outputs for lambda_min in (-10 atol, -atol/10) are not judged",
]

HERM_KINDS = ["std", "nggm", "nherm", "rot"]

# ------------------------------------------------------------- reference helpers


def comp_units(d, mode):
    """matrix units ordered so that the coefficient vector of X is X.flatten('C') / X.flatten('F')"""
    out = []
    for k in range(d * d):
        i, j = np.unravel_index(k, (d, d), order="C" if mode == "row_major" else "F")
        e = np.zeros((d, d), dtype=np.complex128)
        e[i, j] = 1
        out.append(e)
    return out


class BV:
    """view of a matrix basis: coefficient <-> operator maps by a linear solve (no orthonormality assumed)"""

    def __init__(self, mats):
        self.mats = [ref.dense(m) for m in mats]
        self.n = len(self.mats)
        self.d = self.mats[0].shape[0]
        self.V = np.array([m.reshape(-1) for m in self.mats]).T  # columns vec_row(B_a)
        self.complete = self.V.shape[0] == self.V.shape[1] and np.linalg.matrix_rank(self.V) == self.n
        self.Vinv = np.linalg.inv(self.V) if self.complete else None
        G = self.V.conj().T @ self.V
        self.orthonormal = bool(self.complete and np.max(np.abs(G - np.eye(self.n))) < 1e-12)
        self.hermitian = bool(max(ref.herm_violation(m) for m in self.mats) < 1e-12)
        self.oh = self.orthonormal and self.hermitian
        b0 = self.mats[0]
        self.identity_first = bool(np.max(np.abs(b0 - np.eye(self.d) / np.sqrt(self.d))) < 1e-12)

    def op(self, x):
        return (self.V @ np.asarray(x).reshape(-1)).reshape(self.d, self.d)

    def coeffs(self, X):
        return self.Vinv @ ref.dense(X).reshape(-1)

    def nat(self, hs):
        return self.V @ ref.dense(hs) @ self.Vinv

    def hs_of_nat(self, N):
        return self.Vinv @ N @ self.V


def _shuffle(M, d):
    """[(p,q),(r,s)] -> [(p,r),(q,s)]  (an involution)"""
    return np.asarray(M).reshape(d, d, d, d).transpose(0, 2, 1, 3).reshape(d * d, d * d)


def choi_of_nat(N, d):
    return _shuffle(N, d)


def nat_of_choi(C, d):
    return _shuffle(ref.dense(C), d)


def chi_of_nat(N, d):
    return _shuffle(N, d)


def nat_of_kraus(ks, d):
    K = np.array([ref.dense(k) for k in ks])
    return np.einsum("kai,kbj->abij", K, K.conj()).reshape(d * d, d * d)


def tp_defect(N, d):
    """max |Tr E(|i><j|) - delta_ij|"""
    N4 = N.reshape(d, d, d, d)
    return float(np.max(np.abs(np.einsum("aaij->ij", N4) - np.eye(d))))


def herm_units(n):
    return ref.hermitian_units(n)


def self_test():
    rng = np.random.default_rng(20202)
    bad = []

    def chk(name, err, tol=1e-10):
        if not err <= tol:
            bad.append(f"{name}: {err}")

    for d in (2, 3):
        hb = ref.hermitian_units(d)
        hb = [b / np.sqrt(np.trace(ref.dag(b) @ b).real) for b in hb]
        skew = [b * (1 + 0.2 * i) + (0.1j * hb[0] if i else 0) for i, b in enumerate(hb)]
        for nm, mats in (("herm", hb), ("skew", skew), ("colmajor", comp_units(d, "column_major"))):
            bv = BV(mats)
            ks = ref.rand_kraus(d, 2, rng)
            hsr = ref.hs_of_kraus(mats, ks)
            N = bv.nat(hsr)
            X = rng.standard_normal((d, d)) + 1j * rng.standard_normal((d, d))
            chk(f"nat-action-{nm}{d}", np.max(np.abs((N @ X.reshape(-1)).reshape(d, d) - ref.kraus_map(ks)(X))))
            chk(f"coeffs-{nm}{d}", np.max(np.abs(bv.coeffs(X) - ref.coeffs(mats, X))))
            chk(f"op-{nm}{d}", np.max(np.abs(bv.op(bv.coeffs(X)) - X)))
            C = ref.choi_of_hs(mats, hsr)
            chk(f"choi-{nm}{d}", np.max(np.abs(choi_of_nat(N, d) - C)))
            chk(f"hs-of-choi-{nm}{d}", np.max(np.abs(bv.hs_of_nat(nat_of_choi(C, d)) - ref.hs_of_choi(mats, C))))
            chk(f"kraus-{nm}{d}", np.max(np.abs(nat_of_kraus(ks, d) - N)))
            chk(f"tp-{nm}{d}", tp_defect(N, d))
            chi = chi_of_nat(N, d)
            E = ref.matrix_units(d)
            Y = sum(chi[a, b] * E[a] @ X @ ref.dag(E[b]) for a in range(d * d) for b in range(d * d))
            chk(f"chi-{nm}{d}", np.max(np.abs(Y - ref.kraus_map(ks)(X))))
        X = rng.standard_normal((d, d)) + 1j * rng.standard_normal((d, d))
        chk(f"colmajor-coeffs{d}", np.max(np.abs(BV(comp_units(d, "column_major")).coeffs(X) - X.flatten(order="F"))))
        chk(f"rowmajor-coeffs{d}", np.max(np.abs(BV(comp_units(d, "row_major")).coeffs(X) - X.flatten(order="C"))))
    return bad


# ------------------------------------------------------------------- monitor


def _maxabs(a):
    a = np.asarray(a)
    return float(np.max(np.abs(a))) if a.size else 0.0


class Mon:
    def __init__(self, ctx):
        self.ctx = ctx
        self.hs = HookSet(ctx)
        self.cls = "na"
        self.step = ""  # name of the history step in progress (suffix of the violation keys of everything judged meanwhile)
        self._bv = {}

    # -- basis views (cached by object identity, strong reference kept)
    def bv(self, obj):
        k = id(obj)
        c = self._bv.get(k)
        if c is not None and c[0] is obj:
            return c[1]
        if hasattr(obj, "elemental_systems"):
            mats = gen.basis_of(obj)
        else:
            mats = ref.basis_list(obj)
        v = BV(mats)
        if len(self._bv) > 64:
            self._bv.clear()
        self._bv[k] = (obj, v)
        return v

    # -- comparisons
    def cmp(self, label, got, want, what="formula", slack=0.0):
        ctx = self.ctx
        oracle = f"{label}:{what}"
        try:
            g = ref.dense(got)
        except Exception:
            ctx.truth(oracle, False, key=f"{label}:{what}:malformed-output", info={"type": type(got).__name__})
            return None
        w = np.asarray(want)
        if g.shape != w.shape:
            ctx.truth(oracle, False, key=f"{label}:{what}:shape", info={"got_shape": list(g.shape), "want_shape": list(w.shape)})
            return None
        scale = max(1.0, _maxabs(w))
        err = _maxabs(g - w)
        if not np.isfinite(err):
            err = float("nan")
        else:
            err = max(0.0, err - slack) / scale
        return ctx.num(oracle, err, TOL_PASS, TOL_FAIL, key=f"{label}:{what}:{self.cls}{self.step}",
                       info={"cls": self.cls, "step": self.step, "scale": scale, "got": g, "want": w})

    def cmp_list(self, label, got, wants, what="formula", slack=0.0):
        ctx = self.ctx
        oracle = f"{label}:{what}"
        try:
            n = len(got)
        except Exception:
            ctx.truth(oracle, False, key=f"{label}:{what}:malformed-output", info={"type": type(got).__name__})
            return
        if n != len(wants):
            ctx.truth(oracle, False, key=f"{label}:{what}:length", info={"got": n, "want": len(wants)})
            return
        for g, w in zip(got, wants):
            self.cmp(label, g, w, what, slack)


def _eps(eps):
    from quara.settings import Settings

    return Settings.get_atol() if eps is None else float(eps)


def _serial(index, shape):
    if isinstance(index, tuple):
        return int(np.ravel_multi_index(index, tuple(shape)))
    return int(index)


def install(ctx):
    Q = gen.q()
    import quara.utils.matrix_util as mutil
    from quara.objects.composite_system import CompositeSystem

    M = Mon(ctx)
    hs = M.hs

    def fhook(module, name, oracle, on_exc=None):
        fn = getattr(module, name)
        sig = inspect.signature(fn)
        label = f"{module.__name__.split('.')[-1]}.{name}"

        def post(result, snap, *args, **kw):
            ba = sig.bind(*args, **kw)
            ba.apply_defaults()
            oracle(label, result, **ba.arguments)

        ex = None
        if on_exc is not None:
            def ex(exc, snap, *args, **kw):
                ba = sig.bind(*args, **kw)
                ba.apply_defaults()
                on_exc(label, exc, **ba.arguments)
        hs.function(module, name, post=post, on_exc=ex)
        return label

    def mhook(cls, name, oracle):
        raw = inspect.getattr_static(cls, name)
        sig = inspect.signature(raw)
        label = f"{cls.__name__}.{name}"

        def post(result, snap, *args, **kw):
            ba = sig.bind(*args, **kw)
            ba.apply_defaults()
            oracle(label, result, **ba.arguments)

        hs.method(cls, name, post=post)
        return label

    def judged(label, bv):
        if not bv.oh:
            ctx.skip(f"{label}:formula")
            return False
        return True

    # ------------------------------------------------------------ State
    def o_state_dm(label, res, self):
        bv = M.bv(self.composite_system)
        if judged(label, bv):
            M.cmp(label, res, bv.op(self.vec))

    mhook(Q.State, "to_density_matrix", o_state_dm)
    mhook(Q.State, "to_density_matrix_with_sparsity", o_state_dm)

    def o_state_cb(label, res, self, other_basis):
        bv, bo = M.bv(self.composite_system), M.bv(other_basis)
        if not (bv.oh and bo.orthonormal):
            ctx.skip(f"{label}:formula")
            return
        M.cmp(label, res, bo.coeffs(bv.op(self.vec)))

    mhook(Q.State, "convert_basis", o_state_cb)

    def o_dm_from_vec(label, res, c_sys, vec):
        bv = M.bv(c_sys)
        if judged(label, bv):
            M.cmp(label, res, bv.op(vec))

    fhook(Q.state_mod, "to_density_matrix_from_vec", o_dm_from_vec)

    def o_vec_from_dm(label, res, c_sys, density_matrix, eps_truncate_imaginary_part):
        bv = M.bv(c_sys)
        if judged(label, bv):
            M.cmp(label, res, bv.coeffs(density_matrix), slack=_eps(eps_truncate_imaginary_part))

    fhook(Q.state_mod, "to_vec_from_density_matrix_with_sparsity", o_vec_from_dm)

    def o_dm_from_var(label, res, c_sys, var, on_para_eq_constraint):
        bv = M.bv(c_sys)
        if not judged(label, bv):
            return
        if on_para_eq_constraint:
            if not bv.identity_first:
                ctx.skip(f"{label}:formula")
                return
            vec = np.concatenate([[1 / np.sqrt(bv.d)], np.asarray(var)])
        else:
            vec = np.asarray(var)
        M.cmp(label, res, bv.op(vec))

    fhook(Q.state_mod, "to_density_matrix_from_var", o_dm_from_var)

    def o_var_from_dm(label, res, c_sys, density_matrix, on_para_eq_constraint):
        bv = M.bv(c_sys)
        if not judged(label, bv):
            return
        c = bv.coeffs(density_matrix)
        if on_para_eq_constraint:
            if not bv.identity_first or abs(np.trace(ref.dense(density_matrix)) - 1) > 1e-14:
                ctx.skip(f"{label}:formula")
                return
            c = c[1:]
        M.cmp(label, res, c, slack=_eps(None))

    fhook(Q.state_mod, "to_var_from_density_matrix", o_var_from_dm)

    # ------------------------------------------------------------- Povm
    def o_povm_ms(label, res, self):
        bv = M.bv(self.composite_system)
        if judged(label, bv):
            M.cmp_list(label, res, [bv.op(v) for v in self.vecs])

    mhook(Q.Povm, "matrices", o_povm_ms)
    mhook(Q.Povm, "matrices_with_sparsity", o_povm_ms)

    def o_povm_m(label, res, self, index):
        bv = M.bv(self.composite_system)
        if judged(label, bv):
            M.cmp(label, res, bv.op(self.vecs[_serial(index, self.nums_local_outcomes)]))

    mhook(Q.Povm, "matrix", o_povm_m)
    mhook(Q.Povm, "matrix_with_sparsity", o_povm_m)

    def o_povm_cb(label, res, self, other_basis):
        bv, bo = M.bv(self.composite_system), M.bv(other_basis)
        if not (bv.oh and bo.orthonormal):
            ctx.skip(f"{label}:formula")
            return
        M.cmp_list(label, res, [bo.coeffs(bv.op(v)) for v in self.vecs])

    mhook(Q.Povm, "convert_basis", o_povm_cb)

    def o_ms_from_vecs(label, res, c_sys, vecs):
        bv = M.bv(c_sys)
        if judged(label, bv):
            M.cmp_list(label, res, [bv.op(v) for v in vecs])

    fhook(Q.povm_mod, "to_matrices_from_vecs", o_ms_from_vecs)

    def o_vec_from_m(label, res, c_sys, matrix, eps_truncate_imaginary_part):
        bv = M.bv(c_sys)
        if judged(label, bv):
            M.cmp(label, res, bv.coeffs(matrix), slack=_eps(eps_truncate_imaginary_part))

    fhook(Q.povm_mod, "to_vec_from_matrix_with_sparsity", o_vec_from_m)

    def o_vecs_from_ms(label, res, c_sys, matrices):
        bv = M.bv(c_sys)
        if judged(label, bv):
            M.cmp_list(label, res, [bv.coeffs(m) for m in matrices], slack=_eps(None))

    fhook(Q.povm_mod, "to_vecs_from_matrices_with_sparsity", o_vecs_from_ms)

    def o_ms_from_var(label, res, c_sys, var, on_para_eq_constraint):
        bv = M.bv(c_sys)
        if not judged(label, bv):
            return
        d2 = bv.d ** 2
        chunks = np.asarray(var).reshape(-1, d2)
        ops = [bv.op(c) for c in chunks]
        if on_para_eq_constraint:
            if not bv.identity_first:
                ctx.skip(f"{label}:formula")
                return
            ops.append(np.eye(bv.d) - sum(ops))
        M.cmp_list(label, res, ops)

    fhook(Q.povm_mod, "to_matrices_from_var", o_ms_from_var)

    def o_var_from_ms(label, res, c_sys, matrices, on_para_eq_constraint):
        bv = M.bv(c_sys)
        if not judged(label, bv):
            return
        ms = [ref.dense(m) for m in matrices]
        if on_para_eq_constraint:
            if not bv.identity_first or _maxabs(sum(ms) - np.eye(bv.d)) > 1e-14:
                ctx.skip(f"{label}:formula")
                return
            ms = ms[:-1]
        M.cmp(label, res, np.concatenate([bv.coeffs(m) for m in ms]), slack=_eps(None))

    fhook(Q.povm_mod, "to_var_from_matrices", o_var_from_ms)

    # ----------------------------------------------------- Gate functions
    def choi_want(bv, hsm):
        return choi_of_nat(bv.nat(hsm), bv.d)

    def o_choi_from_hs(label, res, c_sys, hs):
        bv = M.bv(c_sys)
        if judged(label, bv):
            M.cmp(label, res, choi_want(bv, hs))

    for nm in ("to_choi_from_hs", "to_choi_from_hs_with_dict", "to_choi_from_hs_with_sparsity"):
        fhook(Q.gate_mod, nm, o_choi_from_hs)

    def hs_from_choi_want(bv, choi):
        return bv.hs_of_nat(nat_of_choi(choi, bv.d))

    def o_hs_from_choi(label, res, c_sys, choi, eps_truncate_imaginary_part=None):
        bv = M.bv(c_sys)
        if not judged(label, bv):
            return
        C = ref.dense(choi)
        if C.shape != (bv.d ** 2, bv.d ** 2) or ref.herm_violation(C) > 1e-14 * max(1.0, _maxabs(C)):
            ctx.skip(f"{label}:formula")  # HS matrices are real in quara: only Hermiticity-preserving maps
            return
        M.cmp(label, res, hs_from_choi_want(bv, C), slack=_eps(eps_truncate_imaginary_part))

    for nm in ("to_hs_from_choi", "to_hs_from_choi_with_dict", "to_hs_from_choi_with_sparsity"):
        fhook(Q.gate_mod, nm, o_hs_from_choi)

    def judge_kraus(label, res, bv, hsm, atol):
        N = bv.nat(hsm)
        d = bv.d
        C = choi_of_nat(N, d)
        lam = ref.lambda_min(C)
        hv = ref.herm_violation(C)
        scale = max(1.0, _maxabs(N))
        try:
            n = len(res)
        except Exception:
            ctx.truth(f"{label}:formula", False, key=f"{label}:formula:malformed-output", info={"type": type(res).__name__})
            return
        if lam >= -atol / 10 and hv <= 1e-14 * scale:
            if n == 0:
                ctx.truth(f"{label}:formula", False, key=f"{label}:empty-for-CP-map:{M.cls}{M.step}", info={"lambda_min": lam, "atol": atol})
                return
        elif lam <= -10 * atol:
            if n == 0:
                ctx.truth(f"{label}:non-CP-gives-no-kraus", True)
                return
        else:
            ctx.skip(f"{label}:formula")
            return
        ks = [ref.dense(k) for k in res]
        if any(k.shape != (d, d) for k in ks):
            ctx.truth(f"{label}:formula", False, key=f"{label}:formula:shape", info={"shapes": [list(k.shape) for k in ks]})
            return
        Nk = nat_of_kraus(ks, d)
        # eigen-components with |lambda| <= atol may be dropped ("ignores eigenvalues close zero"): at most d^2 of them
        M.cmp(label, Nk, N, slack=d * d * atol if atol > 1e-12 else 0.0)
        if tp_defect(N, d) <= 1e-13:
            S = sum(ref.dag(k) @ k for k in ks)
            M.cmp(label, S, np.eye(d), what="sum-KdagK=I")

    def o_kraus_from_hs(label, res, c_sys, hs, atol):
        bv = M.bv(c_sys)
        if judged(label, bv):
            judge_kraus(label, res, bv, hs, _eps(atol))

    fhook(Q.gate_mod, "to_kraus_matrices_from_hs", o_kraus_from_hs)

    def o_hs_from_kraus(label, res, c_sys, kraus, eps_truncate_imaginary_part):
        bv = M.bv(c_sys)
        if judged(label, bv):
            M.cmp(label, res, bv.hs_of_nat(nat_of_kraus(kraus, bv.d)), slack=_eps(eps_truncate_imaginary_part))

    fhook(Q.gate_mod, "to_hs_from_kraus_matrices", o_hs_from_kraus)

    def o_chi_from_hs(label, res, c_sys, hs):
        bv = M.bv(c_sys)
        if judged(label, bv):
            M.cmp(label, res, chi_of_nat(bv.nat(hs), bv.d))

    fhook(Q.gate_mod, "to_process_matrix_from_hs", o_chi_from_hs)

    def hs_of_var(bv, var, on_para):
        d2 = bv.d ** 2
        v = np.asarray(var)
        if on_para:
            e0 = np.zeros((1, d2))
            e0[0, 0] = 1
            return np.vstack([e0, v.reshape(d2 - 1, d2)])
        return v.reshape(d2, d2)

    def o_choi_from_var(label, res, c_sys, var, on_para_eq_constraint):
        bv = M.bv(c_sys)
        if not judged(label, bv):
            return
        if on_para_eq_constraint and not bv.identity_first:
            ctx.skip(f"{label}:formula")
            return
        M.cmp(label, res, choi_want(bv, hs_of_var(bv, var, on_para_eq_constraint)))

    fhook(Q.gate_mod, "to_choi_from_var", o_choi_from_var)

    def o_var_from_choi(label, res, c_sys, choi, on_para_eq_constraint):
        bv = M.bv(c_sys)
        if not judged(label, bv):
            return
        C = ref.dense(choi)
        if C.shape != (bv.d ** 2, bv.d ** 2) or ref.herm_violation(C) > 1e-14 * max(1.0, _maxabs(C)):
            ctx.skip(f"{label}:formula")
            return
        w = hs_from_choi_want(bv, C)
        if on_para_eq_constraint:
            e0 = np.zeros(bv.d ** 2)
            e0[0] = 1
            if not bv.identity_first or _maxabs(w[0] - e0) > 1e-13:
                ctx.skip(f"{label}:formula")
                return
            w = w[1:]
        M.cmp(label, res, w.reshape(-1), slack=_eps(None))

    fhook(Q.gate_mod, "to_var_from_choi", o_var_from_choi)

    def o_convert_hs(label, res, from_hs, from_basis, to_basis):
        bf, bt = M.bv(from_basis), M.bv(to_basis)
        if not (bf.orthonormal and bt.orthonormal):
            ctx.skip(f"{label}:formula")
            return
        M.cmp(label, res, bt.hs_of_nat(bf.nat(from_hs)))

    fhook(Q.gate_mod, "convert_hs", o_convert_hs)

    def o_convert_vec(label, res, from_vec, from_basis, to_basis):
        bf, bt = M.bv(from_basis), M.bv(to_basis)
        if not (bf.orthonormal and bt.orthonormal):
            ctx.skip(f"{label}:formula")
            return
        M.cmp(label, res, bt.coeffs(bf.op(from_vec)))

    fhook(Q.mb, "convert_vec", o_convert_vec)

    def o_expand(label, res, from_mat, basis):
        b = M.bv(basis)
        if not b.orthonormal:
            ctx.skip(f"{label}:formula")
            return
        M.cmp(label, res, b.coeffs(from_mat), slack=_eps(None) if "hermitian" in label else 0.0)

    fhook(Q.mb, "calc_matrix_expansion_coefficient", o_expand)
    fhook(Q.mb, "calc_hermitian_matrix_expansion_coefficient_hermitian_basis", o_expand)

    def o_mat_from_coeff(label, res, coeff, basis):
        b = M.bv(basis)
        if not b.orthonormal:
            ctx.skip(f"{label}:formula")
            return
        M.cmp(label, res, b.op(coeff))

    fhook(Q.mb, "calc_mat_from_coefficient_basis", o_mat_from_coeff)

    # ------------------------------------------- Gate / MProcess methods
    comp_cache = {}

    def comp_bv(d, mode):
        k = (d, mode)
        if k not in comp_cache:
            comp_cache[k] = BV(comp_units(d, mode))
        return comp_cache[k]

    def obj_hs(self, outcome):
        if outcome is _NONE:
            return self.hs
        return self.hss[_serial(outcome, self.shape)]

    def mk_methods(cls, has_outcome):
        def hs_list(self):
            return [self.hs] if not has_outcome else list(self.hss)

        def o_cb(label, res, self, other_basis):
            bv, bo = M.bv(self.composite_system), M.bv(other_basis)
            if not (bv.oh and bo.orthonormal):
                ctx.skip(f"{label}:formula")
                return
            wants = [bo.hs_of_nat(bv.nat(h)) for h in hs_list(self)]
            if has_outcome:
                M.cmp_list(label, res, wants)
            else:
                M.cmp(label, res, wants[0])

        mhook(cls, "convert_basis", o_cb)

        def o_comp(label, res, self, mode):
            bv = M.bv(self.composite_system)
            if not judged(label, bv):
                return
            if mode not in ("row_major", "column_major"):
                return
            bo = comp_bv(bv.d, mode)
            wants = [bo.hs_of_nat(bv.nat(h)) for h in hs_list(self)]
            if has_outcome:
                M.cmp_list(label, res, wants)
            else:
                M.cmp(label, res, wants[0])

        mhook(cls, "convert_to_comp_basis", o_comp)

        def o_choi(label, res, self, outcome=_NONE):
            bv = M.bv(self.composite_system)
            if judged(label, bv):
                M.cmp(label, res, choi_want(bv, obj_hs(self, outcome)))

        for nm in ("to_choi_matrix", "to_choi_matrix_with_dict", "to_choi_matrix_with_sparsity"):
            mhook(cls, nm, o_choi)

        def o_kraus(label, res, self, outcome=_NONE):
            bv = M.bv(self.composite_system)
            if judged(label, bv):
                atol = self.eps_proj_physical if not has_outcome else _eps(None)
                judge_kraus(label, res, bv, obj_hs(self, outcome), atol)

        mhook(cls, "to_kraus_matrices", o_kraus)

        def o_chi(label, res, self, outcome=_NONE):
            bv = M.bv(self.composite_system)
            if judged(label, bv):
                M.cmp(label, res, chi_of_nat(bv.nat(obj_hs(self, outcome)), bv.d))

        mhook(cls, "to_process_matrix", o_chi)

    mk_methods(Q.Gate, False)
    mk_methods(Q.MProcess, True)

    # --------------------------------------------- computational bases
    def judge_comp_basis(label, res, d, mode):
        if mode not in ("row_major", "column_major"):
            return
        want = comp_units(int(d), mode)
        try:
            got = ref.basis_list(res)
        except Exception:
            ctx.truth(f"{label}:definition", False, key=f"{label}:definition:malformed-output:{mode}")
            return
        ok = len(got) == len(want) and all(g.shape == w.shape and np.array_equal(g, w) for g, w in zip(got, want))
        ctx.truth(f"{label}:definition", ok, key=f"{label}:definition:{mode}", info={"dim": int(d), "mode": mode})

    def o_get_comp(label, res, dim, mode):
        judge_comp_basis(label, res, dim, mode)

    fhook(Q.mb, "get_comp_basis", o_get_comp)

    def o_csys_comp(label, res, self, mode):
        judge_comp_basis(label, res, self.dim, mode)

    mhook(CompositeSystem, "comp_basis", o_csys_comp)

    # ----------------------------------------------------- truncate_hs
    def o_trunc(label, res, hs, eps_truncate_imaginary_part, is_zero_imaginary_part_required):
        eps = _eps(eps_truncate_imaginary_part)
        x = np.asarray(hs)
        out = np.asarray(res)
        if out.shape != x.shape:
            ctx.truth(f"{label}:within-eps", False, key=f"{label}:shape", info={"got": list(out.shape), "want": list(x.shape)})
            return
        if is_zero_imaginary_part_required is True:
            ctx.truth(f"{label}:real-output", bool(np.isrealobj(out)), key=f"{label}:complex-output-when-real-required")
        diff = out.astype(np.complex128) - x.astype(np.complex128)
        dr, di = _maxabs(diff.real), _maxabs(diff.imag)
        ok = bool(np.all(np.isfinite(out))) if np.all(np.isfinite(x)) else True
        ctx.truth(f"{label}:within-eps", ok and dr <= eps and di <= eps,
                  key=f"{label}:output-differs-by-more-than-eps:{'real' if dr > eps else 'imag'}:{M.cls}{M.step}",
                  info={"eps": eps, "max_real_diff": dr, "max_imag_diff": di, "required": bool(is_zero_imaginary_part_required)})

    def x_trunc(label, exc, hs, eps_truncate_imaginary_part, is_zero_imaginary_part_required):
        eps = _eps(eps_truncate_imaginary_part)
        x = np.asarray(hs)
        im = _maxabs(x.imag) if np.iscomplexobj(x) else 0.0
        legit = isinstance(exc, ValueError) and is_zero_imaginary_part_required is True and im >= eps
        ctx.truth(f"{label}:raises-only-on-imaginary-input", legit,
                  key=f"{label}:exception:{type(exc).__name__}:max-imag-below-eps" if isinstance(exc, ValueError) else f"{label}:exception:{type(exc).__name__}",
                  info={"eps": eps, "max_imag": im, "required": bool(is_zero_imaginary_part_required)})

    fhook(mutil, "truncate_hs", o_trunc, on_exc=x_trunc)
    return M


_NONE = object()

# ------------------------------------------------------------------ workload

SWEEP = {
    "state": lambda d: d * d,
    "povm": lambda d: 3 * d * d,
    "gate": lambda d: d ** 4,
    "mprocess": lambda d: d ** 4 if d <= 3 else 96,
}


def _dim(shape):
    return int(np.prod(gen.SHAPES[shape.rstrip("p")]))


COST = {"state": 1, "povm": 2, "gate": 6, "mprocess": 6}


def _job(family, shape, kind, lo, n, stride=1, dense_every=1):
    return {"shape": shape, "kind": kind, "lo": int(lo), "n": int(n), "stride": int(stride), "dense_every": int(dense_every)}


def _job_keys(family, j):
    return [j["lo"] + i * j["stride"] for i in range(j["n"])]


def _is_dense(family, j, k):
    return k % max(1, j["dense_every"]) == 0 or k >= SWEEP[family](_dim(j["shape"]))


def _weight(family, jobs):
    w = 0.0
    for j in jobs:
        d = _dim(j["shape"])
        nd = sum(1 for k in _job_keys(family, j) if _is_dense(family, j, k))
        w += COST[family] * d ** 3 * (j["n"] + 4 * nd)
    return w


def shards(tier, seed):
    """each shard = one family and a list of jobs (shape, basis kind, range of input-basis indices lo + i*stride;
    indices beyond the input-space dimension are purely random cases)"""
    out = []

    def shard(family, jobs):
        out.append({"family": family, "jobs": jobs, "weight": _weight(family, jobs)})

    def split(family, shape, kind, chunks, extra, dense_every=1, stride=1):
        """jobs covering the whole sweep (+extra random cases) in `chunks` pieces"""
        total = -(-SWEEP[family](_dim(shape)) // stride) + extra
        per = -(-total // chunks)
        jobs, i = [], 0
        while i < total:
            n = min(per, total - i)
            jobs.append(_job(family, shape, kind, i * stride, n, stride, dense_every))
            i += n
        return jobs

    if tier == "quick":
        for shape in ("S1", "S3"):
            for kind in ("std", "rot"):
                shard("state", split("state", shape, kind, 1, 12))
                shard("povm", split("povm", shape, kind, 1, 12))
                for j in split("gate", shape, kind, 1 if shape == "S1" else 2, 12):
                    shard("gate", [j])
            for kind in ("std", "nggm"):
                for j in split("mprocess", shape, kind, 1 if shape == "S1" else 2, 10):
                    shard("mprocess", [j])
        shard("state", split("state", "S2", "std", 1, 8))
        shard("state", split("state", "S2", "nherm", 1, 8))
        for j in split("gate", "S2", "std", 8, 8, dense_every=4):
            shard("gate", [j])
        out.append({"family": "util", "n": 400, "weight": 1})
        out.append({"family": "util", "n": 400, "weight": 1})
        # sibling systems: several composite systems of the SAME shape but different bases (and the same basis again)
        # in ONE process, so that tables shared or cached across composite systems show up against the defining
        # formulas (the thorough tier does this for every family anyway); missed seeded change C02-3
        for fam in ("state", "povm", "gate"):
            for shape in ("S1", "S3"):
                jobs = []
                for kind in ("std", "rot", "nherm", "std"):
                    jobs += split(fam, shape, kind, 1, 4, stride=7 if fam == "gate" else 2)[:1]
                shard(fam, jobs)
    else:
        for shape in ("S1", "S3", "S2", "S23", "S23p"):
            shard("state", [j for kind in HERM_KINDS for j in split("state", shape, kind, 1, 40)])
            if _dim(shape) <= 4:
                shard("povm", [j for kind in HERM_KINDS for j in split("povm", shape, kind, 1, 40)])
            else:
                shard("povm", [j for kind in ("std", "rot") for j in split("povm", shape, kind, 1, 40, dense_every=4)])
                shard("povm", [j for kind in ("nggm", "nherm") for j in split("povm", shape, kind, 1, 40, dense_every=4)])
        shard("gate", [j for kind in HERM_KINDS for j in split("gate", "S1", kind, 1, 40)])
        shard("gate", [j for kind in ("std", "rot") for j in split("gate", "S3", kind, 1, 40)])
        shard("gate", [j for kind in ("nggm", "nherm") for j in split("gate", "S3", kind, 1, 40)])
        for kind in HERM_KINDS:
            for j in split("gate", "S2", kind, 2, 40, dense_every=4):
                shard("gate", [j])
        # qubit x qutrit: the 1296-dimensional HS / Choi input spaces are swept completely for the standard basis, with
        # stride 4 for quara's Hermitian basis on the permuted system and with stride 8 for the other two
        for j in split("gate", "S23", "std", 10, 16, dense_every=16):
            shard("gate", [j])
        for j in split("gate", "S23p", "nherm", 4, 12, dense_every=32, stride=4):
            shard("gate", [j])
        for shape, kind in (("S23", "rot"), ("S23p", "nggm")):
            for j in split("gate", shape, kind, 4, 12, dense_every=32, stride=8):
                shard("gate", [j])
        shard("mprocess", [j for kind in ("std", "nggm") for j in split("mprocess", "S1", kind, 1, 24)])
        shard("mprocess", [j for kind in ("std", "nggm") for j in split("mprocess", "S3", kind, 1, 24)])
        for kind in ("std", "nggm"):
            shard("mprocess", split("mprocess", "S2", kind, 1, 24, dense_every=4))
        for shape, kind in (("S23", "std"), ("S23p", "nggm"), ("S23", "nggm"), ("S23p", "std")):
            for j in split("mprocess", shape, kind, 2, 8, dense_every=12):
                shard("mprocess", [j])
        for _ in range(2):
            out.append({"family": "util", "n": 5000, "weight": 1})
    return out


class Driver:
    def __init__(self, ctx, M, c_sys, shape, kind):
        self.ctx, self.M, self.c_sys, self.shape, self.kind = ctx, M, c_sys, shape, kind
        self.Q = gen.q()
        self.bv = BV(gen.basis_of(c_sys))
        self.d = c_sys.dim
        self.others = None
        self.prev = None   # driver of the previous job of this shard (same shape, other basis): its veteran is interleaved
        self.vets = {}     # veteran objects kept alive and re-queried in every case of the job
        self.bufs = {}     # caller-owned argument arrays handed to the conversion functions again with new contents
        self.held = []     # results held by the caller, re-judged against the defining formula at the end of the case

    # -- plumbing
    def name_of(self, fn):
        s = getattr(fn, "__self__", None)
        if s is not None and not inspect.ismodule(s):
            return f"{type(s).__name__}.{fn.__name__}"
        return f"{getattr(fn, '__module__', '?').split('.')[-1]}.{fn.__name__}"

    def call(self, fn, *a, **kw):
        ok, val = self.ctx.attempt(fn, *a, **kw)
        if not ok:
            # an exception from a conversion defined on its input: a failed evaluation of that conversion's oracle
            nm = self.name_of(fn)
            self.ctx.truth(f"{nm}:formula", False, key=f"{nm}:{self.ctx.exc_key(val)}{self.M.step}",
                           info={"cls": self.M.cls, "step": self.M.step, "msg": str(val)[:200]})
            return None
        return val

    def num(self, oracle, a, b, keycls=True):
        """agreement / round-trip / linearity verdict on two arrays (or lists of arrays)"""
        if a is None or b is None:
            return
        try:
            if isinstance(a, (list, tuple)):
                if len(a) != len(b):
                    self.ctx.truth(oracle, False, key=f"{oracle}:length")
                    return
                A = np.concatenate([ref.dense(x).reshape(-1) for x in a]) if len(a) else np.zeros(0)
                B = np.concatenate([ref.dense(x).reshape(-1) for x in b]) if len(b) else np.zeros(0)
            else:
                A, B = ref.dense(a), ref.dense(b)
            if A.shape != B.shape:
                self.ctx.truth(oracle, False, key=f"{oracle}:shape", info={"a": list(A.shape), "b": list(B.shape)})
                return
        except Exception as e:  # malformed output
            self.ctx.truth(oracle, False, key=f"{oracle}:malformed-output", info={"exc": repr(e)[:200]})
            return
        scale = max(1.0, _maxabs(B))
        err = _maxabs(A - B) / scale
        self.ctx.num(oracle, err, TOL_PASS, TOL_FAIL, key=f"{oracle}:{self.M.cls}" if keycls else oracle,
                     info={"cls": self.M.cls, "a": A, "b": B})

    def other_bases(self):
        if self.others is None:
            dims = gen.SHAPES[self.shape.rstrip("p")]
            names = [1, 0] if self.shape.endswith("p") else None
            o = []
            for k in HERM_KINDS:
                if k != self.kind:
                    o.append((k, gen.make_csys(dims, names, kind=k).basis()))
            o.append(("localcomp", gen.make_csys(dims, names, kind="comp").basis()))
            o.append(("comp-row", self.c_sys.comp_basis("row_major")))
            o.append(("comp-col", self.c_sys.comp_basis(mode="column_major")))
            self.others = o
        return self.others

    def pick_others(self, rng, dense):
        o = self.other_bases()
        if dense:
            return o
        i = int(rng.integers(0, len(o) - 2))
        return [o[i], o[-2 + int(rng.integers(0, 2))]]

    def drop_caches(self, which):
        """drops cached tables of the composite system: all of the group, or (rotating) ONE of them only - a table that is
        restored from a surviving sibling table instead of being recomputed has to come out the same"""
        c = self.c_sys
        n = self._drops = getattr(self, "_drops", -1) + 1
        pat = n % (len(which) + 1)
        chosen = list(which) if pat == 0 else [which[pat - 1]]
        for nm in chosen:
            getattr(c, nm)()
        self.ctx.count("cache-drop:" + ("group" if pat == 0 else "single-table"))

    # -- history plumbing
    def prov(self, what, fn, *a, **kw):
        """an operation that only PRODUCES an object for a history step (copy, set_zero, generate_from_var, +, pickle ...):
        whether it works is another property's business; when it raises the step is skipped and counted"""
        ok, val = self.ctx.attempt(fn, *a, **kw)
        if not ok:
            self.ctx.count(f"history:step-unavailable:{what}:{type(val).__name__}")
            return None
        self.ctx.count(f"history:{what}")
        return val if val is not None else True

    def buf(self, name, value):
        """the caller's own array object, the same one for the whole job, filled with new contents before every call"""
        v = np.asarray(value)
        key = (name, v.shape, v.dtype.str)
        b = self.bufs.get(key)
        if b is None:
            b = self.bufs[key] = np.zeros(v.shape, dtype=v.dtype)
        b[...] = v
        return b

    def hold(self, label, result, want, is_list=False):
        """keep the array(s) a conversion returned (no copy) together with what the defining formula gives for the
        operand it was called with (reference arithmetic, computed now)"""
        if result is None:
            return
        want = [np.array(w) for w in want] if is_list else np.array(want)
        self.held.append((label, self.M.cls, result, want, is_list))

    def check_held(self):
        """later calls (on this or on other objects) must not have changed a result the caller still holds"""
        M = self.M
        keep = M.cls
        M.step = ""
        for label, cls, result, want, is_list in self.held:
            M.cls = cls
            if is_list:
                M.cmp_list(label, result, want, what="formula:held-result")
            else:
                M.cmp(label, result, want, what="formula:held-result")
        M.cls = keep
        M.step = ""
        self.held = []

    # -- inputs
    def herm_unit(self, n, k):
        return herm_units(n)[k]

    def rand_herm(self, n, rng, scale=1.0):
        return ref.rand_herm(n, rng, scale)


def run_state(ctx, M, D, k, dense, rng):
    Q, c_sys, d, bv = D.Q, D.c_sys, D.d, D.bv
    sm = Q.state_mod
    d2 = d * d
    inputs = []
    if k < d2:
        x = np.zeros(d2)
        x[k] = 1.0
        inputs.append(("unit", x, herm_units(d)[k]))
        ctx.nontrivial("state", D.shape, D.kind, "unit", k)
    if dense or k >= d2:
        sc = float(rng.choice([0.1, 1.0, 10.0]))
        xr = rng.standard_normal(d2) * sc
        inputs.append(("random", xr, ref.rand_herm(d, rng, sc)))
        rho = ref.rand_density(d, rng, int(rng.integers(1, d + 1)))
        inputs.append(("physical", np.ascontiguousarray(bv.coeffs(rho).real), rho))
        ctx.nontrivial("state", D.shape, D.kind, "random", xr)
    made = []
    for cls, x, H in inputs:
        M.cls = cls
        s = D.call(Q.State, c_sys, x, is_physicality_required=False)
        if s is None:
            continue
        A = D.call(s.to_density_matrix)
        if A is not None:
            made.append((cls, s, x.copy(), np.array(ref.dense(A))))
        if k % 5 == 3:
            D.drop_caches(["delete_basis_T_sparse", "delete_basisconjugate_sparse"])
        Bm = D.call(s.to_density_matrix_with_sparsity)
        Cm = D.call(sm.to_density_matrix_from_vec, c_sys, x)
        Dm = D.call(sm.to_density_matrix_from_var, c_sys, x, on_para_eq_constraint=False)
        if bv.identity_first:
            D.call(sm.to_density_matrix_from_var, c_sys, x[1:])
        D.num("agree:State.to_density_matrix:dense-vs-sparse", A, Bm)
        D.num("agree:State.to_density_matrix:method-vs-function", Bm, Cm)
        D.num("agree:state.to_density_matrix:from_vec-vs-from_var", Cm, Dm)
        want = bv.op(x)
        D.hold("State.to_density_matrix", A, want)
        D.hold("State.to_density_matrix_with_sparsity", Bm, want)
        D.hold("state.to_density_matrix_from_vec", Cm, want)
        if Cm is not None:
            v2 = D.call(sm.to_vec_from_density_matrix_with_sparsity, c_sys, Cm)
            D.num("roundtrip:state:vec->density->vec", v2, x)
        for nm, ob in D.pick_others(rng, dense):
            y = D.call(s.convert_basis, ob)
            if y is not None:
                back = D.call(Q.mb.convert_vec, y, ob, c_sys.basis())
                D.num("roundtrip:convert_vec:there-and-back", back, x)
        # matrix input
        v = D.call(sm.to_vec_from_density_matrix_with_sparsity, c_sys, H)
        D.hold("state.to_vec_from_density_matrix_with_sparsity", v, bv.coeffs(H).real)
        if cls != "unit" and k % 3 == 0:
            D.call(sm.to_vec_from_density_matrix_with_sparsity, c_sys, H, 1e-9)
        var = D.call(sm.to_var_from_density_matrix, c_sys, H, False)
        D.num("agree:state.to_vec-vs-to_var", v, var)
        if bv.identity_first:
            H1 = H + (1 - np.trace(H)) / d * np.eye(d)
            D.call(sm.to_var_from_density_matrix, c_sys, H1)
        if v is not None:
            H2 = D.call(sm.to_density_matrix_from_vec, c_sys, v)
            D.num("roundtrip:state:density->vec->density", H2, H)
        # matrix_basis expansion helpers (same conversion, basis given explicitly)
        e1 = D.call(Q.mb.calc_matrix_expansion_coefficient, H, c_sys.basis())
        e2 = D.call(Q.mb.calc_hermitian_matrix_expansion_coefficient_hermitian_basis, H, c_sys.basis())
        D.num("agree:matrix_basis.expansion:complex-vs-hermitian", e1, e2)
        D.num("agree:matrix_basis.expansion-vs-state.to_vec", e2, v)
        G_ = H + 1j * ref.rand_herm(d, rng) if cls != "unit" else H + 0.5j * herm_units(d)[(k + 1) % d2]
        for nm, ob in D.pick_others(rng, False) + [("self", c_sys.basis())]:
            e3 = D.call(Q.mb.calc_matrix_expansion_coefficient, G_, ob)
            if e3 is not None:
                D.num("roundtrip:matrix_basis:matrix->coeff->matrix", D.call(Q.mb.calc_mat_from_coefficient_basis, e3, ob), G_)
        D.call(Q.mb.calc_mat_from_coefficient_basis, x, c_sys.basis())
    if dense or k >= d2:
        M.cls = "random"
        a, b = rng.standard_normal(2)
        x, y = rng.standard_normal(d2), rng.standard_normal(d2)
        f = lambda z: D.call(sm.to_density_matrix_from_vec, c_sys, z)  # noqa: E731
        fx, fy, fz = f(x), f(y), f(a * x + b * y)
        if fx is not None and fy is not None:
            D.num("linear:state.to_density_matrix_from_vec", fz, a * fx + b * fy)
        X, Y = ref.rand_herm(d, rng), ref.rand_herm(d, rng)
        g = lambda z: D.call(sm.to_vec_from_density_matrix_with_sparsity, c_sys, z)  # noqa: E731
        gx, gy, gz = g(X), g(Y), g(a * X + b * Y)
        if gx is not None and gy is not None:
            D.num("linear:state.to_vec_from_density_matrix_with_sparsity", gz, a * gx + b * gy)
    hist_state(ctx, M, D, k, dense, ctx.rng(1), made)


def run_povm(ctx, M, D, k, dense, rng):
    Q, c_sys, d, bv = D.Q, D.c_sys, D.d, D.bv
    pm = Q.povm_mod
    d2 = d * d
    inputs = []
    if k < 3 * d2:
        vecs = [np.zeros(d2) for _ in range(3)]
        vecs[k // d2][k % d2] = 1.0
        Ms = [np.zeros((d, d), dtype=np.complex128) for _ in range(3)]
        Ms[k // d2] = herm_units(d)[k % d2]
        inputs.append(("unit", vecs, Ms))
        ctx.nontrivial("povm", D.shape, D.kind, "unit", k)
    if dense or k >= 3 * d2:
        m = int(rng.integers(2, 6))
        sc = float(rng.choice([0.1, 1.0, 10.0]))
        vecs = [rng.standard_normal(d2) * sc for _ in range(m)]
        inputs.append(("random", vecs, [ref.rand_herm(d, rng, sc) for _ in range(m)]))
        ctx.nontrivial("povm", D.shape, D.kind, "random", np.hstack(vecs))
        m2 = int(rng.integers(2, 6))
        rk = int(rng.integers(1, d + 1))
        while m2 * rk < d:  # ref.rand_povm needs a full-rank sum
            rk += 1
        ms = ref.rand_povm(d, m2, rng, rk)
        inputs.append(("physical", [np.ascontiguousarray(bv.coeffs(x).real) for x in ms], ms))
    made = []
    for cls, vecs, Ms in inputs:
        M.cls = cls
        m = len(vecs)
        p = D.call(Q.Povm, c_sys, vecs, is_physicality_required=False)
        if p is None:
            continue
        A = D.call(p.matrices)
        if A is not None and len(A) == m:
            made.append((cls, p, [v.copy() for v in vecs], [np.array(ref.dense(a)) for a in A]))
        if k % 5 == 3:
            D.drop_caches(["delete_basis_T_sparse", "delete_basisconjugate_sparse"])
        Bm = D.call(p.matrices_with_sparsity)
        Cm = D.call(pm.to_matrices_from_vecs, c_sys, vecs)
        D.num("agree:Povm.matrices:dense-vs-sparse", A, Bm)
        D.num("agree:Povm.matrices:method-vs-function", Bm, Cm)
        want = [bv.op(v) for v in vecs]
        D.hold("Povm.matrices", A, want, True)
        D.hold("Povm.matrices_with_sparsity", Bm, want, True)
        D.hold("povm.to_matrices_from_vecs", Cm, want, True)
        for i in range(m):
            a1 = D.call(p.matrix, i)
            a2 = D.call(p.matrix, (i,))
            a3 = D.call(p.matrix_with_sparsity, i)
            D.num("agree:Povm.matrix:int-vs-tuple-index", a1, a2)
            D.num("agree:Povm.matrix:dense-vs-sparse", a1, a3)
            if A is not None and len(A) == m:
                D.num("agree:Povm.matrix-vs-matrices", a1, A[i])
        var = np.hstack(vecs)
        Dm = D.call(pm.to_matrices_from_var, c_sys, var, False)
        D.num("agree:povm.to_matrices:from_vecs-vs-from_var", Cm, Dm)
        if bv.identity_first:
            D.call(pm.to_matrices_from_var, c_sys, np.hstack(vecs[:-1]))
        if Cm is not None:
            v2 = D.call(pm.to_vecs_from_matrices_with_sparsity, c_sys, Cm)
            D.num("roundtrip:povm:vecs->matrices->vecs", v2, vecs)
        for nm, ob in D.pick_others(rng, dense):
            y = D.call(p.convert_basis, ob)
            if y is not None:
                back = [D.call(Q.mb.convert_vec, yi, ob, c_sys.basis()) for yi in y]
                if all(b is not None for b in back):
                    D.num("roundtrip:convert_vec:there-and-back", back, vecs)
        # matrix input
        vs = D.call(pm.to_vecs_from_matrices_with_sparsity, c_sys, Ms)
        D.hold("povm.to_vecs_from_matrices_with_sparsity", vs, [bv.coeffs(x).real for x in Ms], True)
        v0 = D.call(pm.to_vec_from_matrix_with_sparsity, c_sys, Ms[-1])
        if cls != "unit" and k % 3 == 0:
            D.call(pm.to_vec_from_matrix_with_sparsity, c_sys, Ms[0], 1e-9)
        if vs is not None and len(vs) == m:
            D.num("agree:povm.to_vec-vs-to_vecs", v0, vs[-1])
        var2 = D.call(pm.to_var_from_matrices, c_sys, Ms, False)
        if vs is not None and var2 is not None:
            D.num("agree:povm.to_vecs-vs-to_var", np.hstack(vs) if len(vs) else None, var2)
        if bv.identity_first:
            Ms1 = list(Ms[:-1]) + [np.eye(d) - sum(Ms[:-1])]
            D.call(pm.to_var_from_matrices, c_sys, Ms1)
        if vs is not None:
            M2 = D.call(pm.to_matrices_from_vecs, c_sys, vs)
            D.num("roundtrip:povm:matrices->vecs->matrices", M2, Ms)
    if dense or k >= 3 * d2:
        M.cls = "random"
        a, b = rng.standard_normal(2)
        x, y = rng.standard_normal(d2), rng.standard_normal(d2)
        f = lambda z: D.call(pm.to_matrices_from_vecs, c_sys, [z])  # noqa: E731
        fx, fy, fz = f(x), f(y), f(a * x + b * y)
        if fx is not None and fy is not None and fz is not None:
            D.num("linear:povm.to_matrices_from_vecs", fz[0], a * fx[0] + b * fy[0])
        X, Y = ref.rand_herm(d, rng), ref.rand_herm(d, rng)
        g = lambda z: D.call(pm.to_vec_from_matrix_with_sparsity, c_sys, z)  # noqa: E731
        gx, gy, gz = g(X), g(Y), g(a * X + b * Y)
        if gx is not None and gy is not None:
            D.num("linear:povm.to_vec_from_matrix_with_sparsity", gz, a * gx + b * gy)
    hist_povm(ctx, M, D, k, dense, ctx.rng(1), made)


# ------------------------------------------------- history / combination steps
#
# The oracles of this check live in the hooks: every call of a conversion is judged against the defining formula
# for the operand AS IT IS at the time of the call.  The steps below therefore only have to create histories: the same
# object asked again (other order, other arguments in between), after its public mutator set_zero(), objects reached
# through copy() / generate_from_var() / generate_origin_obj() / arithmetic / a pickle round trip, veteran objects
# kept alive over all cases of a job (and of the previous job of the shard: same shape, other basis), objects of
# another class on the same composite system, the caller's own argument array handed in again with new contents, and
# results the caller still holds while later calls are made.  Driver-level verdicts added here use the existing
# tolerances and carry a suffix naming the step (":second-call", ":via-copy", ":after-set_zero", ":re-used-object",
# "formula:held-result").


def _det(n, a=1.7, b=0.9):
    """fixed (not random) generic real data for veteran objects, so that a replayed case builds the same veteran"""
    t = np.arange(1, n + 1, dtype=np.float64)
    return np.cos(a * t) + 0.3 * np.sin(b * t * t)


VET_QUERIES = {
    "state": [("to_density_matrix", ()), ("to_density_matrix_with_sparsity", ())],
    "povm": [("matrices", ()), ("matrix_with_sparsity", (2,)), ("matrices_with_sparsity", ()), ("matrix", (1,))],
    "gate": [("to_choi_matrix_with_sparsity", ()), ("convert_to_comp_basis", ("column_major",)), ("to_choi_matrix_with_dict", ()),
             ("to_process_matrix", ()), ("to_choi_matrix", ()), ("convert_to_comp_basis", ())],
    "mprocess": [("to_choi_matrix_with_sparsity", ((1, 0),)), ("to_choi_matrix_with_dict", (3,)), ("to_process_matrix", ((0, 1),)),
                 ("to_choi_matrix", (2,)), ("to_choi_matrix_with_sparsity", (1,)), ("convert_to_comp_basis", ())],
}


def veteran(D, fam):
    v = D.vets.get(fam)
    if v is not None:
        return v
    Q, c_sys, d = D.Q, D.c_sys, D.d
    d2 = d * d
    if fam == "state":
        obj = D.prov("veteran", Q.State, c_sys, _det(d2), is_physicality_required=False)
    elif fam == "povm":
        obj = D.prov("veteran", Q.Povm, c_sys, [_det(d2, 1.7 + 0.4 * i) for i in range(3)], is_physicality_required=False)
    elif fam == "gate":
        obj = D.prov("veteran", Q.Gate, c_sys, _det(d2 * d2).reshape(d2, d2), is_physicality_required=False)
    else:
        obj = D.prov("veteran", Q.MProcess, c_sys, [_det(d2 * d2, 1.3 + 0.5 * i).reshape(d2, d2) for i in range(4)],
                     shape=(2, 2), is_physicality_required=False)
    if obj is None:
        return None
    v = D.vets[fam] = {"obj": obj, "first": {}}
    return v


def visit_veterans(D, fam, k, n_queries):
    """re-use: the veteran of this job (and the one of the previous job of the shard) is asked again in every case,
    interleaved with the case's own objects of the same class and size; each answer is judged by the hooks and must
    agree with the answer the same object gave the first time"""
    M = D.M
    keep = M.cls
    M.cls = "veteran"
    M.step = ":re-used-object"
    qs = VET_QUERIES[fam]
    for drv in (D, D.prev):
        if drv is None:
            continue
        v = veteran(drv, fam)
        if v is None:
            continue
        for j in range(n_queries):
            qi = (k + j) % len(qs)
            nm, args = qs[qi]
            r = D.call(getattr(v["obj"], nm), *args)
            if r is None:
                continue
            first = v["first"].get(qi)
            if first is None:
                v["first"][qi] = [np.array(ref.dense(x)) for x in r] if isinstance(r, list) else np.array(ref.dense(r))
            else:
                D.num(f"agree:{type(v['obj']).__name__}.{nm}:re-used-object", r, first)
    M.cls = keep
    M.step = ""


def hist_state(ctx, M, D, k, dense, rng, made):
    Q, c_sys, d, bv = D.Q, D.c_sys, D.d, D.bv
    sm = Q.state_mod
    d2 = d * d
    basis = c_sys.basis()
    visit_veterans(D, "state", k, 2)
    zero = np.zeros((d, d))
    for cls, s, x0, A0 in made:
        M.cls = cls
        nm, ob = D.pick_others(rng, False)[0]
        # provenance: the copy denotes the same operator; then the copy's public mutator, then the copy again
        M.step = ":via-copy"
        sc = D.prov("copy", s.copy)
        if sc is not None:
            D.num("agree:State.to_density_matrix_with_sparsity:via-copy", D.call(sc.to_density_matrix_with_sparsity), A0)
            D.num("agree:State.to_density_matrix:via-copy", D.call(sc.to_density_matrix), A0)
            D.call(sc.convert_basis, ob)
            if D.prov("set_zero", sc.set_zero) is not None:
                M.step = ":after-set_zero"
                D.num("agree:State.to_density_matrix:after-set_zero", D.call(sc.to_density_matrix), zero)
                D.num("agree:State.to_density_matrix_with_sparsity:after-set_zero", D.call(sc.to_density_matrix_with_sparsity), zero)
                y = D.call(sc.convert_basis, ob)
                if y is not None:
                    D.num("agree:State.convert_basis:after-set_zero", y, np.zeros(d2))
        # the original again, other order, after everything that happened to its copy and to the other objects
        M.step = ":second-call"
        y = D.call(s.convert_basis, ob)
        if y is not None:
            D.num("roundtrip:convert_vec:there-and-back:second-call", D.call(Q.mb.convert_vec, y, ob, basis), x0)
        D.num("agree:State.to_density_matrix_with_sparsity:second-call", D.call(s.to_density_matrix_with_sparsity), A0)
        D.num("agree:State.to_density_matrix:second-call", D.call(s.to_density_matrix), A0)
    if made:
        cls, s, x0, A0 = made[-1]
        M.cls = cls
        # objects returned by previous library calls
        M.step = ":derived-object"
        der = []
        der.append(D.prov("generate_from_var", s.generate_from_var, rng.standard_normal(d2 - 1 if s.on_para_eq_constraint else d2)))
        der.append(D.prov("generate_origin_obj", s.generate_origin_obj))
        sc = D.prov("copy", s.copy)
        if sc is not None:
            der.append(D.prov("add", lambda: s + sc))
            der.append(D.prov("rmul", lambda: 0.5 * s))
        if dense:
            import pickle

            der.append(D.prov("pickle", lambda: pickle.loads(pickle.dumps(s))))
        for o in der:
            if o is None:
                continue
            D.call(o.to_density_matrix_with_sparsity)
            D.call(o.to_density_matrix)
        # another class on the same composite system
        M.step = ":other-class-on-same-system"
        p = D.prov("other-class", Q.Povm, c_sys, [x0.copy(), rng.standard_normal(d2)], is_physicality_required=False)
        if p is not None:
            D.call(p.matrices_with_sparsity)
            D.call(p.matrix, 1)
        # the caller's own arrays, handed in again with new contents (the same array objects for the whole job)
        M.step = ":caller-array-reused"
        vb = D.buf("vec", x0)
        D.call(sm.to_density_matrix_from_vec, c_sys, vb)
        nm, ob = D.pick_others(rng, False)[-1]
        D.call(Q.mb.convert_vec, vb, basis, ob)
        D.call(Q.mb.calc_mat_from_coefficient_basis, vb, basis)
        if bv.identity_first:  # options in the other order: constrained form first
            D.call(sm.to_density_matrix_from_var, c_sys, D.buf("var", x0[1:]))
        D.call(sm.to_density_matrix_from_var, c_sys, vb, on_para_eq_constraint=False)
        mb_ = D.buf("mat", A0)
        D.call(sm.to_vec_from_density_matrix_with_sparsity, c_sys, mb_, 1e-9)
        D.call(sm.to_vec_from_density_matrix_with_sparsity, c_sys, mb_)
        D.call(sm.to_var_from_density_matrix, c_sys, mb_, False)
        D.call(Q.mb.calc_matrix_expansion_coefficient, mb_, basis)
        D.call(Q.mb.calc_hermitian_matrix_expansion_coefficient_hermitian_basis, mb_, basis)
    D.check_held()


def hist_povm(ctx, M, D, k, dense, rng, made):
    Q, c_sys, d, bv = D.Q, D.c_sys, D.d, D.bv
    pm = Q.povm_mod
    d2 = d * d
    basis = c_sys.basis()
    visit_veterans(D, "povm", k, 2)
    zero = np.zeros((d, d))
    for cls, p, vecs0, A0 in made:
        M.cls = cls
        m = len(vecs0)
        nm, ob = D.pick_others(rng, False)[0]
        M.step = ":via-copy"
        pc = D.prov("copy", p.copy)
        if pc is not None:
            D.num("agree:Povm.matrices_with_sparsity:via-copy", D.call(pc.matrices_with_sparsity), A0)
            D.num("agree:Povm.matrix:via-copy", D.call(pc.matrix, m - 1), A0[m - 1])
            D.num("agree:Povm.matrices:via-copy", D.call(pc.matrices), A0)
            if D.prov("set_zero", pc.set_zero) is not None:
                M.step = ":after-set_zero"
                D.num("agree:Povm.matrices:after-set_zero", D.call(pc.matrices), [zero] * m)
                D.num("agree:Povm.matrices_with_sparsity:after-set_zero", D.call(pc.matrices_with_sparsity), [zero] * m)
                D.num("agree:Povm.matrix:after-set_zero", D.call(pc.matrix, 0), zero)
                D.num("agree:Povm.matrix_with_sparsity:after-set_zero", D.call(pc.matrix_with_sparsity, (m - 1,)), zero)
                D.call(pc.convert_basis, ob)
        # the original again: single elements in descending order, sparse before dense
        M.step = ":second-call"
        for i in reversed(range(m)):
            D.num("agree:Povm.matrix_with_sparsity:second-call", D.call(p.matrix_with_sparsity, (i,)), A0[i])
            D.num("agree:Povm.matrix:second-call", D.call(p.matrix, i), A0[i])
        D.num("agree:Povm.matrices_with_sparsity:second-call", D.call(p.matrices_with_sparsity), A0)
        D.num("agree:Povm.matrices:second-call", D.call(p.matrices), A0)
        y = D.call(p.convert_basis, ob)
        if y is not None and len(y) == m:
            back = [D.call(Q.mb.convert_vec, yi, ob, basis) for yi in y]
            if all(b is not None for b in back):
                D.num("roundtrip:convert_vec:there-and-back:second-call", back, vecs0)
    if made:
        cls, p, vecs0, A0 = made[-1]
        M.cls = cls
        m = len(vecs0)
        M.step = ":derived-object"
        der = []
        nvar = (m - 1) * d2 if p.on_para_eq_constraint else m * d2
        der.append(D.prov("generate_from_var", p.generate_from_var, rng.standard_normal(nvar)))
        der.append(D.prov("generate_origin_obj", p.generate_origin_obj))
        pc = D.prov("copy", p.copy)
        if pc is not None:
            der.append(D.prov("add", lambda: p + pc))
            der.append(D.prov("rmul", lambda: 0.5 * p))
        if dense:
            import pickle

            der.append(D.prov("pickle", lambda: pickle.loads(pickle.dumps(p))))
        for o in der:
            if o is None:
                continue
            D.call(o.matrices_with_sparsity)
            D.call(o.matrix, len(o.vecs) - 1)
            D.call(o.matrices)
        M.step = ":other-class-on-same-system"
        s = D.prov("other-class", Q.State, c_sys, vecs0[0].copy(), is_physicality_required=False)
        if s is not None:
            D.call(s.to_density_matrix_with_sparsity)
            D.call(s.to_density_matrix)
        # caller-owned arrays with new contents (always three rows, so the array objects stay the same for the job)
        M.step = ":caller-array-reused"
        rows = [vecs0[i % m] for i in range(3)]
        vb = D.buf("vecs", np.array(rows))
        D.call(pm.to_matrices_from_vecs, c_sys, list(vb))
        D.call(pm.to_matrices_from_var, c_sys, D.buf("var", np.hstack(rows)), False)
        if bv.identity_first:
            D.call(pm.to_matrices_from_var, c_sys, D.buf("var-c", np.hstack(rows[:-1])))
        mb_ = D.buf("mats", np.array([ref.dense(A0[i % m]) for i in range(3)]))
        D.call(pm.to_vecs_from_matrices_with_sparsity, c_sys, list(mb_))
        D.call(pm.to_vec_from_matrix_with_sparsity, c_sys, mb_[1], 1e-9)
        D.call(pm.to_vec_from_matrix_with_sparsity, c_sys, mb_[2])
        D.call(pm.to_var_from_matrices, c_sys, list(mb_), False)
    D.check_held()



def hist_gate(ctx, M, D, k, dense, rng, made, chois):
    """made: (cls, gate, private copy of its HS matrix, Kraus set or None, first Choi / process matrix results);
    the full history runs in every case for one qubit and in every second case otherwise (the light one always)"""
    Q, c_sys, d, bv = D.Q, D.c_sys, D.d, D.bv
    gm = Q.gate_mod
    d2 = d * d
    basis = c_sys.basis()
    full = d == 2 or k % 2 == 1
    visit_veterans(D, "gate", k, 2 if full else 1)
    zero = np.zeros((d2, d2))
    for cls, g, h0, ks, C0, X0 in (made if full else made[-1:]):
        M.cls = cls
        if full:
            nm, ob = D.pick_others(rng, False)[0]
            M.step = ":via-copy"
            gc = D.prov("copy", g.copy)
            if gc is not None:
                D.num("agree:Gate.to_choi_matrix_with_sparsity:via-copy", D.call(gc.to_choi_matrix_with_sparsity), C0)
                D.num("agree:Gate.to_choi_matrix_with_dict:via-copy", D.call(gc.to_choi_matrix_with_dict), C0)
                D.num("agree:Gate.to_process_matrix:via-copy", D.call(gc.to_process_matrix), X0)
                D.call(gc.convert_to_comp_basis, "column_major")
                if ks is not None:  # the non-default eps_proj_physical of every second physical gate travels with the copy
                    K = D.call(gc.to_kraus_matrices)
                    if K is not None and len(K) > 0:
                        D.num("roundtrip:hs->kraus->hs:via-copy", D.call(gm.to_hs_from_kraus_matrices, c_sys, K), h0)
                if D.prov("set_zero", gc.set_zero) is not None:
                    M.step = ":after-set_zero"
                    D.num("agree:Gate.to_choi_matrix_with_sparsity:after-set_zero", D.call(gc.to_choi_matrix_with_sparsity), zero)
                    D.num("agree:Gate.to_choi_matrix_with_dict:after-set_zero", D.call(gc.to_choi_matrix_with_dict), zero)
                    D.num("agree:Gate.to_choi_matrix:after-set_zero", D.call(gc.to_choi_matrix), zero)
                    D.num("agree:Gate.to_process_matrix:after-set_zero", D.call(gc.to_process_matrix), zero)
                    D.num("agree:Gate.convert_to_comp_basis:after-set_zero", D.call(gc.convert_to_comp_basis), zero)
                    D.num("agree:Gate.convert_basis:after-set_zero", D.call(gc.convert_basis, ob), zero)
            # the original again: column-major before row-major, sparse before dense
            M.step = ":second-call"
            r3 = D.call(g.convert_to_comp_basis, mode="column_major")
            r2 = D.call(g.convert_to_comp_basis)
            if r2 is not None and r3 is not None and np.shape(r2) == (d2, d2) == np.shape(r3):
                P = np.arange(d2).reshape(d, d).T.reshape(-1)
                D.num("agree:Gate.convert_to_comp_basis:row-vs-column-major:second-call", np.asarray(r3), np.asarray(r2)[np.ix_(P, P)])
            y = D.call(g.convert_basis, ob)
            if y is not None:
                D.num("roundtrip:convert_hs:there-and-back:second-call", D.call(gm.convert_hs, y, ob, basis), h0)
            D.num("agree:Gate.to_process_matrix:second-call", D.call(g.to_process_matrix), X0)
            D.num("agree:Gate.to_choi_matrix_with_dict:second-call", D.call(g.to_choi_matrix_with_dict), C0)
            if ks is not None:
                K = D.call(g.to_kraus_matrices)
                if K is not None and len(K) > 0:
                    D.num("roundtrip:hs->kraus->hs:second-call", D.call(gm.to_hs_from_kraus_matrices, c_sys, K), h0)
        M.step = ":second-call"
        D.num("agree:Gate.to_choi_matrix_with_sparsity:second-call", D.call(g.to_choi_matrix_with_sparsity), C0)
        if full or cls == "unit":
            D.num("agree:Gate.to_choi_matrix:second-call", D.call(g.to_choi_matrix), C0)
    if made:
        cls, g, h0, ks, C0, X0 = made[-1]
        M.cls = cls
        if full:
            M.step = ":derived-object"
            der = []
            der.append(D.prov("generate_from_var", g.generate_from_var, rng.standard_normal(d2 * d2 - d2 if g.on_para_eq_constraint else d2 * d2)))
            der.append(D.prov("generate_origin_obj", g.generate_origin_obj))
            gc = D.prov("copy", g.copy)
            if gc is not None:
                der.append(D.prov("add", lambda: g + gc))
                der.append(D.prov("rmul", lambda: 0.5 * g))
            if dense and d <= 3:
                import pickle

                der.append(D.prov("pickle", lambda: pickle.loads(pickle.dumps(g))))
            for o in der:
                if o is None:
                    continue
                D.call(o.to_choi_matrix_with_sparsity)
                D.call(o.to_choi_matrix_with_dict)
                D.call(o.convert_to_comp_basis, "column_major")
            if bv.identity_first:  # another class on the same composite system (MProcess needs an identity-first basis)
                M.step = ":other-class-on-same-system"
                mp = D.prov("other-class", Q.MProcess, c_sys, [h0.copy(), rng.standard_normal((d2, d2))], is_physicality_required=False)
                if mp is not None:
                    D.call(mp.to_choi_matrix_with_sparsity, 1)
                    D.call(mp.to_choi_matrix_with_dict, (0,))
        # caller-owned arrays with new contents
        M.step = ":caller-array-reused"
        hb = D.buf("hs", h0)
        D.call(gm.to_choi_from_hs_with_sparsity, c_sys, hb)
        D.call(gm.to_choi_from_hs_with_dict, c_sys, hb)
        if full:
            D.call(gm.to_choi_from_hs, c_sys, hb)
            D.call(gm.to_process_matrix_from_hs, c_sys, hb)
            nm, ob = D.pick_others(rng, False)[-1]
            D.call(gm.convert_hs, hb, basis, ob)
            if bv.identity_first:
                D.call(gm.to_choi_from_var, c_sys, D.buf("var-c", h0[1:].flatten()))
            D.call(gm.to_choi_from_var, c_sys, D.buf("var", h0.flatten()), False)
            if ks is not None:
                D.call(gm.to_kraus_matrices_from_hs, c_sys, hb, 1e-10)
                D.call(gm.to_kraus_matrices_from_hs, c_sys, hb)
                D.call(gm.to_hs_from_kraus_matrices, c_sys, list(D.buf("kraus", np.array([ks[i % len(ks)] for i in range(2)]))))
    if chois:
        cls, C = chois[-1]
        M.cls = cls
        M.step = ":caller-array-reused"
        cb = D.buf("choi", np.asarray(ref.dense(C), dtype=np.complex128))
        D.call(gm.to_hs_from_choi_with_sparsity, c_sys, cb, 1e-9)
        D.call(gm.to_hs_from_choi_with_dict, c_sys, cb)
        if full:
            D.call(gm.to_hs_from_choi_with_sparsity, c_sys, cb)
            D.call(gm.to_hs_from_choi, c_sys, cb)
            D.call(gm.to_var_from_choi, c_sys, cb, False)
    D.check_held()


def hist_mprocess(ctx, M, D, k, dense, rng, made):
    """made: (cls, mprocess, private copies of its HS matrices, shape, CP flag, outcomes asked in the normal pass)"""
    Q, c_sys, d, bv = D.Q, D.c_sys, D.d, D.bv
    gm = Q.gate_mod
    d2 = d * d
    basis = c_sys.basis()
    full = d == 2 or k % 2 == 1
    visit_veterans(D, "mprocess", k, 2 if full else 1)
    zero = np.zeros((d2, d2))

    def indices(o, shape):
        return [tuple(int(t) for t in np.unravel_index(o, shape)) if shape is not None else (o,), o]

    for cls, mp, hss0, shape, cp, outs in (made if full else made[-1:]):
        M.cls = cls
        m = len(hss0)
        want = {o: choi_of_nat(bv.nat(hss0[o]), d) for o in outs}  # reference arithmetic
        if full:
            M.step = ":via-copy"
            mc = D.prov("copy", mp.copy)
            if mc is not None:
                D.prov("set_mode_sampling", mc.set_mode_sampling, True, 7)  # a public setter that has nothing to do with conversions
                for o in outs[-2:]:
                    for ix in indices(o, shape):  # the non-default shape travels with the copy: tuple indices stay valid
                        D.num("agree:MProcess.to_choi_matrix_with_sparsity:via-copy", D.call(mc.to_choi_matrix_with_sparsity, ix), want[o])
                        D.num("agree:MProcess.to_choi_matrix_with_dict:via-copy", D.call(mc.to_choi_matrix_with_dict, ix), want[o])
                    D.call(mc.to_process_matrix, indices(o, shape)[0])
                    if cp:
                        K = D.call(mc.to_kraus_matrices, indices(o, shape)[0])
                        if K is not None and len(K) > 0:
                            D.num("roundtrip:MProcess:hs->kraus->hs:via-copy", D.call(gm.to_hs_from_kraus_matrices, c_sys, K), hss0[o])
                if D.prov("set_zero", mc.set_zero) is not None:
                    M.step = ":after-set_zero"
                    for o in outs[-2:]:
                        ix = indices(o, shape)[0]
                        D.num("agree:MProcess.to_choi_matrix_with_sparsity:after-set_zero", D.call(mc.to_choi_matrix_with_sparsity, ix), zero)
                        D.num("agree:MProcess.to_choi_matrix_with_dict:after-set_zero", D.call(mc.to_choi_matrix_with_dict, ix), zero)
                        D.num("agree:MProcess.to_choi_matrix:after-set_zero", D.call(mc.to_choi_matrix, o), zero)
                        D.num("agree:MProcess.to_process_matrix:after-set_zero", D.call(mc.to_process_matrix, ix), zero)
                    D.num("agree:MProcess.convert_to_comp_basis:after-set_zero", D.call(mc.convert_to_comp_basis), [zero] * m)
        # the original again: outcomes in descending order, tuple before int, sparse before dense
        M.step = ":second-call"
        for o in reversed(outs if full else outs[-1:]):
            for ix in indices(o, shape):
                D.num("agree:MProcess.to_choi_matrix_with_sparsity:second-call", D.call(mp.to_choi_matrix_with_sparsity, ix), want[o])
                D.num("agree:MProcess.to_choi_matrix_with_dict:second-call", D.call(mp.to_choi_matrix_with_dict, ix), want[o])
            if full:
                D.num("agree:MProcess.to_choi_matrix:second-call", D.call(mp.to_choi_matrix, o), want[o])
                D.call(mp.to_process_matrix, o)
                if cp:
                    K = D.call(mp.to_kraus_matrices, o)
                    if K is not None and len(K) > 0:
                        D.num("roundtrip:MProcess:hs->kraus->hs:second-call", D.call(gm.to_hs_from_kraus_matrices, c_sys, K), hss0[o])
        if full:
            D.call(mp.convert_to_comp_basis, mode="column_major")
            D.call(mp.convert_to_comp_basis)
            nm, ob = D.pick_others(rng, False)[0]
            y = D.call(mp.convert_basis, ob)
            if y is not None and len(y) == m:
                back = [D.call(gm.convert_hs, yi, ob, basis) for yi in y]
                if all(b is not None for b in back):
                    D.num("roundtrip:convert_hs:there-and-back:second-call", back, hss0)
    if made and full:
        cls, mp, hss0, shape, cp, outs = made[-1]
        M.cls = cls
        m = len(hss0)
        M.step = ":derived-object"
        der = []
        nvar = m * d2 * d2 - d2 if mp.on_para_eq_constraint else m * d2 * d2
        der.append(D.prov("generate_from_var", mp.generate_from_var, rng.standard_normal(nvar)))
        der.append(D.prov("generate_origin_obj", mp.generate_origin_obj))
        der.append(D.prov("generate_zero_obj", mp.generate_zero_obj))
        for o in der:  # these keep the (non-default) shape of the object they were made from
            if o is None:
                continue
            for ix in indices(m - 1, shape):
                D.call(o.to_choi_matrix_with_sparsity, ix)
                D.call(o.to_choi_matrix_with_dict, ix)
        der = []
        mc = D.prov("copy", mp.copy)
        if mc is not None:
            der.append(D.prov("add", lambda: mp + mc))
            der.append(D.prov("rmul", lambda: 0.5 * mp))
        if dense and d <= 3:
            import pickle

            der.append(D.prov("pickle", lambda: pickle.loads(pickle.dumps(mp))))
        for o in der:
            if o is None:
                continue
            D.call(o.to_choi_matrix_with_sparsity, m - 1)
            D.call(o.to_choi_matrix_with_dict, 0)
        M.step = ":other-class-on-same-system"
        g = D.prov("other-class", Q.Gate, c_sys, hss0[-1].copy(), is_physicality_required=False)
        if g is not None:
            D.call(g.to_choi_matrix_with_sparsity)
            D.call(g.to_choi_matrix_with_dict)
            D.call(g.to_process_matrix)
    D.check_held()


CHOI_CACHE_DROPS = ["delete_dict_from_hs_to_choi", "delete_dict_from_choi_to_hs", "delete_basisconjugate_basis_sparse",
                    "delete_basis_basisconjugate_T_sparse"]


def N_of_ks(ks, d):
    return nat_of_kraus(ks, d)


def cp_within_tolerance(bv, N, d, rng, tol):
    """real HS matrix of N - t * (A . A^dagger) with t found by bisection such that the smallest Choi eigenvalue is
    -u * tol, u in [0.01, 0.08] (None if the bisection does not get there)"""
    A = rng.standard_normal((d, d)) + 1j * rng.standard_normal((d, d))
    NA = nat_of_kraus([A / np.linalg.norm(A)], d)
    target = -float(rng.uniform(0.01, 0.08)) * tol
    lam = lambda t: ref.lambda_min(choi_of_nat(N - t * NA, d))  # noqa: E731
    lo, hi = 0.0, 1e-12
    while lam(hi) > target and hi < 1e3:
        hi *= 4.0
    if lam(hi) > target:
        return None
    for _ in range(200):
        mid = 0.5 * (lo + hi)
        if lam(mid) > target:
            lo = mid
        else:
            hi = mid
    got = lam(hi)
    if not (-0.09 * tol <= got <= -0.005 * tol):
        return None
    h = bv.hs_of_nat(N - hi * NA)
    if np.max(np.abs(h.imag)) > 1e-13 * max(1.0, np.max(np.abs(h.real))):
        return None
    return np.ascontiguousarray(h.real)


def cp_kraus(d, rng, k):
    """complex Kraus set of a CP map; rank cycles through 1..d^2; kinds: TP, trace-decreasing, scaled"""
    r = 1 + (k % (d * d))
    ks = ref.rand_kraus(d, r, rng)
    kind = ["tp", "tp", "sub", "scaled", "spread"][int(rng.integers(0, 5))]
    if kind == "sub" and r > 1:
        ks = ks[: max(1, r // 2)]
    elif kind == "scaled":
        ks = [np.sqrt(2.5) * x for x in ks]
    elif kind == "spread":  # Choi eigenvalues spread over several decades (still far above the truncation threshold)
        ks = [10.0 ** (-rng.uniform(0, 3)) * x for x in ks]
    return ks, kind, r


def run_gate(ctx, M, D, k, dense, rng):
    Q, c_sys, d, bv = D.Q, D.c_sys, D.d, D.bv
    gm = Q.gate_mod
    d2, d4 = d * d, d ** 4
    basis = c_sys.basis()
    hs_inputs, choi_inputs = [], []
    if k < d4:
        h = np.zeros((d2, d2))
        h[k // d2, k % d2] = 1.0
        hs_inputs.append(("unit", h, None))
        choi_inputs.append(("unit", herm_units(d2)[k]))
        ctx.nontrivial("gate", D.shape, D.kind, "unit", k)
    if dense or k >= d4:
        sc = float(rng.choice([0.1, 1.0, 10.0]))
        hr = rng.standard_normal((d2, d2)) * sc
        hs_inputs.append(("random", hr, None))
        choi_inputs.append(("random", ref.rand_herm(d2, rng, sc)))
        ctx.nontrivial("gate", D.shape, D.kind, "random", hr)
        ks, kkind, r = cp_kraus(d, rng, k)
        N = nat_of_kraus(ks, d)
        hp = np.ascontiguousarray(bv.hs_of_nat(N).real)
        hs_inputs.append(("physical", hp, ks))
        choi_inputs.append(("physical", choi_of_nat(N, d)))
        ctx.nontrivial("gate", D.shape, D.kind, "kraus", kkind, r, hp)
    kkind_tp = False
    made = []
    for cls, h, ks in hs_inputs:
        M.cls = cls
        if cls == "physical":
            kkind_tp = tp_defect(nat_of_kraus(ks, d), d) <= 1e-13
        kw = {"eps_proj_physical": 1e-10} if (cls == "physical" and k % 2 == 0) else {}
        g = D.call(Q.Gate, c_sys, h, is_physicality_required=False, **kw)
        if g is None:
            continue
        c1 = D.call(gm.to_choi_from_hs, c_sys, h)
        c2 = D.call(gm.to_choi_from_hs_with_dict, c_sys, h)
        c3 = D.call(gm.to_choi_from_hs_with_sparsity, c_sys, h)
        D.num("agree:to_choi_from_hs:dense-vs-dict", c1, c2)
        D.num("agree:to_choi_from_hs:dense-vs-sparse", c1, c3)
        if k % 7 == 3 and (cls == "unit" or d <= 3):
            D.drop_caches(CHOI_CACHE_DROPS)
            D.num("agree:to_choi_from_hs_with_dict:after-cache-rebuild", D.call(gm.to_choi_from_hs_with_dict, c_sys, h), c2)
            D.num("agree:to_choi_from_hs_with_sparsity:after-cache-rebuild", D.call(gm.to_choi_from_hs_with_sparsity, c_sys, h), c3)
        m1 = D.call(g.to_choi_matrix)
        m2 = D.call(g.to_choi_matrix_with_dict)
        m3 = D.call(g.to_choi_matrix_with_sparsity)
        D.num("agree:Gate.to_choi_matrix:method-vs-function", m1, c1)
        D.num("agree:Gate.to_choi_matrix_with_dict:method-vs-function", m2, c2)
        D.num("agree:Gate.to_choi_matrix_with_sparsity:method-vs-function", m3, c3)
        # round trips through each inverse
        if c3 is not None:
            for fn in (gm.to_hs_from_choi, gm.to_hs_from_choi_with_dict, gm.to_hs_from_choi_with_sparsity):
                D.num(f"roundtrip:hs->choi->hs:{fn.__name__}", D.call(fn, c_sys, c3), h)
        x1 = D.call(gm.to_process_matrix_from_hs, c_sys, h)
        x2 = D.call(g.to_process_matrix)
        D.num("agree:Gate.to_process_matrix:method-vs-function", x2, x1)
        if c1 is not None and x1 is not None:
            made.append((cls, g, h.copy(), ks, np.array(ref.dense(c1)), np.array(ref.dense(x1))))
        Nh = bv.nat(h)
        for lab, res in (("gate.to_choi_from_hs", c1), ("gate.to_choi_from_hs_with_dict", c2), ("gate.to_choi_from_hs_with_sparsity", c3),
                         ("Gate.to_choi_matrix", m1), ("Gate.to_choi_matrix_with_dict", m2), ("Gate.to_choi_matrix_with_sparsity", m3)):
            D.hold(lab, res, choi_of_nat(Nh, d))
        D.hold("gate.to_process_matrix_from_hs", x1, chi_of_nat(Nh, d))
        D.hold("Gate.to_process_matrix", x2, chi_of_nat(Nh, d))
        if cls == "physical":
            for nm, mat in (("choi", c1), ("choi_with_dict", c2), ("choi_with_sparsity", c3), ("process_matrix", x1)):
                if mat is None or np.shape(mat) != (d2, d2):
                    continue
                Cq = ref.dense(mat)
                sc = max(1.0, _maxabs(Cq))
                ctx.num(f"defn:{nm}:PSD-for-CP-input", max(ref.psd_violation(Cq), ref.herm_violation(Cq)) / sc, TOL_PASS, TOL_FAIL,
                        key=f"defn:{nm}:not-PSD-for-CP-input", info={"lambda_min": ref.lambda_min(Cq)})
                if kkind_tp and nm != "process_matrix":
                    # Tr_out Choi = I  <=>  trace preserving (output factor first in Choi = sum E(|i><j|) (x) |i><j|)
                    T = np.einsum("aiaj->ij", Cq.reshape(d, d, d, d))
                    ctx.num(f"defn:{nm}:Tr_out=I-for-TP-input", _maxabs(T - np.eye(d)), TOL_PASS, TOL_FAIL,
                            key=f"defn:{nm}:Tr_out-not-I-for-TP-input")
        # var forms
        D.call(gm.to_choi_from_var, c_sys, h.flatten(), False)
        if bv.identity_first:
            D.call(gm.to_choi_from_var, c_sys, h[1:].flatten())
        # basis changes
        for nm, ob in D.pick_others(rng, dense and cls != "unit" or d <= 3):
            y = D.call(g.convert_basis, ob)
            if y is not None:
                D.num("roundtrip:convert_hs:there-and-back", D.call(gm.convert_hs, y, ob, basis), h)
        r1 = D.call(g.convert_to_comp_basis)
        r2 = D.call(g.convert_to_comp_basis, "row_major")
        r3 = D.call(g.convert_to_comp_basis, mode="column_major")
        D.num("agree:Gate.convert_to_comp_basis:default-is-row_major", r1, r2)
        if r2 is not None and r3 is not None and np.shape(r2) == (d2, d2) == np.shape(r3):
            # column-major form = row-major form with both matrix indices transposed
            P = np.arange(d2).reshape(d, d).T.reshape(-1)
            D.num("agree:Gate.convert_to_comp_basis:row-vs-column-major", np.asarray(r3), np.asarray(r2)[np.ix_(P, P)])
        # Kraus
        if cls == "physical":
            K1 = D.call(gm.to_kraus_matrices_from_hs, c_sys, h)
            K2 = D.call(g.to_kraus_matrices)
            for K in (K1, K2):
                if K is not None and len(K) > 0:
                    D.num("roundtrip:hs->kraus->hs", D.call(gm.to_hs_from_kraus_matrices, c_sys, K), h)
            D.num("roundtrip:kraus->hs", D.call(gm.to_hs_from_kraus_matrices, c_sys, ks), h)
            # a map that is CP only WITHIN a non-default tolerance: smallest Choi eigenvalue in [-0.08, -0.01] x atol
            # (inside the accept zone of the Kraus oracle); both the function and the object form get that tolerance
            if k % 3 == 0:
                tol = float(rng.choice([1e-10, 1e-8, 1e-6]))
                hq = cp_within_tolerance(bv, N_of_ks(ks, d), d, rng, tol)
                if hq is not None:
                    M.cls = "cp-within-atol"
                    D.call(gm.to_kraus_matrices_from_hs, c_sys, hq, tol)
                    gq = D.call(Q.Gate, c_sys, hq, is_physicality_required=False, eps_proj_physical=tol)
                    if gq is not None:
                        D.call(gq.to_kraus_matrices)
                    M.cls = cls
            # generic complex (non-TP) Kraus list
            raw = [rng.standard_normal((d, d)) + 1j * rng.standard_normal((d, d)) for _ in range(int(rng.integers(1, 4)))]
            D.call(gm.to_hs_from_kraus_matrices, c_sys, raw)
        elif cls == "random":
            D.call(gm.to_kraus_matrices_from_hs, c_sys, h)
            D.call(g.to_kraus_matrices)
    for cls, C in choi_inputs:
        M.cls = cls
        h1 = D.call(gm.to_hs_from_choi, c_sys, C)
        h2 = D.call(gm.to_hs_from_choi_with_dict, c_sys, C)
        h3 = D.call(gm.to_hs_from_choi_with_sparsity, c_sys, C)
        D.num("agree:to_hs_from_choi:dense-vs-dict", h1, h2)
        D.num("agree:to_hs_from_choi:dense-vs-sparse", h1, h3)
        wh = bv.hs_of_nat(nat_of_choi(C, d)).real
        for lab, res in (("gate.to_hs_from_choi", h1), ("gate.to_hs_from_choi_with_dict", h2), ("gate.to_hs_from_choi_with_sparsity", h3)):
            D.hold(lab, res, wh)
        if cls != "unit" and k % 3 == 0:
            D.call(gm.to_hs_from_choi_with_dict, c_sys, C, 1e-9)
            D.call(gm.to_hs_from_choi_with_sparsity, c_sys, C, eps_truncate_imaginary_part=1e-9)
        D.call(gm.to_var_from_choi, c_sys, C, False)
        if bv.identity_first:
            # make the map trace preserving: replace first HS row by e0 (reference arithmetic), then back to Choi
            w = bv.hs_of_nat(nat_of_choi(C, d)).real
            w[0, :] = 0
            w[0, 0] = 1
            Ctp = choi_of_nat(bv.nat(w), d)
            Ctp = (Ctp + ref.dag(Ctp)) / 2
            D.call(gm.to_var_from_choi, c_sys, Ctp)
        if h3 is not None:
            for fn in (gm.to_choi_from_hs, gm.to_choi_from_hs_with_dict, gm.to_choi_from_hs_with_sparsity):
                D.num(f"roundtrip:choi->hs->choi:{fn.__name__}", D.call(fn, c_sys, h3), C)
    if dense or k >= d4:
        M.cls = "random"
        a, b = rng.standard_normal(2)
        x, y = rng.standard_normal((d2, d2)), rng.standard_normal((d2, d2))
        fns = [gm.to_choi_from_hs, gm.to_choi_from_hs_with_dict, gm.to_choi_from_hs_with_sparsity, gm.to_process_matrix_from_hs]
        for fn in fns:
            fx, fy, fz = D.call(fn, c_sys, x), D.call(fn, c_sys, y), D.call(fn, c_sys, a * x + b * y)
            if fx is not None and fy is not None:
                D.num(f"linear:gate.{fn.__name__}", fz, a * np.asarray(fx) + b * np.asarray(fy))
        nm, ob = D.pick_others(rng, False)[0]
        fx, fy, fz = (D.call(gm.convert_hs, z, basis, ob) for z in (x, y, a * x + b * y))
        if fx is not None and fy is not None:
            D.num("linear:gate.convert_hs", fz, a * fx + b * fy)
        X, Y = ref.rand_herm(d2, rng), ref.rand_herm(d2, rng)
        for fn in (gm.to_hs_from_choi, gm.to_hs_from_choi_with_dict, gm.to_hs_from_choi_with_sparsity):
            fx, fy, fz = D.call(fn, c_sys, X), D.call(fn, c_sys, Y), D.call(fn, c_sys, a * X + b * Y)
            if fx is not None and fy is not None:
                D.num(f"linear:gate.{fn.__name__}", fz, a * np.asarray(fx) + b * np.asarray(fy))
    hist_gate(ctx, M, D, k, dense, ctx.rng(1), made, choi_inputs)


def run_mprocess(ctx, M, D, k, dense, rng):
    Q, c_sys, d, bv = D.Q, D.c_sys, D.d, D.bv
    gm = Q.gate_mod
    d2, d4 = d * d, d ** 4
    sweep = SWEEP["mprocess"](d)
    inputs = []
    if k < sweep:
        m = 2 + (k % 3)
        hss = [np.zeros((d2, d2)) for _ in range(m)]
        kk = k if d <= 3 else int(rng.integers(0, d4))
        hss[k % m][kk // d2, kk % d2] = 1.0
        inputs.append(("unit", hss, None, False))
        ctx.nontrivial("mprocess", D.shape, D.kind, "unit", k, kk)
    if dense or k >= sweep:
        m = int(rng.choice([2, 3, 4, 5, 6]))
        shape = {4: (2, 2), 6: (2, 3)}.get(m) if rng.random() < 0.7 else None
        ranks = [int(rng.integers(1, 3)) for _ in range(m)]
        sets = ref.rand_instrument(d, m, rng, ranks)
        hss = [np.ascontiguousarray(bv.hs_of_nat(nat_of_kraus(s, d)).real) for s in sets]
        inputs.append(("physical", hss, shape, True))
        ctx.nontrivial("mprocess", D.shape, D.kind, "instrument", m, shape, hss[0])
        m = int(rng.integers(2, 5))
        hss = [rng.standard_normal((d2, d2)) for _ in range(m)]
        inputs.append(("random", hss, (2, 2) if m == 4 else None, False))
    made = []
    for cls, hss, shape, cp in inputs:
        M.cls = cls
        m = len(hss)
        mp = D.call(Q.MProcess, c_sys, hss, shape=shape, is_physicality_required=False)
        if mp is None:
            continue
        outs = list(range(m))
        if cls == "unit" and d > 3:
            outs = [k % m]
        made.append((cls, mp, [h.copy() for h in hss], shape, cp, outs))
        for o in outs:
            idx = [o]
            if shape is not None:
                idx.append(tuple(int(t) for t in np.unravel_index(o, shape)))
            else:
                idx.append((o,))
            for ix in idx:
                c1 = D.call(mp.to_choi_matrix, ix)
                c2 = D.call(mp.to_choi_matrix_with_dict, ix)
                c3 = D.call(mp.to_choi_matrix_with_sparsity, ix)
                D.num("agree:MProcess.to_choi_matrix:dense-vs-dict", c1, c2)
                D.num("agree:MProcess.to_choi_matrix:dense-vs-sparse", c1, c3)
                if o == outs[-1]:
                    wc = choi_of_nat(bv.nat(hss[o]), d)
                    D.hold("MProcess.to_choi_matrix", c1, wc)
                    D.hold("MProcess.to_choi_matrix_with_dict", c2, wc)
                    D.hold("MProcess.to_choi_matrix_with_sparsity", c3, wc)
                D.call(mp.to_process_matrix, ix)
                if cp or cls == "random":
                    K = D.call(mp.to_kraus_matrices, ix)
                    if cp and K is not None and len(K) > 0:
                        D.num("roundtrip:MProcess:hs->kraus->hs", D.call(gm.to_hs_from_kraus_matrices, c_sys, K), hss[o])
        for nm, ob in D.pick_others(rng, False):
            y = D.call(mp.convert_basis, ob)
            if y is not None and len(y) == m:
                back = [D.call(gm.convert_hs, yi, ob, c_sys.basis()) for yi in y]
                if all(b is not None for b in back):
                    D.num("roundtrip:convert_hs:there-and-back", back, hss)
        r1 = D.call(mp.convert_to_comp_basis)
        r2 = D.call(mp.convert_to_comp_basis, "row_major")
        D.call(mp.convert_to_comp_basis, mode="column_major")
        D.num("agree:MProcess.convert_to_comp_basis:default-is-row_major", r1, r2)
    hist_mprocess(ctx, M, D, k, dense, ctx.rng(1), made)


_UTIL_BUFS = {}


def run_util(ctx, M, rng, i):
    import quara.utils.matrix_util as mutil
    from quara.objects import matrix_basis as mb

    M.cls = "random"
    eps = [None, 1e-10, 1e-6, 1e-3][int(rng.integers(0, 4))]
    e = 1e-13 if eps is None else eps
    shape = (int(rng.integers(1, 10)),) if rng.random() < 0.3 else (int(rng.integers(1, 7)),) * 2
    n = int(np.prod(shape))
    re_mag = rng.choice([0.0, 1e-3 * e, 0.5 * e, 0.99 * e, 1.01 * e, 2 * e, 1e3 * e, 1.0, 30.0], size=n)
    re = re_mag * rng.choice([-1.0, 1.0], size=n) * rng.uniform(0.9, 1.0, size=n) ** (re_mag >= 1.0)
    mode = int(rng.integers(0, 4))  # 0 real dtype, 1 complex tiny imag, 2 complex with some large imag, 3 complex zero imag
    required = bool(rng.random() < 0.75)
    if mode == 0:
        x = re.reshape(shape)
        M.cls = "real"
    else:
        if mode == 1:
            im = rng.choice([0.0, 1e-3 * e, 0.5 * e, 0.99 * e], size=n) * rng.choice([-1.0, 1.0], size=n)
            M.cls = "imag-below-eps"
        elif mode == 2:
            im = rng.choice([0.0, 0.5 * e, 1.01 * e, 2 * e, 1e3 * e, 0.7], size=n) * rng.choice([-1.0, 1.0], size=n)
            if not np.any(np.abs(im) >= e):
                im[int(rng.integers(0, n))] = 2 * e
            M.cls = "imag-above-eps"
        else:
            im = np.zeros(n)
            M.cls = "imag-zero"
        x = (re + 1j * im).reshape(shape)
    ctx.nontrivial("truncate_hs", M.cls, eps, required, x)
    args = (x,) if eps is None and required and rng.random() < 0.5 else (x, eps, required)
    ok, val = ctx.attempt(mutil.truncate_hs, *args)
    if ok and M.cls == "imag-above-eps" and required:
        pass  # judged by the post-condition (output differs by more than eps in the imaginary part)
    if not ok and not isinstance(val, ValueError):
        ctx.violation("matrix_util.truncate_hs:" + ctx.exc_key(val), {"cls": M.cls})
    # history: the caller's own array object (one per shape and dtype for the whole shard) again with new contents, and the
    # same operand with the other spelling of the arguments; judged by the same post-conditions
    bkey = (x.shape, x.dtype.str)
    b = _UTIL_BUFS.get(bkey)
    if b is None:
        b = _UTIL_BUFS[bkey] = np.zeros(x.shape, dtype=x.dtype)
    b[...] = x
    M.step = ":caller-array-reused"
    ok, val = ctx.attempt(mutil.truncate_hs, b, eps_truncate_imaginary_part=eps, is_zero_imaginary_part_required=required)
    if not ok and not isinstance(val, ValueError):
        ctx.violation("matrix_util.truncate_hs:" + ctx.exc_key(val) + M.step, {"cls": M.cls})
    M.step = ""
    # computational bases (definition) for a few dimensions
    M.cls = "na"
    dd = int(rng.integers(1, 8))
    for mode_ in ("row_major", "column_major"):
        ok, val = ctx.attempt(mb.get_comp_basis, dd, mode_)
        if not ok:
            ctx.violation("matrix_basis.get_comp_basis:" + ctx.exc_key(val), {"dim": dd, "mode": mode_})
    ok, val = ctx.attempt(mb.get_comp_basis, dd)
    if ok:
        want = comp_units(dd, "row_major")
        ctx.truth("matrix_basis.get_comp_basis:default-is-row_major",
                  all(np.array_equal(ref.dense(g), w) for g, w in zip(val, want)) and len(val) == len(want),
                  key="matrix_basis.get_comp_basis:default-is-not-row_major")


FAMILY_REQUIRE = {
    "state": ["State.to_density_matrix", "State.to_density_matrix_with_sparsity", "State.convert_basis",
              "state.to_density_matrix_from_vec", "state.to_vec_from_density_matrix_with_sparsity",
              "state.to_density_matrix_from_var", "state.to_var_from_density_matrix", "matrix_basis.convert_vec",
              "matrix_basis.calc_matrix_expansion_coefficient", "matrix_basis.calc_mat_from_coefficient_basis",
              "matrix_basis.calc_hermitian_matrix_expansion_coefficient_hermitian_basis", "matrix_util.truncate_hs"],
    "povm": ["Povm.matrices", "Povm.matrices_with_sparsity", "Povm.matrix", "Povm.matrix_with_sparsity", "Povm.convert_basis",
             "povm.to_matrices_from_vecs", "povm.to_vec_from_matrix_with_sparsity", "povm.to_vecs_from_matrices_with_sparsity",
             "povm.to_matrices_from_var", "povm.to_var_from_matrices", "matrix_basis.convert_vec"],
    "gate": ["gate.to_choi_from_hs", "gate.to_choi_from_hs_with_dict", "gate.to_choi_from_hs_with_sparsity",
             "gate.to_hs_from_choi", "gate.to_hs_from_choi_with_dict", "gate.to_hs_from_choi_with_sparsity",
             "gate.to_process_matrix_from_hs", "gate.to_choi_from_var", "gate.to_var_from_choi", "gate.convert_hs",
             "Gate.convert_basis", "Gate.convert_to_comp_basis", "Gate.to_choi_matrix", "Gate.to_choi_matrix_with_dict",
             "Gate.to_choi_matrix_with_sparsity", "Gate.to_process_matrix", "CompositeSystem.comp_basis",
             "matrix_basis.get_comp_basis"],
    "mprocess": ["MProcess.convert_basis", "MProcess.convert_to_comp_basis", "MProcess.to_choi_matrix",
                 "MProcess.to_choi_matrix_with_dict", "MProcess.to_choi_matrix_with_sparsity", "MProcess.to_process_matrix"],
    "util": ["matrix_util.truncate_hs", "matrix_basis.get_comp_basis"],
}
RUNNERS = {"state": run_state, "povm": run_povm, "gate": run_gate, "mprocess": run_mprocess}


def run_shard(ctx):
    p = ctx.params
    bad = self_test() + ref.self_test()
    if bad:
        ctx.mark_inconclusive(f"reference self-test failed: {bad[:3]}")
        return
    fam = p["family"]
    if fam != "util" and "jobs" not in p:  # single-job form
        p = dict(p, jobs=[_job(fam, p["shape"], p["kind"], p["lo"], p["n"], p.get("stride", 1), p.get("dense_every", 1))])
    M = install(ctx)
    any_dense = False
    try:
        if fam == "util":
            for i in ctx.cases(p["n"]):
                run_util(ctx, M, ctx.rng(), i)
        else:
            offset = 0
            prev_D = None
            for job in p["jobs"]:
                job.setdefault("stride", 1)
                shape, kind = job["shape"], job["kind"]
                dims = gen.SHAPES[shape.rstrip("p")]
                names = [1, 0] if shape.endswith("p") else None
                c_sys = gen.make_csys(dims, names, kind=kind)
                D = Driver(ctx, M, c_sys, shape, kind)
                if prev_D is not None and prev_D.d == D.d:
                    prev_D.prev = None
                    D.prev = prev_D
                prev_D = D
                if not D.bv.oh:
                    ctx.mark_inconclusive(f"workload basis {kind} is not orthonormal Hermitian")
                    return
                sweep = SWEEP[fam](D.d)
                keys = _job_keys(fam, job)
                sampled = 0
                for i in ctx.cases(len(keys), start=offset):
                    k = keys[i - offset]
                    rng = ctx.rng()
                    dense = _is_dense(fam, job, k)
                    any_dense = any_dense or dense
                    RUNNERS[fam](ctx, M, D, k, dense, rng)
                    if sampled < 1:
                        sampled += 1
                        ctx.sample({"family": fam, "shape": shape, "basis": kind, "input_index": k,
                                    "input": "basis element" if k < sweep else "random / physical operands",
                                    "dense_case": bool(dense)})
                offset += len(keys)
    finally:
        M.hs.uninstall()
    ctx.extra["hook_counts"] = M.hs.counts
    if ctx.only_case is None:
        need = list(FAMILY_REQUIRE[fam])
        if any_dense and fam == "gate":
            need += ["gate.to_kraus_matrices_from_hs", "gate.to_hs_from_kraus_matrices", "Gate.to_kraus_matrices"]
        if any_dense and fam == "mprocess":
            need += ["MProcess.to_kraus_matrices"]
        M.hs.require(need)
