"""C04  Equality / inequality constraint projections are nearest-point projections.

Contracts on `calc_proj_eq_constraint`, `calc_proj_ineq_constraint`, their
`_with_var` static forms and the four `func_calc_proj_*` closures of State /
Povm / Gate / MProcess.  For input a and output p (stacked raw parameters) the
post-conditions decide, with a reference model written here from the
constraints' defining equations (never from quara's formulas):

  feasible        reference violation of p (eq: defining linear equations;
                  ineq: lambda_min of density / POVM element / Choi per outcome)
  nearest         p == reference orthogonal projection (affine set) /
                  eigen-clipping of every Hermitian operator (PSD cones)
  vi              <a-p, z-p> <= tol for 50 random feasible z (independent of
                  how the reference projects)
  idempotent      P(P(a)) == P(a)
  fixed-point     reference-feasible a  =>  P(a) == a
  pure            digests of self / c_sys / var unchanged (aliasing the input
                  in the identity case is not a mutation)
  forms-agree     object-level, variable-level and closure forms give the same
                  variable under both parametrisation flags

HISTORY / COMBINATION steps (the oracles above stay the judges; a verdict reached
inside a step carries the step's tag as the last part of its violation key).
Every case, after its normal work, runs two or three of these on the objects it
has already used (the first case of a light shard runs all; `finalize` demands
every step for every type):

  requery         the same object asked again in the other order (:second-query)
  interleave      a second object of the same class / size / flag built from
                  other data, asked alternately (:interleaved-objects)
  provenance      objects returned by the library - copy(), generate_from_var(
                  to_var()), generate_zero_obj(), generate_origin_obj(), a chain
                  of projections, + - * of objects and projections - projected
                  (:via-<how>) and used as hosts of default-flag closures
                  (:host-via-<how>; the closure must work under the flag of the
                  object it descends from)
  closure-reuse   one closure called for several variables, also through one
                  caller-owned array whose contents the caller replaced
                  (:closure-re-used[:same-array-new-contents]); one host asked
                  for closures under flag True, False and None before any is
                  called (:same-host-several-flags); closures of two hosts used
                  alternately (:interleaved-closures)
  static-reuse    the static forms called again with the same array object and
                  new contents, with the other flag in between, and with a
                  returned variable as the next input (:static-re-used...,
                  :input-from-previous-result)
  kept-closures   closures made in an earlier case of the shard (other host,
                  other data) applied to this case's variable
                  (:closure-kept-from-earlier-case; on a replay of the single
                  case the kept closures do not exist and the step is empty)
  setters         query -> set_mode_proj_order / eps_truncate_imaginary_part
                  setter -> query (:after-option-setters); a projection result
                  zeroed with set_zero() and projected (:result-zeroed-after-
                  projection); query -> set_zero() -> query on the same object
                  (:after-set_zero); closures made before / after the host was
                  zeroed (:closure-made-before-set_zero-of-host, :host-after-
                  set_zero)

and, independent of the steps: `result-stable` - nothing the library returned in a
case (objects, variables, closure outputs; except arrays that may alias a
caller-owned input) may be changed by a later library call
(`...:result-changed-by-later-call`); half of the cases build all their objects
with non-default constructor options that no projection reads (mode_proj_order,
on_algo_*, is_estimation_object, eps_proj_physical, MProcess shape / eps_zero);
a sibling composite system of the same dimensions over the other basis is used,
unjudged, before the first and between the judged calls (what the library
remembers per dimension / size / class instead of per system then answers for
the wrong basis and the ordinary oracles fire).  Only public methods, public
setters and caller-owned buffers are used.  Exceptions inside a step get the tag
too, except in the scale class 1e3 (the listed truncation-threshold finding
lives there and the property says nothing about that threshold).

With on_para_eq_constraint=True a variable v omits the entries implied by the
equality constraint; it denotes full(v).  The variable-level forms are then
required to return drop(P(full(v))) (what the object-level form gives for the
denoted object); feasibility / idempotence are only demanded where the
variable *is* the stacked vector (flag False) or the projection is the
identity (eq, flag True).
"""
import numpy as np

from qv import gen, ref
from qv.monitor import HookSet, digest

ID = "C04"
RULE = ("raw parameter vectors of State/Povm/Gate/MProcess on S1,S3,S2,S23 (standard basis and a rotated orthonormal "
        "identity-first Hermitian basis), m in 2..5, input classes gauss / degenerate spectrum (repeated, zero and negative "
        "eigenvalues, complex eigenvectors) / physical interior / physical boundary (rank deficient) / eq-feasible only / "
        "PSD only / physical+small perturbation, scales 1e-3,1,1e3, both parametrisation flags; every projection form "
        "(object, static with var, 4 closures) evaluated per case; a case is distinct by (type,shape,basis,class,scale,m,"
        "rounded parameters) and non-trivial unless the input is a strictly interior physical point; after its normal work every "
        "case runs history / combination steps on the objects it has used, judged by the same oracles (keys tagged with the "
        "step): re-query in the other order, a second object of the same size asked alternately, objects obtained through "
        "copy / generate_from_var / generate_zero_obj / generate_origin_obj / projection chains / arithmetic (also as closure "
        "hosts), closures and static forms re-used for other variables (same array object with new contents, several flags "
        "from one host, closures kept from earlier cases), query -> public setter (set_zero, option setters) -> query; "
        "returned results must not be changed by later calls; half of the cases use non-default constructor options; a "
        "sibling composite system of the same dimensions over the other basis is used unjudged in between")
TYPES = ["State", "Povm", "Gate", "MProcess"]
_FILES = {"State": "state", "Povm": "povm", "Gate": "gate", "MProcess": "mprocess"}
ANCHORS = []
for _t in TYPES:
    for _w in ("eq", "ineq"):
        ANCHORS.append(f"quara/objects/{_FILES[_t]}.py:{_t}.calc_proj_{_w}_constraint")
        ANCHORS.append(f"quara/objects/{_FILES[_t]}.py:{_t}.calc_proj_{_w}_constraint_with_var")
for _w in ("eq", "ineq"):
    for _s in ("", "_with_var"):
        ANCHORS.append(f"quara/objects/qoperation.py:QOperation.func_calc_proj_{_w}_constraint{_s}.<locals>._func_proj")
REQUIRED_REACH = ANCHORS
REQUIRED_ORACLES = []
for _t in TYPES:
    for _w in ("eq", "ineq"):
        REQUIRED_ORACLES += [f"{_t}.calc_proj_{_w}_constraint:nearest", f"{_t}.calc_proj_{_w}_constraint:vi",
                             f"{_t}.calc_proj_{_w}_constraint:idempotent", f"{_t}.calc_proj_{_w}_constraint:pure",
                             f"{_t}.calc_proj_{_w}_constraint_with_var:flag=False:nearest",
                             f"{_t}.calc_proj_{_w}_constraint_with_var:flag=True:nearest",
                             f"{_t}.calc_proj_{_w}_constraint_with_var:flag=False:pure",
                             f"{_t}.func_calc_proj_{_w}_constraint():flag=True:nearest",
                             f"{_t}.func_calc_proj_{_w}_constraint_with_var():flag=False:nearest",
                             f"{_t}.{_w}:flag=True:forms-agree", f"{_t}.{_w}:flag=False:forms-agree",
                             f"{_t}.calc_proj_{_w}_constraint:result-stable",
                             f"{_t}.calc_proj_{_w}_constraint_with_var:flag=False:result-stable"]
MIN_EVALS = {"quick": 50000, "thorough": 500000}
WATCHDOG = {"quick": 900, "thorough": 3600}
ASSUMPTIONS = [
    "matrix bases used are orthonormal, Hermitian and identity-first (verified numerically per shard): the Euclidean norm "
    "of HS entries then equals the Frobenius norm of the Choi matrix, so Choi eigen-clipping is the nearest CP point",
    "a variable under on_para_eq_constraint=True denotes the object whose implied entries are filled in from the equality "
    "constraint (first coefficient 1/sqrt d; last POVM element; first HS row; first row of the last HS)",
]

SCALES = [1e-3, 1.0, 1e3]
KINDS = ["gauss", "gauss", "deg", "deg", "feasible", "boundary", "eqfeas", "ineqfeas", "near"]
N_Z = 50
N_Z_HISTORY = 8  # inside history steps (the reference comparison `nearest` is the deciding oracle there)
TOL_PASS, TOL_FAIL = 1e-10, 1e-7  # x scale
FEAS_PASS, FEAS_FAIL = 1e-12, 1e-9  # x scale


def shards(tier, seed):
    out = []
    n = {"quick": 32, "thorough": 320}[tier]
    for t in TYPES:
        for shape in ["S1", "S3", "S2", "S23"]:
            bases = ["std", "mix"] if shape in ("S1", "S3") else ["std"]
            for b in bases:
                d = int(np.prod(gen.SHAPES[shape]))
                cost = {"State": 1, "Povm": 2, "Gate": 3, "MProcess": 8}[t] * (1 if d <= 3 else (4 if d == 4 else 12))
                k = n if cost <= 8 else max(5, n * 8 // cost)
                if b == "mix":
                    k = max(5, k // 2)
                parts = 2 if cost * k >= 200 else 1  # heavy configurations are split (own RNG streams per shard)
                for part in range(parts):
                    kk = (k + parts - 1 - part) // parts
                    out.append({"type": t, "shape": shape, "basis": b, "part": part, "n": int(kk), "weight": cost * kk})
    return out


# ------------------------------------------------------- reference (no quara)


class Frame:
    """coefficient <-> operator and HS <-> Choi maps for a matrix basis B
    (conventions of qv/ref.py: X = sum_a x_a B_a, E(B_b) = sum_a HS[a,b] B_a,
    Choi = sum_ij E(|i><j|) (x) |i><j|, row-major vec)."""

    def __init__(self, B):
        self.B = B
        self.d = d = B[0].shape[0]
        self.n = len(B)
        self.F = np.array([b.reshape(-1) for b in B])  # rows vec(B_a)
        self.Finv = np.linalg.pinv(self.F.T)  # coeffs = Finv @ vec(X)
        self.t = np.array([np.trace(b) for b in B])  # Tr B_a
        self.cI = self.Finv @ np.eye(d, dtype=complex).reshape(-1)  # coefficients of the identity
        self.eye = np.eye(d)

    def op(self, x):
        return (np.asarray(x) @ self.F).reshape(self.d, self.d)

    def coeffs(self, X):
        return self.Finv @ np.asarray(X, dtype=complex).reshape(-1)

    def choi(self, hs):
        d = self.d
        S = self.F.T @ np.asarray(hs) @ self.Finv  # vec(E(X)) = S vec(X);  S[(a,b),(i,j)] = E(|i><j|)[a,b]
        return S.reshape(d, d, d, d).transpose(0, 2, 1, 3).reshape(d * d, d * d)

    def hs_from_choi(self, C):
        d = self.d
        S = np.asarray(C).reshape(d, d, d, d).transpose(0, 2, 1, 3).reshape(d * d, d * d)
        return self.Finv @ S @ self.F.T

    def self_test(self, rng):
        """cross-check against qv/ref.py and the structural assumptions; list of failures"""
        bad = []
        d, n = self.d, self.n
        G = self.F.conj() @ self.F.T
        if np.max(np.abs(G - np.eye(n))) > 1e-12:
            bad.append("basis not orthonormal")
        if max(ref.herm_violation(b) for b in self.B) > 1e-12:
            bad.append("basis not Hermitian")
        if np.max(np.abs(self.B[0] - np.eye(d) / np.sqrt(d))) > 1e-12:
            bad.append("basis not identity-first")
        e0 = np.zeros(n)
        e0[0] = np.sqrt(d)
        if np.max(np.abs(self.t - e0)) > 1e-12 or np.max(np.abs(self.cI - e0)) > 1e-12:
            bad.append("trace functional / identity coefficients are not sqrt(d) e0")
        X = ref.rand_herm(d, rng) + 1j * ref.rand_herm(d, rng)
        if np.max(np.abs(self.coeffs(X) - ref.coeffs(self.B, X))) > 1e-11:
            bad.append("coeffs != ref.coeffs")
        if d <= 4:
            hs = rng.standard_normal((n, n))
            C = self.choi(hs)
            if np.max(np.abs(C - ref.choi_of_hs(self.B, hs))) > 1e-10:
                bad.append("choi != ref.choi_of_hs")
            if np.max(np.abs(self.hs_from_choi(C) - hs)) > 1e-10:
                bad.append("hs_from_choi(choi) != id")
            if abs(np.linalg.norm(C) - np.linalg.norm(hs)) > 1e-10:
                bad.append("HS -> Choi not an isometry")
            ks = ref.rand_kraus(d, 2, rng)
            hk = ref.hs_of_kraus(self.B, ks)
            if ref.psd_violation(self.choi(hk)) > 1e-10 or np.max(np.abs(self.t @ hk - self.t)) > 1e-10:
                bad.append("Kraus channel not CPTP in Frame conventions")
        return bad


def herm(M):
    return (M + M.conj().T) / 2


class Spec:
    """Constraint sets of one object type in stacked raw parameters."""

    def __init__(self, T, fr, m):
        self.T, self.fr, self.m = T, fr, (m if T in ("Povm", "MProcess") else 1)
        n = fr.n
        self.block = n if T in ("State", "Povm") else n * n
        self.size = self.block * self.m
        self.t = fr.t.real
        self.cI = fr.cI.real
        self.tt = float(self.t @ self.t)

    # ---- shapes
    def blocks(self, a):
        n = self.fr.n
        a = np.asarray(a)
        if self.T in ("State", "Povm"):
            return a.reshape(self.m, n)
        return a.reshape(self.m, n, n)

    def unstack(self, a):
        """argument for the quara constructor"""
        b = self.blocks(np.asarray(a, dtype=np.float64))
        if self.T == "State":
            return np.array(b[0])
        if self.T == "Povm":
            return [np.array(x) for x in b]
        if self.T == "Gate":
            return np.array(b[0])
        return [np.array(x) for x in b]

    # ---- operators
    def ops(self, a):
        if self.T in ("State", "Povm"):
            return [self.fr.op(x) for x in self.blocks(a)]
        return [self.fr.choi(x) for x in self.blocks(a)]

    def from_ops(self, ops):
        if self.T in ("State", "Povm"):
            c = [self.fr.coeffs(X) for X in ops]
        else:
            c = [self.fr.hs_from_choi(C).reshape(-1) for C in ops]
        return np.concatenate(c).real

    # ---- violations
    def eq_violation(self, a):
        b = self.blocks(a)
        if self.T == "State":
            return float(abs(self.t @ b[0] - 1.0))  # |Tr rho - 1|
        if self.T == "Povm":
            return float(np.max(np.abs(self.fr.op(b.sum(axis=0)) - self.fr.eye)))  # |sum M_x - I|
        hs = b.sum(axis=0)
        return float(np.max(np.abs(self.t @ hs - self.t)))  # |Tr E(B_b) - Tr B_b|

    def ineq_violation(self, a):
        v = 0.0
        for X in self.ops(a):
            v = max(v, ref.psd_violation(X), ref.herm_violation(X) / 2)
        return float(v)

    def violation(self, which, a):
        return self.eq_violation(a) if which == "eq" else self.ineq_violation(a)

    # ---- reference projections
    def proj_eq(self, a):
        """orthogonal projection onto the affine set, from its linear equations L a = c:
        a - L^T (L L^T)^-1 (L a - c)"""
        b = np.array(self.blocks(a), dtype=np.float64)
        t, tt, m = self.t, self.tt, self.m
        if self.T == "State":  # <t, a> = 1
            b[0] = b[0] - t * ((t @ b[0] - 1.0) / tt)
        elif self.T == "Povm":  # sum_x a_x = cI ;  L L^T = m I
            defect = (b.sum(axis=0) - self.cI) / m
            b = b - defect[None, :]
        else:  # for every column j:  sum_x <t, HS_x[:, j]> = t_j ;  L L^T = m |t|^2 I
            defect = (t @ b.sum(axis=0) - t) / (m * tt)
            b = b - np.outer(t, defect)[None, :, :]
        return b.reshape(-1)

    def proj_ineq(self, a):
        return self.from_ops([ref.proj_psd(X) for X in self.ops(a)])

    def proj(self, which, a):
        return self.proj_eq(a) if which == "eq" else self.proj_ineq(a)

    # ---- variables under on_para_eq_constraint (identity-first orthonormal basis: t = cI = sqrt(d) e0)
    def var_len(self, flag):
        n = self.fr.n
        if not flag:
            return self.size
        return {"State": n - 1, "Povm": (self.m - 1) * n, "Gate": n * n - n, "MProcess": self.m * n * n - n}[self.T]

    @staticmethod
    def m_from_len(T, n, length, flag):
        if T == "Povm":
            q, r = divmod(length, n)
            return (q + 1 if flag else q), r == 0
        if T == "MProcess":
            q, r = divmod(length + (n if flag else 0), n * n)
            return q, r == 0
        want = {"State": n - (1 if flag else 0), "Gate": n * n - (n if flag else 0)}[T]
        return 1, length == want

    def drop(self, a, flag):
        a = np.asarray(a)
        if not flag:
            return a.copy()
        n = self.fr.n
        if self.T == "State":
            return a[1:].copy()
        if self.T == "Povm":
            return a[: (self.m - 1) * n].copy()
        if self.T == "Gate":
            return a[n:].copy()
        k = (self.m - 1) * n * n
        return np.concatenate([a[:k], a[k + n:]])

    def full(self, v, flag):
        v = np.asarray(v, dtype=np.float64)
        if not flag:
            return v.copy()
        n, s = self.fr.n, self.t[0]
        if self.T == "State":
            return np.concatenate([[1.0 / s], v])  # Tr rho = 1
        if self.T == "Povm":
            b = v.reshape(self.m - 1, n)
            return np.concatenate([v, self.cI - b.sum(axis=0)])  # M_last = I - sum others
        e0 = np.zeros(n)
        e0[0] = 1.0
        if self.T == "Gate":
            return np.concatenate([e0, v])  # first HS row = e0
        k = (self.m - 1) * n * n
        first = e0 - v[:k].reshape(self.m - 1, n, n)[:, 0, :].sum(axis=0) if self.m > 1 else e0
        return np.concatenate([v[:k], first, v[k:]])

    # ---- feasible comparison points (constructions independent of proj_*)
    def rand_eq_feasible(self, rng, s):
        fr, n, m, d = self.fr, self.fr.n, self.m, self.fr.d
        if self.T == "State":
            H = ref.rand_herm(d, rng, s)
            H = H - (np.trace(H).real - 1.0) * ref.rand_density(d, rng)  # put the trace defect on a random trace-one operator
            return fr.coeffs(H).real
        if self.T == "Povm":
            b = s * rng.standard_normal((m, n))
            w = rng.dirichlet(np.ones(m))
            b = b - np.outer(w, b.sum(axis=0) - self.cI)
            return b.reshape(-1)
        b = s * rng.standard_normal((m, n, n))
        defect = self.t @ b.sum(axis=0) - self.t
        q = rng.dirichlet(np.ones(m))
        for x in range(m):
            w = fr.coeffs(ref.rand_density(d, rng)).real  # Tr W = 1  <=>  <t, w> = 1
            b[x] = b[x] - q[x] * np.outer(w, defect)
        return b.reshape(-1)

    def rand_ineq_feasible(self, rng, s):
        D = self.fr.d if self.T in ("State", "Povm") else self.fr.d ** 2
        ops = []
        for _ in range(self.m):
            r = int(rng.integers(1, D + 1))
            A = rng.standard_normal((D, r)) + 1j * rng.standard_normal((D, r))
            ops.append(s * herm(A @ A.conj().T) / D)
        return self.from_ops(ops)

    def rand_feasible(self, which, rng, s):
        return self.rand_eq_feasible(rng, s) if which == "eq" else self.rand_ineq_feasible(rng, s)


def stack(raw):
    if isinstance(raw, (list, tuple)):
        return np.concatenate([np.asarray(r).reshape(-1) for r in raw])
    return np.array(np.asarray(raw).reshape(-1))


def norm(x):
    return float(np.linalg.norm(np.asarray(x).reshape(-1)))


# ---------------------------------------------------------------- the judge


class _Step:
    def __init__(self, J, tag, n_z):
        self.J, self.tag, self.n_z = J, tag, n_z

    def __enter__(self):
        self.old = (self.J.sfx, self.J.n_z)
        self.J.sfx, self.J.n_z = self.tag, self.n_z

    def __exit__(self, *a):
        self.J.sfx, self.J.n_z = self.old


class Judge:
    def __init__(self, ctx, B):
        self.ctx = ctx
        self.fr = Frame(B)
        self.specs = {}
        self.cache = {}
        self.k = 0
        self.mut_events = 0
        self.closures = {}  # id(f) -> (f, T, which, with_var, flag, host)
        self.hs = None
        self.scale_class = 1.0
        self.sfx = ""  # history tag appended to the keys of violations observed inside a history step
        self.n_z = N_Z  # comparison points of the variational inequality (fewer inside history steps)
        self.held = []  # results handed out earlier: (label, object or array, digest of its raw arrays)

    def begin_case(self, scale_class=1.0):
        self.scale_class = scale_class
        self.k = 0
        self.cache.clear()
        self.closures.clear()
        self.held.clear()
        self.sfx = ""
        self.n_z = N_Z

    # ---- history steps
    def step(self, tag, n_z=N_Z_HISTORY):
        """context: verdicts reached inside carry `tag` in their violation keys (oracle names are unchanged)"""
        return _Step(self, tag, n_z)

    def key(self, s):
        return s + self.sfx

    def hold(self, label, x, *inputs):
        """remember a result (quara object or array) returned by the library; `check_held` later demands that no later
        library call has changed it.  Results that may share memory with a caller-owned input (the documented identity
        case returns the input itself) are not held: the driver overwrites its own buffers."""
        arrs = x if isinstance(x, np.ndarray) else gen.raw_params(x)
        arrs = list(arrs) if isinstance(arrs, (list, tuple)) else [arrs]
        for r in arrs:
            for inp in inputs:
                if isinstance(r, np.ndarray) and isinstance(inp, np.ndarray) and np.may_share_memory(r, inp):
                    self.ctx.count("held-result-skipped:may-alias-caller-input")
                    return
        self.held.append((label, x, digest(arrs)))

    def check_held(self):
        for label, x, d in self.held:
            arrs = x if isinstance(x, np.ndarray) else gen.raw_params(x)
            arrs = list(arrs) if isinstance(arrs, (list, tuple)) else [arrs]
            self.ctx.truth(f"{label}:result-stable", digest(arrs) == d, key=f"{label}:result-changed-by-later-call")
        self.held.clear()

    def rng(self):
        self.k += 1
        return self.ctx.rng(1000 + self.k)

    def spec(self, T, m):
        s = self.specs.get((T, m))
        if s is None:
            s = self.specs[(T, m)] = Spec(T, self.fr, m)
        return s

    def ref_proj(self, spec, which, a):
        key = (spec.T, spec.m, which, np.ascontiguousarray(a).tobytes())
        p = self.cache.get(key)
        if p is None:
            if len(self.cache) > 256:
                self.cache.clear()
            p = self.cache[key] = spec.proj(which, a)
        return p

    @staticmethod
    def tols(a):
        """(scale, tol_pass, tol_fail): recorded errors are divided by scale = max(1, ||input||),
        so the tolerances 1e-10 / 1e-7 are relative to the scale of the input"""
        return max(1.0, norm(a)), TOL_PASS, TOL_FAIL

    def clean(self, label, out, size, tp, tf):
        """output as a real vector of the expected length, or None (violation recorded)"""
        ctx = self.ctx
        try:
            p = np.asarray(out)
            if p.dtype == object:
                raise TypeError("object array")
            p = p.reshape(-1)
        except Exception:
            ctx.truth(f"{label}:well-formed", False, key=self.key(f"{label}:bad-output-type"), info={"type": type(out).__name__})
            return None
        if p.size != size:
            ctx.truth(f"{label}:well-formed", False, key=self.key(f"{label}:bad-output-length"), info={"got": int(p.size), "want": int(size)})
            return None
        if not np.all(np.isfinite(p)):
            ctx.truth(f"{label}:well-formed", False, key=self.key(f"{label}:non-finite-output"))
            return None
        if np.iscomplexobj(p):
            st = ctx.num(f"{label}:real", norm(p.imag) / max(1.0, norm(p.real)), tp, tf, key=self.key(f"{label}:complex-output"))
            if st == "fail":
                return None
            p = p.real
        ctx.truth(f"{label}:well-formed", True)
        return np.asarray(p, dtype=np.float64)

    def judge_full(self, label, spec, which, a, p, again=None, n_z=None):
        """all point oracles for a projection acting on stacked vectors: a -> p.
        again: callable returning P(p) as a stacked vector (hooks paused) or None."""
        ctx = self.ctx
        n_z = self.n_z if n_z is None else n_z
        scale, tp, tf = self.tols(a)
        info = {"type": spec.T, "m": spec.m, "norm_a": norm(a), "which": which, "step": self.sfx}
        viol = spec.violation(which, p)
        ctx.num(f"{label}:feasible", viol / scale, FEAS_PASS, FEAS_FAIL, key=self.key(f"{label}:not-feasible"), info=info)
        pref = self.ref_proj(spec, which, a)
        err = norm(p - pref)
        ctx.num(f"{label}:nearest", err / scale, tp, tf, key=self.key(f"{label}:not-nearest"),
                info=dict(info, dist_out=norm(a - p), dist_ref=norm(a - pref)))
        # variational inequality against feasible points that do not come from the reference projection
        rng = self.rng()
        amp = a - p
        namp = norm(amp)
        base = max(np.sqrt(np.mean(a * a)), np.sqrt(np.mean(p * p)), 1e-3)
        worst, used = 0.0, 0
        for _ in range(n_z):
            s = base * float(rng.choice([0.1, 1.0, 10.0]))
            z = spec.rand_feasible(which, rng, s)
            if spec.violation(which, z) > 1e-12 * max(1.0, norm(z)):
                ctx.count("vi:comparison-point-rejected")
                continue
            used += 1
            zp = z - p
            ip = float(amp @ zp)
            if which == "eq":
                ip = abs(ip)  # affine set: 2p - z is feasible too
            den = namp + norm(zp)
            if den > 0:
                worst = max(worst, max(0.0, ip) / den)
        if used:
            ctx.num(f"{label}:vi", worst / scale, tp, tf, key=self.key(f"{label}:variational-inequality-violated"), info=dict(info, points=used))
        else:
            ctx.skip(f"{label}:vi")
        # fixed point
        if spec.violation(which, a) <= 1e-14 * scale:
            ctx.num(f"{label}:fixed-point", norm(p - a) / scale, tp, tf, key=self.key(f"{label}:moves-feasible-point"), info=info)
        # idempotence
        if again is not None:
            ok, p2 = ctx.attempt(again)
            if not ok:
                self.exc(label + ":second-application", which, p2, scale)
            else:
                p2 = self.clean(f"{label}:idempotent-output", p2, p.size, tp, tf)
                if p2 is not None:
                    ctx.num(f"{label}:idempotent", norm(p2 - p) / scale, tp, tf, key=self.key(f"{label}:not-idempotent"), info=info)

    def judge_var(self, label, spec, which, v, flag, out, again=None):
        """variable-level form: v (flag) -> out"""
        ctx = self.ctx
        a = spec.full(v, flag)
        scale, tp, tf = self.tols(a)
        p = self.clean(label, out, spec.var_len(flag), tp, tf)
        if p is None:
            return None
        if not flag:
            self.judge_full(label, spec, which, a, p, again=again)
            return p
        want = spec.drop(self.ref_proj(spec, which, a), True)
        info = {"type": spec.T, "m": spec.m, "norm_a": norm(a), "which": which, "step": self.sfx}
        ctx.num(f"{label}:nearest", norm(p - want) / scale, tp, tf, key=self.key(f"{label}:not-nearest"), info=info)
        if which == "eq":
            # every variable denotes an eq-feasible object: the projection is the identity
            ctx.num(f"{label}:fixed-point", norm(p - v) / scale, tp, tf, key=self.key(f"{label}:moves-feasible-point"), info=info)
            if again is not None:
                ok, p2 = ctx.attempt(again)
                if ok:
                    p2 = self.clean(f"{label}:idempotent-output", p2, p.size, tp, tf)
                    if p2 is not None:
                        ctx.num(f"{label}:idempotent", norm(p2 - p) / scale, tp, tf, key=self.key(f"{label}:not-idempotent"), info=info)
        return p

    def exc(self, label, which, e, scale_class=None):
        """an exception where the property promises a value; keyed by the raising site (one root cause, one key)
        and the scale class of the case's input"""
        # (inside a history step the tag is appended, except in the scale class 1e3 where the listed finding about the
        # absolute truncation threshold lives: the property says nothing about that threshold, so a history step must not
        # turn an exception of that class into a new key)
        sfx = self.sfx if self.scale_class != 1e3 else ""
        self.ctx.violation(f"calc_proj_{which}_constraint:{self.ctx.exc_key(e)}:scale={self.scale_class:g}{sfx}",
                           {"entry": label, "message": str(e)[:160], "history": self.sfx})

    # ---- closures: registered by the factory hooks, evaluated through call_closure
    def call_closure(self, f, v, scale_class, expect_flag=None):
        """expect_flag: parametrisation flag of the host the closure was asked from with the default argument (history
        steps with hosts obtained through copy() / generate_* / projections / arithmetic): the closure then has to work
        under that flag"""
        ctx = self.ctx
        meta = self.closures.get(id(f))
        if meta is None:
            ctx.mark_inconclusive("closure not registered by its factory hook")
            return None
        _, T, which, wv, flag, host = meta
        label = f"{T}.func_calc_proj_{which}_constraint{'_with_var' if wv else ''}():flag={flag}"
        if expect_flag is not None:
            ctx.truth(f"{T}.func_calc_proj_{which}_constraint{'_with_var' if wv else ''}:default-flag-is-host-flag",
                      bool(flag) == bool(expect_flag),
                      key=self.key(f"{T}.func_calc_proj_{which}_constraint{'_with_var' if wv else ''}:default-flag-differs-from-flag-of-origin"))
            if bool(flag) != bool(expect_flag):
                return None
        n = self.fr.n
        m, ok = Spec.m_from_len(T, n, v.size, flag)
        if not ok:
            ctx.mark_inconclusive(f"driver bug: variable length {v.size} for {label}")
            return None
        spec = self.spec(T, m)
        v0 = v.copy()
        dv, dh = digest(v), digest(host)
        ev0 = self.mut_events
        ok, out = ctx.attempt(f, v)
        nested = self.mut_events > ev0
        if digest(v) != dv:
            if nested:
                ctx.count("closure-mutation-attributed-to-inner-function")
            else:
                ctx.truth(f"{label}:pure", False, key=self.key(f"{label}:mutates-var"))
        elif digest(host) != dh:
            if nested:
                ctx.count("closure-mutation-attributed-to-inner-function")
            else:
                ctx.truth(f"{label}:pure", False, key=self.key(f"{label}:mutates-host-object"))
        else:
            ctx.truth(f"{label}:pure", True)
        if not ok:
            self.exc(label, which, out, scale_class)
            return None
        with self.hs.paused():
            a = spec.full(v0, flag)
            scale, tp, tf = self.tols(a)
            p = self.clean(label, out, spec.var_len(flag), tp, tf)
            if p is None:
                return None
            want = spec.drop(self.ref_proj(spec, which, a), flag)
            ctx.num(f"{label}:nearest", norm(p - want) / scale, tp, tf, key=self.key(f"{label}:not-nearest"),
                    info={"type": T, "m": m, "norm_a": norm(a), "step": self.sfx})
            self.hold(label, p, v)  # p is a view of the returned array (or a private copy, which trivially stays)
        return p


def install(ctx, c_sys):
    Q = gen.q()
    hs = HookSet(ctx)
    J = Judge(ctx, gen.basis_of(c_sys))
    J.hs = hs
    n = J.fr.n

    def raw_of(obj):
        return stack(gen.raw_params(obj))

    def m_of(obj, T):
        if T == "Povm":
            return len(obj.vecs)
        if T == "MProcess":
            return len(obj.hss)
        return 1

    def mk_object(T, cls, which):
        name = f"calc_proj_{which}_constraint"
        label = f"{T}.{name}"

        def pre(self, *a, **kw):
            return digest(self), raw_of(self)

        def post(result, snap, self, *a, **kw):
            if self.composite_system is not c_sys:
                ctx.count("foreign-composite-system")
                return
            dg, a0 = snap
            pure = digest(self) == dg
            if not pure:
                J.mut_events += 1
            ctx.truth(f"{label}:pure", pure, key=J.key(f"{label}:mutates-self"))
            if not isinstance(result, cls):
                ctx.truth(f"{label}:well-formed", False, key=J.key(f"{label}:returns-{type(result).__name__}"))
                return
            spec = J.spec(T, m_of(self, T))
            scale, tp, tf = J.tols(a0)
            a = J.clean(label + ":input", a0, spec.size, tp, tf)
            if a is None:
                return
            p = J.clean(label, raw_of(result), spec.size, tp, tf)
            if p is None:
                return
            # the result must be a new object with its own arrays (aliasing the operand would let later
            # in-place updates leak); only *mutation* is a violation, so this is just counted
            J.judge_full(label, spec, which, a, p, again=lambda: raw_of(getattr(result, name)()))

        hs.method(cls, name, post=post, pre=pre)

    def mk_static(T, cls, which):
        name = f"calc_proj_{which}_constraint_with_var"

        def parse(args, kw):
            cs = args[0] if len(args) > 0 else kw.get("c_sys")
            var = args[1] if len(args) > 1 else kw.get("var")
            flag = args[2] if len(args) > 2 else kw.get("on_para_eq_constraint", True)
            rest = {k: v for k, v in kw.items() if k not in ("c_sys", "var", "on_para_eq_constraint")}
            if len(args) > 3:
                rest["eps_truncate_imaginary_part"] = args[3]
            return cs, var, bool(flag), rest

        def pre(*args, **kw):
            cs, var, flag, rest = parse(args, kw)
            return digest(var), digest(cs), np.array(var, copy=True)

        def post(result, snap, *args, **kw):
            cs, var, flag, rest = parse(args, kw)
            label = f"{T}.{name}:flag={flag}"
            dv, dc, v0 = snap
            pure_v = digest(var) == dv
            pure_c = digest(cs) == dc
            if not (pure_v and pure_c):
                J.mut_events += 1
            ctx.truth(f"{label}:pure", pure_v, key=J.key(f"{label}:mutates-var"),
                      info={"max_change": float(np.max(np.abs(np.asarray(var, dtype=float) - v0))) if not pure_v else 0.0,
                            "result_is_var": result is var})
            if not pure_c:
                ctx.truth(f"{label}:pure", False, key=J.key(f"{label}:mutates-c_sys"))
            if cs is not c_sys:
                ctx.count("foreign-composite-system")
                return
            v0 = np.asarray(v0).reshape(-1)
            if np.iscomplexobj(v0) or not np.all(np.isfinite(v0)):
                ctx.skip(f"{label}:nearest")
                return
            m, ok = Spec.m_from_len(T, n, v0.size, flag)
            if not ok or m < 1:
                ctx.skip(f"{label}:nearest")
                return
            spec = J.spec(T, m)
            fn = getattr(cls, name)  # hooks are paused inside post-conditions

            def again():
                return fn(cs, np.array(np.asarray(result).reshape(-1), dtype=np.float64), flag, **rest)

            J.judge_var(label, spec, which, np.asarray(v0, dtype=np.float64), flag, result, again=again)

        hs.method(cls, name, post=post, pre=pre)

    def mk_factory(T, cls, which, wv):
        name = f"func_calc_proj_{which}_constraint{'_with_var' if wv else ''}"
        label = f"{T}.{name}"

        def pre(self, *a, **kw):
            return digest(self)

        def post(result, snap, self, *a, **kw):
            if type(self) is not cls:
                return
            ctx.truth(f"{label}:pure", digest(self) == snap, key=J.key(f"{label}:mutates-self"))
            flag = a[0] if a else kw.get("on_para_eq_constraint")
            if flag is None:
                flag = self.on_para_eq_constraint
            if not callable(result):
                ctx.truth(f"{label}:well-formed", False, key=J.key(f"{label}:returns-non-callable"))
                return
            J.closures[id(result)] = (result, T, which, wv, bool(flag), self)

        hs.method(cls, name, post=post, pre=pre, label=label)

    for T in TYPES:
        cls = getattr(Q, T)
        for which in ("eq", "ineq"):
            mk_object(T, cls, which)
            mk_static(T, cls, which)
            for wv in (False, True):
                mk_factory(T, cls, which, wv)
    return hs, J


# ---------------------------------------------------------------- workload


def mix_csys(dims):
    """composite system over a rotated orthonormal Hermitian identity-first basis
    (real orthogonal mixing of the traceless elements of the standard basis)"""
    Q = gen.q()
    es = []
    for k, dim in enumerate(dims):
        std = [ref.dense(b) for b in gen.local_basis(dim, "std")]
        nn = len(std) - 1
        g = np.random.default_rng(20240404 + dim)  # fixed: part of the configuration, not of the case
        R, _ = np.linalg.qr(g.standard_normal((nn, nn)))
        new = [std[0]] + [sum(R[i, j] * std[1 + j] for j in range(nn)) for i in range(nn)]
        es.append(Q.ElementalSystem(k, Q.mb.MatrixBasis(new)))
    return Q.CompositeSystem(es)


def degenerate_herm(D, rng, s):
    """complex Hermitian with repeated, zero and negative eigenvalues"""
    vals = rng.choice(np.array([-2.0, -1.0, -1.0, 0.0, 0.0, 0.5, 1.0, 1.0, 3.0]), size=D)
    if rng.random() < 0.15:
        vals = -np.abs(vals) - (vals == 0)  # negative definite: projection is 0
    u = ref.rand_unitary(D, rng)
    return s * herm((u * vals) @ u.conj().T)


def make_input(spec, kind, s, rng):
    """stacked raw parameters of the requested class"""
    T, fr, m, d = spec.T, spec.fr, spec.m, spec.fr.d
    D = d if T in ("State", "Povm") else d * d
    if kind == "gauss":
        return s * rng.standard_normal(spec.size)
    if kind == "deg":
        return spec.from_ops([degenerate_herm(D, rng, s) for _ in range(m)])
    if kind == "eqfeas":
        return spec.rand_eq_feasible(rng, s)
    if kind == "ineqfeas":
        if rng.random() < 0.1:
            return np.zeros(spec.size)
        return spec.rand_ineq_feasible(rng, s)
    # physical objects
    rank1 = kind == "boundary"
    if T == "State":
        a = fr.coeffs(ref.rand_density(d, rng, 1 if rank1 else None)).real
    elif T == "Povm":
        ms = ref.rand_povm(d, max(m, d) if rank1 else m, rng, 1 if rank1 else None)
        if rank1 and len(ms) > m:  # merge the surplus rank-one elements into the last one
            ms = ms[: m - 1] + [sum(ms[m - 1:])]
        a = np.concatenate([fr.coeffs(x).real for x in ms])
    elif T == "Gate":
        ks = [ref.rand_unitary(d, rng)] if rank1 else ref.rand_kraus(d, d * d, rng)
        C = sum(np.outer(k.reshape(-1), k.reshape(-1).conj()) for k in ks)
        a = fr.hs_from_choi(C).real.reshape(-1)
    else:
        sets = ref.rand_instrument(d, m, rng, [1 if rank1 else d * d] * m)
        a = np.concatenate([fr.hs_from_choi(sum(np.outer(k.reshape(-1), k.reshape(-1).conj()) for k in ks)).real.reshape(-1)
                            for ks in sets])
    if kind == "near":
        a = a + float(rng.choice([1e-9, 1e-6, 1e-3])) * rng.standard_normal(a.size)
    return a


HISTORY_STEPS = ["requery", "interleave", "provenance", "closure-reuse", "static-reuse", "kept-closures", "setters"]
PROVENANCES = ["copy", "generate_from_var", "generate_zero_obj", "generate_origin_obj", "projection-chain",
               "sum-of-projections", "scaled", "residual"]
SCALED_KINDS = ("gauss", "deg", "eqfeas", "ineqfeas")


def draw_ctor_options(hr, T, m):
    """non-default values of the constructor options that no single projection reads (the property quantifies over
    objects, not over these options: every verdict is the same as for a default-option object)"""
    if hr.random() < 0.5:
        return {}
    o = {"mode_proj_order": str(hr.choice(["eq_ineq", "ineq_eq"])), "on_algo_eq_constraint": bool(hr.integers(2)),
         "on_algo_ineq_constraint": bool(hr.integers(2)), "is_estimation_object": bool(hr.integers(2))}
    if hr.random() < 0.5:
        o["eps_proj_physical"] = float(hr.choice([1e-6, 1e-3]))
    if T == "MProcess":
        shapes = [(m,), (1, m), (m, 1)] + ([(2, 2)] if m == 4 else [])
        o["shape"] = tuple(int(x) for x in shapes[int(hr.integers(len(shapes)))])
        if hr.random() < 0.5:
            o["eps_zero"] = 1e-6
    return o


def run_shard(ctx):
    p = ctx.params
    T, shape, bkind = p["type"], p["shape"], p["basis"]
    dims = gen.SHAPES[shape]
    Q = gen.q()
    cls = getattr(Q, T)
    c_sys = mix_csys(dims) if bkind == "mix" else gen.make_csys(dims, kind="std")
    hs, J = install(ctx, c_sys)
    bad = J.fr.self_test(np.random.default_rng(7))
    if bad:
        ctx.mark_inconclusive("reference frame self-test failed: " + "; ".join(bad))
        hs.uninstall()
        return
    if not c_sys.is_orthonormal_hermitian_0thprop_identity:
        ctx.mark_inconclusive("quara does not regard the basis as orthonormal Hermitian identity-first")
        hs.uninstall()
        return
    # a second composite system of the same dimensions over the other basis: used unjudged, before and between the judged
    # calls (anything the library remembers per dimension / size / class instead of per system would answer for it)
    sib = gen.make_csys(dims, kind="std") if bkind == "mix" else mix_csys(dims)
    kept = {}  # (m, flag) -> closures made in an earlier case of this shard: [(name, closure, registry entry)]
    steps_done = {}

    def build(a, spec, flag, eps, opts=None):
        kw = {"is_physicality_required": False, "on_para_eq_constraint": flag}
        if eps is not None:
            kw["eps_truncate_imaginary_part"] = eps
        kw.update(opts or {})
        return ctx.attempt(cls, c_sys, spec.unstack(a), **kw)

    def sibling_pass(rg, m):
        sp = J.spec(T, m)
        x = rg.standard_normal(sp.size)
        with hs.paused():
            for flag in (True, False):
                try:
                    o = cls(sib, sp.unstack(x), is_physicality_required=False, on_para_eq_constraint=flag)
                    xv = sp.drop(x, flag)
                    for which in ("eq", "ineq"):
                        getattr(o, f"calc_proj_{which}_constraint")()
                        getattr(cls, f"calc_proj_{which}_constraint_with_var")(sib, xv.copy(), flag)
                        for wv in ("", "_with_var"):
                            getattr(o, f"func_calc_proj_{which}_constraint{wv}")()(xv.copy())
                except Exception as e:  # the sibling is not judged
                    ctx.count(f"sibling-system:{type(e).__name__}")
        ctx.count("history:sibling-system-pass")

    def history(i, hr, spec, a, s, eps, opts, per_flag):
        """HISTORY / COMBINATION steps on the objects of this case (all verdicts by the ordinary oracles; keys carry the
        step's tag).  Only public methods, public setters and caller-owned buffers are used."""
        cands = [f for f in (True, False) if f in per_flag]
        if not cands:
            return
        fl = cands[int(hr.integers(len(cands)))]
        c = per_flag[fl]
        objf, other, v = c["objf"], c["other"], c["v"]
        if i == 0 and p["n"] >= 8:
            steps = list(HISTORY_STEPS)  # the first case of a (light) shard runs every step; finalize demands each step per type
        else:
            steps = [str(x) for x in hr.choice(HISTORY_STEPS[:6], size=2, replace=False)]
            if hr.random() < 0.3:
                steps.append("setters")
        # second input of the same scale class as the case's (the case's truncation threshold, if any, is chosen for that scale)
        kind_b = str(hr.choice(KINDS if s == 1.0 else [k for k in KINDS if k in SCALED_KINDS]))
        b = np.ascontiguousarray(make_input(spec, kind_b, s if kind_b in SCALED_KINDS else 1.0, hr), dtype=np.float64)
        w = spec.drop(b, fl)
        host_b = None

        def q_obj(o, which, hold=True):
            name = f"calc_proj_{which}_constraint"
            ok, r = ctx.attempt(getattr(o, name))
            if not ok:
                J.exc(f"{T}.{name}", which, r, s)
                return None
            if isinstance(r, cls):
                if hold:
                    J.hold(f"{T}.{name}", r)
                return r
            return None

        def q_static(which, buf, flag):
            name = f"calc_proj_{which}_constraint_with_var"
            kw = {"eps_truncate_imaginary_part": eps} if (which == "ineq" and eps is not None) else {}
            ok, out = ctx.attempt(getattr(cls, name), c_sys, buf, flag, **kw)
            if not ok:
                J.exc(f"{T}.{name}:flag={flag}", which, out, s)
                return None
            if isinstance(out, np.ndarray) and out.dtype != object:
                J.hold(f"{T}.{name}:flag={flag}", out, buf)
                return out
            return None

        metas = {}

        def factory(host, which, wv, farg=None):
            nm = f"func_calc_proj_{which}_constraint{'_with_var' if wv else ''}"
            ok, f = ctx.attempt(getattr(host, nm), *(() if farg is None else (farg,)))
            if not ok:
                ctx.violation(J.key(f"{T}.{nm}:" + ctx.exc_key(f)), {"flag": fl})
                return None
            if id(f) not in J.closures:
                return None
            metas[id(f), which, wv, farg] = J.closures[id(f)]  # as registered by THIS factory call
            return f

        def call(f, which, wv, farg, buf, expect=None):
            """call a closure as the closure of the factory call (which, wv, farg): were the library to hand out one
            closure object for two factory calls, each use is still judged under the flag it was asked for"""
            J.closures[id(f)] = metas[id(f), which, wv, farg]
            return J.call_closure(f, buf, s, expect_flag=expect)

        def get_host_b():
            nonlocal host_b
            if host_b is None:
                ok, hb = build(b, spec, fl, eps, opts)
                host_b = hb if ok else False
            return host_b or None

        def rand_form():
            return ("eq", "ineq")[int(hr.integers(2))], bool(hr.integers(2))

        def ran(st):
            steps_done[st] = steps_done.get(st, 0) + 1

        for st in steps:
            if st == "requery":
                ran(st)
                # (a) the same object asked again, in the other order
                with J.step(":second-query"):
                    for which in ("ineq", "eq"):
                        q_obj(objf, which)
            elif st == "interleave":
                # (c) two objects of the same class, size and flag, asked alternately
                hb = get_host_b()
                if hb is not None:
                    ran(st)
                    with J.step(":interleaved-objects"):
                        for which in ("ineq", "eq"):
                            q_obj(hb, which)
                            q_obj(objf, which)
            elif st == "provenance":
                # (b) objects returned by the library instead of constructed ones, also as hosts of default-flag closures
                names = [str(x) for x in hr.choice(PROVENANCES, size=(4 if i == 0 else 2), replace=False)]
                if "copy" not in names and hr.random() < 0.4:
                    names[-1] = "copy"
                for pv in names:
                    with J.step(f":via-{pv}"):
                        if pv == "copy":
                            ok, d = ctx.attempt(objf.copy)
                        elif pv == "generate_from_var":
                            ok, d = ctx.attempt(lambda: objf.generate_from_var(objf.to_var()))
                        elif pv == "generate_zero_obj":
                            ok, d = ctx.attempt(objf.generate_zero_obj)
                        elif pv == "generate_origin_obj":
                            ok, d = ctx.attempt(objf.generate_origin_obj)
                        else:
                            r1, r2 = q_obj(objf, "eq"), None
                            if pv == "projection-chain":
                                ok, d = (r1 is not None), (q_obj(r1, "ineq") if r1 is not None else None)
                            elif pv == "sum-of-projections":
                                r2 = q_obj(objf, "ineq")
                                ok, d = ctx.attempt(lambda: r1 + r2) if (r1 is not None and r2 is not None) else (False, None)
                            elif pv == "scaled":
                                ok, d = ctx.attempt(lambda: objf * 0.5)
                            else:
                                ok, d = ctx.attempt(lambda: objf - r1) if r1 is not None else (False, None)
                        if not ok or not isinstance(d, cls):
                            ctx.count(f"provenance-unavailable:{pv}")  # copy / generate_* / arithmetic are not this property's
                            continue
                        ran(st)
                        for which in ("eq", "ineq"):
                            q_obj(d, which)
                    if pv == "copy" or hr.random() < 0.6:
                        which, wv = rand_form()
                        with J.step(f":host-via-{pv}"):
                            f = factory(d, which, wv)
                            if f is not None:
                                J.call_closure(f, v.copy(), s, expect_flag=fl)
            elif st == "closure-reuse":
                # (c) one closure used for several variables, as an optimiser does (also with one caller-owned array whose
                # contents the caller replaces between the calls)
                which, wv = rand_form()
                with J.step(":closure-re-used"):
                    f = factory(objf, which, wv)
                    if f is not None:
                        ran(st)
                        buf = v.copy()
                        J.call_closure(f, buf, s, expect_flag=fl)
                        buf[:] = w
                        with J.step(":closure-re-used:same-array-new-contents"):
                            J.call_closure(f, buf, s)
                        J.call_closure(f, v.copy(), s)
                # (d) one host asked for closures under every value of the optional flag argument
                which, wv = rand_form()
                host = other if (other is not None and hr.random() < 0.5) else objf
                hflag = fl if host is objf else (not fl)
                with J.step(":same-host-several-flags"):
                    order = [(True, False, None), (False, True, None), (None, False, True), (None, True, False)][int(hr.integers(4))]
                    fs = [(fa, factory(host, which, wv, fa)) for fa in order]
                    for fa, f in reversed(fs):
                        if f is not None:
                            call(f, which, wv, fa, spec.drop(a, hflag if fa is None else fa), expect=(hflag if fa is None else None))
                # (c) closures of two hosts of the same class and size, used alternately
                hb = get_host_b()
                if hb is not None and hr.random() < 0.5:
                    which, wv = rand_form()
                    with J.step(":interleaved-closures"):
                        fa, fb = factory(objf, which, wv), factory(hb, which, wv)
                        if fa is not None and fb is not None:
                            J.call_closure(fa, v.copy(), s)
                            J.call_closure(fb, w.copy(), s)
                            J.call_closure(fa, w.copy(), s)
                            J.call_closure(fb, v.copy(), s)
            elif st == "static-reuse":
                ran(st)
                vo = spec.drop(a, not fl)
                for which in ((("eq", "ineq") if hr.random() < 0.5 else ("ineq", "eq"))[: (2 if i == 0 else 1)]):
                    with J.step(":static-re-used"):
                        buf = v.copy()
                        q_static(which, buf, fl)
                        buf[:] = w
                        with J.step(":static-re-used:same-array-new-contents"):
                            q_static(which, buf, fl)
                        q_static(which, vo.copy(), not fl)  # the other parametrisation in between
                        q_static(which, v.copy(), fl)
                # (b) a returned variable fed back in (alternating projections on variables)
                with J.step(":input-from-previous-result"):
                    x = q_static("eq", v.copy(), fl)
                    y = q_static("ineq", x, fl) if x is not None else None
                    if y is not None:
                        q_static("eq", y, fl)
            elif st == "kept-closures":
                # (c) closures made in an earlier case of this shard (other host, other data, same size and flag)
                for kf in (fl, not fl):
                    old = [e for e in kept.get((spec.m, kf), []) if e[3] != i] if kf in per_flag else []
                    if old:
                        ran(st)
                        with J.step(":closure-kept-from-earlier-case"):
                            for j in hr.choice(len(old), size=min(3, len(old)), replace=False):
                                nm, f, meta, _ = old[int(j)]
                                J.closures[id(f)] = meta
                                J.call_closure(f, per_flag[kf]["v"].copy(), s)
                        break
            elif st == "setters":
                # (a) query -> public setter -> query on the same object; closures made before the setter
                pre = [factory(objf, *rand_form()) for _ in range(2)]
                with J.step(":after-option-setters"):
                    ok1, _ = ctx.attempt(objf.set_mode_proj_order, "ineq_eq" if objf.mode_proj_order == "eq_ineq" else "eq_ineq")
                    # (the threshold also zeroes real entries below it: it has to stay far below the tolerances)
                    ok2, _ = ctx.attempt(setattr, objf, "eps_truncate_imaginary_part", 1e-12 if eps is None else 2 * eps)
                    if not (ok1 and ok2):
                        ctx.count("setter-unavailable")
                    for which in ("ineq", "eq"):
                        q_obj(objf, which)
                # a projection result that is zeroed afterwards is an ordinary (infeasible) object again
                with J.step(":result-zeroed-after-projection"):
                    r = q_obj(objf, "eq", hold=False)  # (not held: the driver itself changes it through the setter)
                    if r is not None and ctx.attempt(r.set_zero)[0]:
                        for which in ("eq", "ineq"):
                            q_obj(r, which)
                ok, _ = ctx.attempt(objf.set_zero)
                if not ok:
                    ctx.count("setter-unavailable")
                    continue
                ran(st)
                with J.step(":after-set_zero"):
                    for which in ("eq", "ineq"):
                        q_obj(objf, which)
                with J.step(":closure-made-before-set_zero-of-host"):
                    for f in pre:
                        if f is not None:
                            J.call_closure(f, v.copy(), s)
                with J.step(":host-after-set_zero"):
                    f = factory(objf, *rand_form())
                    if f is not None:
                        J.call_closure(f, v.copy(), s, expect_flag=fl)

    try:
        # warm-up of the sibling system: it is the FIRST system of these dimensions the library sees in this process
        for mm in ((2, 3) if T in ("Povm", "MProcess") else (1,)):
            sibling_pass(ctx.rng(9000 + mm), mm)
        for i in ctx.cases(p["n"]):
            rng = ctx.rng()
            hr = ctx.rng(4242)  # stream of the history steps and of the constructor options
            m = int(rng.integers(2, 6)) if T in ("Povm", "MProcess") else 1
            spec = J.spec(T, m)
            kind = str(rng.choice(KINDS))
            s = float(rng.choice(SCALES)) if kind in SCALED_KINDS else 1.0
            J.begin_case(s)
            eps = 1e-10 if (s == 1e3 and rng.random() < 0.6) else None
            a = np.ascontiguousarray(make_input(spec, kind, s, rng), dtype=np.float64)
            opts = draw_ctor_options(hr, T, m)
            if hr.random() < 0.34:
                sibling_pass(hr, m)
            if kind != "feasible":
                ctx.nontrivial(T, shape, bkind, kind, s, m, a)
            if i < 2:
                ctx.sample({"type": T, "shape": shape, "basis": bkind, "class": kind, "scale": s, "m": m,
                            "eps_truncate_imaginary_part": eps, "ctor_options": {k: (list(x) if isinstance(x, tuple) else x)
                                                                                 for k, x in opts.items()},
                            "eq_violation_in": spec.eq_violation(a),
                            "ineq_violation_in": spec.ineq_violation(a), "params": a})
            per_flag = {}
            for flag in (True, False):
                ok, obj = build(a, spec, flag, eps, opts)
                if not ok:
                    ctx.violation(f"{T}.ctor:" + ctx.exc_key(obj), {"flag": flag})
                    continue
                # object-level forms on the raw object (they do not depend on the flag)
                for which in ("eq", "ineq"):
                    ok, r = ctx.attempt(getattr(obj, f"calc_proj_{which}_constraint"))
                    if not ok:
                        J.exc(f"{T}.calc_proj_{which}_constraint", which, r, s)
                    elif isinstance(r, cls):
                        J.hold(f"{T}.calc_proj_{which}_constraint", r)
                # the variable of this object under `flag`, and the object it denotes
                v = spec.drop(a, flag)
                af = spec.full(v, flag)
                if flag:
                    ok, objf = build(af, spec, True, eps, opts)
                    if not ok:
                        ctx.violation(f"{T}.ctor:" + ctx.exc_key(objf), {"flag": flag})
                        continue
                else:
                    objf = obj
                ok, other = build(a, spec, not flag, eps, opts)
                if not ok:
                    other = None
                per_flag[flag] = {"objf": objf, "other": other, "v": v}
                scale, tp, tf = J.tols(af)
                for which in ("eq", "ineq"):
                    res = {}
                    ok, r = ctx.attempt(getattr(objf, f"calc_proj_{which}_constraint"))
                    if ok and isinstance(r, cls):
                        J.hold(f"{T}.calc_proj_{which}_constraint", r)
                        rr = stack(gen.raw_params(r))
                        if rr.size == spec.size and not np.iscomplexobj(rr):
                            res["object"] = spec.drop(rr, flag)
                    elif not ok:
                        J.exc(f"{T}.calc_proj_{which}_constraint", which, r, s)
                    static = getattr(cls, f"calc_proj_{which}_constraint_with_var")
                    vv = v.copy()
                    if which == "ineq" and eps is not None:
                        ok, out = ctx.attempt(static, c_sys, vv, flag, eps_truncate_imaginary_part=eps)
                    elif rng.random() < 0.5:
                        ok, out = ctx.attempt(static, c_sys, vv, on_para_eq_constraint=flag)
                    else:
                        ok, out = ctx.attempt(static, c_sys, vv, flag)
                    if ok:
                        res["static"] = out
                        if isinstance(out, np.ndarray) and out.dtype != object:
                            J.hold(f"{T}.calc_proj_{which}_constraint_with_var:flag={flag}", out, vv)
                    else:
                        J.exc(f"{T}.calc_proj_{which}_constraint_with_var:flag={flag}", which, out, s)
                    for host, farg, tag in ((objf, None, "default-flag"), (other, flag, "explicit-flag")):
                        if host is None:
                            continue
                        for wv in (False, True):
                            nm = f"func_calc_proj_{which}_constraint{'_with_var' if wv else ''}"
                            ok, f = ctx.attempt(getattr(host, nm), *(() if farg is None else (farg,)))
                            if not ok:
                                ctx.violation(f"{T}.{nm}:" + ctx.exc_key(f), {"flag": flag})
                                continue
                            # (hosts with the default truncation threshold only: a closure reads its host's threshold, and a
                            # threshold chosen for scale 1e3 would be coarse for a later case of scale 1)
                            if eps is None and id(f) in J.closures and len(kept.setdefault((m, flag), [])) < 8:
                                kept[(m, flag)].append((nm, f, J.closures[id(f)], i))
                            out = J.call_closure(f, v.copy(), s)
                            if out is not None:
                                res[f"closure{'_with_var' if wv else ''}:{tag}"] = out
                    # agreement of the forms (as variables)
                    lab = f"{T}.{which}:flag={flag}:forms-agree"
                    names = sorted(res)
                    vals = {}
                    for k in names:
                        x = np.asarray(res[k]).reshape(-1)
                        if x.size == v.size and x.dtype != object and np.all(np.isfinite(x)):
                            vals[k] = x
                    ks = sorted(vals, key=lambda k: (k != "static", k))  # the static form is the base when it returned
                    for k in ks[1:]:
                        pair = f"{ks[0].split(':')[0]}-vs-{k.split(':')[0]}"
                        ctx.num(lab, norm(vals[k] - vals[ks[0]]) / scale, tp, tf, key=f"{T}.{which}:flag={flag}:{pair}:forms-disagree",
                                info={"forms": [ks[0], k], "norm_a": norm(af)})
            history(i, hr, spec, a, s, eps, opts, per_flag)
            # nothing the library returned in this case may have been changed by a later call
            J.check_held()
    finally:
        hs.uninstall()
    ctx.extra["hook_counts"] = hs.counts
    ctx.extra["history_steps"] = steps_done
    req = []
    for which in ("eq", "ineq"):
        req += [f"{T}.calc_proj_{which}_constraint", f"{T}.calc_proj_{which}_constraint_with_var",
                f"{T}.func_calc_proj_{which}_constraint", f"{T}.func_calc_proj_{which}_constraint_with_var"]
    if ctx.only_case is None:
        hs.require(req)


def finalize(merged, ctx):
    """every history step must have run for every object type (a step that never ran has shown nothing)"""
    done = {}
    for e in merged["extra"]:
        t = (e.get("params") or {}).get("type")
        for st, n in ((e.get("extra") or {}).get("history_steps") or {}).items():
            done[(t, st)] = done.get((t, st), 0) + int(n)
    for t in TYPES:
        for st in HISTORY_STEPS:
            ctx.count(f"history:{t}:{st}", done.get((t, st), 0))
            if done.get((t, st), 0) == 0:
                ctx.mark_inconclusive(f"history step never ran: {t}:{st}")
