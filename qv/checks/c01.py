"""C01  Physicality verdicts match the mathematical definitions.

Contracts on every verdict function of State / Povm / Gate / MProcess (and the
matrix_util helpers): the post-condition recomputes the violation sizes of the
denoted operators with the reference model and applies the three-zone rule
(must accept <= atol/10, must reject >= 10 atol, free in between).

History / combination steps (class History; every case ends with them, own RNG
stream ctx.rng(1), so the first-pass inputs and digests are what they were):
the oracles stay the hooks (each verdict call is judged against the reference
model of the raw arrays the object holds *at the time of the call*), the steps
only create histories through the public API:
  second-call      other public methods of the same object (conversions,
                   projections, arithmetic), then its verdicts again: tolerances
                   descending, inequality before equality, is_physical with two
                   DIFFERENT tolerances given by keyword
  second-setting   two more Settings.set_atol windows on the same object
  via-copy / after-set_zero / after-setter
                   copy(): asked, set_zero(), asked again, its copy asked;
                   set_mode_proj_order / eps_truncate_imaginary_part /
                   MProcess.set_mode_sampling between two queries of one object
  ctor-required-object
                   the same with the object the constructor returned when
                   physicality was required (instead of a copy)
  via-generate_from_var / via-arithmetic / via-pickle
                   objects returned by earlier library calls; origin / zero
                   objects of copies, of zeroed objects, of partners and of one
                   another (first-pass oracles, keys carry the enclosing step)
  sibling-system   a second composite system of the same dimensions and another
                   basis lives in the same process; a partner object on it,
                   built with NON-DEFAULT constructor options, is asked
                   interleaved with the case's object; constructor with
                   physicality required and those options
  re-used-object   two veteran objects (built from the shard-level stream) live for
                   the whole shard; one is asked in every case, also inside the
                   Settings windows and after the table deletion
  tables-deleted   the documented CompositeSystem.delete_* calls, then verdicts
  caller-array-reused
                   the module-level verdict functions (gate.is_tp / gate.is_cp,
                   now hooked too; matrix_util) get ONE caller-owned array per
                   shard, refilled with other contents for every call
Hook keys of verdicts judged while a step is in progress carry the step as a
suffix (":via-copy", ...), except the known mechanism class "rtol-slack".
The harness memoises reference sizes by *content* of the raw arrays, never by
object identity (a setter must not leave a stale reference value behind).
"""
import hashlib
import pickle

import numpy as np

from qv import gen, ref
from qv.monitor import HookSet

ID = "C01"
RULE = ("objects of 4 types x shapes S1,S3,S2,S23 x bases (std, other orthonormal identity-first, unnormalised, "
        "Hermitian identity-not-first) generated physical / boundary (pure, rank-deficient, projective, unitary) / "
        "non-physical with one violated constraint of size delta in {0.01,0.1,10,100,1e4}*atol and {1e-3,0.1,1}; every "
        "verdict function evaluated on an atol ladder 1e-13..1e-2 (explicit and via Settings); a case is distinct by "
        "(type,shape,basis,kind,rounded parameters,atol) and non-trivial when the object is boundary or non-physical "
        "or the tolerance is not the default; each case ends with history steps on the same objects (re-query after other "
        "calls, Settings windows, copy / set_zero / setters, generate_from_var / arithmetic / pickle / origin / zero "
        "objects, partner on a sibling composite system with non-default constructor options, shard-long veterans, "
        "deleted tables, caller-owned arrays re-used for the module-level verdict functions), judged by the same hooks")
ATOLS = [1e-13, 1e-10, 1e-8, 1e-5, 1e-2]
ANCHORS = [
    "quara/objects/state.py:State.is_trace_one", "quara/objects/state.py:State.is_positive_semidefinite",
    "quara/objects/povm.py:Povm.is_identity_sum", "quara/objects/povm.py:Povm.is_positive_semidefinite",
    "quara/objects/gate.py:is_tp", "quara/objects/gate.py:is_cp",
    "quara/objects/mprocess.py:MProcess.is_sum_tp", "quara/objects/mprocess.py:MProcess.is_cp",
    "quara/utils/matrix_util.py:is_positive_semidefinite", "quara/utils/matrix_util.py:is_hermitian",
]
REQUIRED_REACH = ANCHORS
MIN_EVALS = {"quick": 50000, "thorough": 500000}
WATCHDOG = {"quick": 900, "thorough": 3600}

TYPES = ["State", "Povm", "Gate", "MProcess"]
KINDS_BY_TYPE = {
    "State": ["std", "alt", "unnorm", "rot", "nherm"],
    "Povm": ["std", "alt", "unnorm", "rot", "nherm"],
    "Gate": ["std", "alt", "unnorm", "rot", "nherm"],
    "MProcess": ["std", "alt"],
}


def shards(tier, seed):
    out = []
    n = {"quick": 48, "thorough": 480}[tier]
    for t in TYPES:
        for shape in ["S1", "S3", "S2", "S23"]:
            for kind in KINDS_BY_TYPE[t]:
                big = shape in ("S2", "S23") and t in ("Gate", "MProcess")
                k = max(3, n // 4) if big else n
                out.append({"type": t, "shape": shape, "kind": kind, "n": k, "weight": (8 if big else 1) * k})
    # MProcess must reject non-standard bases at construction
    out.append({"type": "MProcess", "shape": "S1", "kind": "rot", "n": 3, "reject_basis": True, "weight": 1})
    out.append({"type": "MProcess", "shape": "S1", "kind": "unnorm", "n": 3, "reject_basis": True, "weight": 1})
    return out


# ------------------------------------------------------------------ oracle


def _dg(arrs):
    """content key of raw parameter arrays (harness memo key: content, never identity)"""
    return (tuple((a.dtype.char, a.shape) for a in arrs), hashlib.blake2b(b"".join([a.tobytes() for a in arrs]), digest_size=16).digest())


def _tp_sizes(B, hs, d):
    """two candidate norms of the TP defect (the statement does not fix one): lo/hi"""
    tr = ref.tp_violation(B, hs)  # max_b |Tr E(B_b) - Tr B_b|
    D = ref.dual_identity(B, hs) - np.eye(d)
    e2 = float(np.max(np.abs(D)))
    e3 = tr / np.sqrt(d)
    return min(tr, e2, e3), max(tr, e2, e3)


def zone(lo, hi, atol):
    if hi <= atol / 10:
        return "accept"
    if lo >= 10 * atol:
        return "reject"
    return "free"


class Judge:
    def __init__(self, ctx):
        self.ctx = ctx
        self.cache = {}  # (id(c_sys), tag, content digest) -> (c_sys, value)
        self.meta = {}  # cp_judged: default for composite systems not registered in cp_flag
        self.cp_flag = {}  # id(c_sys) -> (c_sys, bool)
        self.step = None  # name of the history step in progress (key suffix)

    def _memo(self, cs, tag, arrs, fn):
        key = (id(cs), tag, _dg(arrs))
        c = self.cache.get(key)
        if c is None or c[0] is not cs:
            if len(self.cache) > 512:
                self.cache.clear()
            c = (cs, fn())
            self.cache[key] = c
        return c[1]

    def cp_judged(self, cs):
        c = self.cp_flag.get(id(cs))
        if c is not None and c[0] is cs:
            return c[1]
        return self.meta.get("cp_judged", True)

    def tp_sizes(self, cs, hs):
        hs = np.asarray(hs)
        return self._memo(cs, "tp", [hs], lambda: _tp_sizes(gen.basis_of(cs), hs, cs.dim))

    def cp_size(self, cs, hs):
        hs = np.asarray(hs)
        return self._memo(cs, "cp", [hs], lambda: ref.cp_violation(gen.basis_of(cs), hs))

    def sizes(self, obj):
        """(eq_lo, eq_hi, ineq) reference violation sizes of a quara object, from the raw arrays it holds NOW.
        eq has two candidate norms (the statement does not fix one): lo/hi."""
        cs = obj.composite_system
        t = gen.type_of(obj)
        d = cs.dim
        if t == "State":
            vec = obj.vec

            def f():
                v = ref.state_violations(gen.basis_of(cs), vec)
                return v["eq"], v["eq"], v["ineq"]

            return self._memo(cs, "State", [vec], f)
        if t == "Povm":
            vecs = list(obj.vecs)

            def f():
                ms = ref.povm_ops(gen.basis_of(cs), vecs)
                D = sum(ms) - np.eye(d)
                e1 = float(np.max(np.abs(D)))
                e2 = float(np.linalg.norm(D, 2))
                ineq = max(max(ref.psd_violation(m) for m in ms), max(ref.herm_violation(m) for m in ms) / 2)
                return min(e1, e2), max(e1, e2), ineq

            return self._memo(cs, "Povm", vecs, f)
        if t == "Gate":
            lo, hi = self.tp_sizes(cs, obj.hs)
            return lo, hi, self.cp_size(cs, obj.hs)
        hss = [np.asarray(h) for h in obj.hss]
        lo, hi = self.tp_sizes(cs, sum(hss))
        return lo, hi, max(self.cp_size(cs, h) for h in hss)

    def slack_class(self, obj, which, lo, hi, atol):
        """mechanism class of a wrongly accepted equality violation"""
        t = gen.type_of(obj)
        if which == "eq" and t in ("State", "Povm") and hi <= atol + 1.0000001e-5:
            # np.isclose / np.allclose default rtol=1e-5 relative to the reference value 1
            return "rtol-slack"
        return "accepts-violation"

    def sfx(self, cls=None):
        """key suffix naming the history step in progress (the known class rtol-slack keeps its ordinary key)"""
        if self.step is None or cls == "rtol-slack":
            return ""
        return ":" + self.step

    def verdict(self, label, obj, which, got, atol, cp_judged=True):
        from quara.settings import Settings

        ctx = self.ctx
        atol = Settings.get_atol() if atol is None else atol
        if which == "ineq" and not cp_judged:
            ctx.skip(f"{label}")
            return
        eq_lo, eq_hi, ineq = self.sizes(obj)
        if which == "eq":
            z = zone(eq_lo, eq_hi, atol)
        else:
            z = zone(ineq, ineq, atol)
        info = {"atol": atol, "eq": [eq_lo, eq_hi], "ineq": ineq, "got": bool(got), "type": gen.type_of(obj), "step": self.step}
        if z == "free":
            ctx.skip(label)
            return
        want = z == "accept"
        if bool(got) == want:
            ctx.truth(label, True)
            return
        if want:
            key = f"{label}:rejects-valid{self.sfx()}"
        else:
            cls = self.slack_class(obj, which, eq_lo, eq_hi, atol)
            key = f"{label}:{cls}{self.sfx(cls)}"
        ctx.truth(label, False, key=key, info=info)

    def physical(self, label, obj, got, atol_eq, atol_ineq, cp_judged=True):
        from quara.settings import Settings

        ctx = self.ctx
        a1 = Settings.get_atol() if atol_eq is None else atol_eq
        a2 = Settings.get_atol() if atol_ineq is None else atol_ineq
        eq_lo, eq_hi, ineq = self.sizes(obj)
        z1 = zone(eq_lo, eq_hi, a1)
        z2 = zone(ineq, ineq, a2) if cp_judged else "free"
        info = {"atol": [a1, a2], "eq": [eq_lo, eq_hi], "ineq": ineq, "got": bool(got), "type": gen.type_of(obj), "step": self.step}
        if z1 == "accept" and z2 == "accept":
            ctx.truth(label, bool(got), key=f"{label}:rejects-valid{self.sfx()}", info=info)
        elif z1 == "reject" or z2 == "reject":
            if not got:
                ctx.truth(label, True)
            else:
                cls = "accepts-violation"
                if z1 == "reject" and z2 != "reject":
                    cls = self.slack_class(obj, "eq", eq_lo, eq_hi, a1)
                ctx.truth(label, False, key=f"{label}:{cls}{self.sfx(cls)}", info=info)
        else:
            ctx.skip(label)

    def matrix_verdict(self, label, lo, hi, got, a, info):
        """three-zone verdict of a helper judged directly on the array it was given"""
        ctx = self.ctx
        z = zone(lo, hi, a)
        if z == "free":
            ctx.skip(label)
            return
        ok = bool(got) == (z == "accept")
        ctx.truth(label, ok, key=f"{label}:" + ("rejects-valid" if z == "accept" else "accepts-violation") + self.sfx(),
                  info=dict(info, atol=a, got=bool(got), step=self.step))


def install(ctx):
    Q = gen.q()
    import quara.utils.matrix_util as mutil

    hs = HookSet(ctx)
    J = Judge(ctx)

    def cpj(obj):
        # the Choi formula used by the CP test assumes an orthonormal basis
        return J.cp_judged(obj.composite_system)

    def mk(which, label, atol_pos=1):
        def post(result, snap, self, *a, **kw):
            atol = kw.get("atol", a[0] if a else None)
            J.verdict(label, self, which, result, atol, cp_judged=cpj(self))
        return post

    for cls, eqname, ineqname in ((Q.State, "is_trace_one", "is_positive_semidefinite"),
                                  (Q.Povm, "is_identity_sum", "is_positive_semidefinite"),
                                  (Q.Gate, "is_tp", "is_cp"), (Q.MProcess, "is_sum_tp", "is_cp")):
        n = cls.__name__
        hs.method(cls, eqname, post=mk("eq", f"{n}.{eqname}"))
        hs.method(cls, ineqname, post=mk("ineq", f"{n}.{ineqname}"))
        hs.method(cls, "is_eq_constraint_satisfied", post=mk("eq", f"{n}.is_eq_constraint_satisfied"))
        hs.method(cls, "is_ineq_constraint_satisfied", post=mk("ineq", f"{n}.is_ineq_constraint_satisfied"))

        def post_phys(result, snap, self, *a, _n=n, **kw):
            a1 = kw.get("atol_eq_const", a[0] if len(a) > 0 else None)
            a2 = kw.get("atol_ineq_const", a[1] if len(a) > 1 else None)
            J.physical(f"{_n}.is_physical", self, result, a1, a2, cp_judged=cpj(self))

        hs.method(cls, "is_physical", post=post_phys)

    # matrix level helpers: judged directly on the matrix they are given
    def post_psd(result, snap, matrix, atol=None):
        from quara.settings import Settings

        a = Settings.get_atol() if atol is None else atol
        M = ref.dense(matrix)
        if M.ndim != 2 or M.shape[0] != M.shape[1]:
            return
        v = max(ref.psd_violation(M), ref.herm_violation(M) / 2)
        J.matrix_verdict("matrix_util.is_positive_semidefinite", v, max(v, ref.herm_violation(M)), result, a, {"viol": v})

    def post_herm(result, snap, matrix, atol=None):
        from quara.settings import Settings

        a = Settings.get_atol() if atol is None else atol
        M = ref.dense(matrix)
        if M.ndim != 2 or M.shape[0] != M.shape[1]:
            return
        v = ref.herm_violation(M)
        J.matrix_verdict("matrix_util.is_hermitian", v, v, result, a, {"viol": v})

    hs.function(mutil, "is_positive_semidefinite", post=post_psd)
    hs.function(mutil, "is_hermitian", post=post_herm)

    # module-level gate verdicts: judged on the (composite system, HS matrix) they are given; the reference sizes are
    # shared (by content) with the object-level hooks, so this costs no second reference computation
    def _fn_args(a, kw):
        c_sys = kw.get("c_sys", a[0] if len(a) > 0 else None)
        m = kw.get("hs", a[1] if len(a) > 1 else None)
        atol = kw.get("atol", a[2] if len(a) > 2 else None)
        if c_sys is None or not isinstance(m, np.ndarray) or m.ndim != 2 or np.iscomplexobj(m):
            return None
        if m.shape != (c_sys.dim ** 2, c_sys.dim ** 2):
            return None
        from quara.settings import Settings

        return c_sys, m, (Settings.get_atol() if atol is None else atol)

    def post_fn_tp(result, snap, *a, **kw):
        x = _fn_args(a, kw)
        if x is None:
            return
        lo, hi = J.tp_sizes(x[0], x[1])
        J.matrix_verdict("gate.is_tp", lo, hi, result, x[2], {"eq": [lo, hi]})

    def post_fn_cp(result, snap, *a, **kw):
        x = _fn_args(a, kw)
        if x is None:
            return
        if not J.cp_judged(x[0]):
            ctx.skip("gate.is_cp")
            return
        v = J.cp_size(x[0], x[1])
        J.matrix_verdict("gate.is_cp", v, v, result, x[2], {"ineq": v})

    hs.function(Q.gate_mod, "is_tp", post=post_fn_tp)
    hs.function(Q.gate_mod, "is_cp", post=post_fn_cp)
    return hs, J


# ---------------------------------------------------------------- workload

DELTA_REL = [0.0, 0.01, 0.1, 10.0, 100.0, 1e4]
DELTA_ABS = [1e-3, 0.1, 1.0]


def pick_delta(rng, atol):
    if rng.random() < 0.7:
        return float(rng.choice(DELTA_REL)) * atol
    return float(rng.choice(DELTA_ABS))


def kernel_vec(C, rng):
    """unit vector (numerically) in the kernel of PSD C; None if full rank"""
    w, v = np.linalg.eigh(C)
    idx = np.where(w < 1e-12)[0]
    if len(idx) == 0:
        return None
    c = rng.standard_normal(len(idx)) + 1j * rng.standard_normal(len(idx))
    x = v[:, idx] @ c
    return x / np.linalg.norm(x)


def build_ops(t, d, m, rng, bkind, viol, delta):
    """operators of a (possibly violated) object; returns dict"""
    if t == "State":
        if bkind == "pure":
            rho = ref.rand_density(d, rng, 1)
        elif bkind == "rankdef":
            rho = ref.rand_density(d, rng, max(1, d - 1))
        elif bkind == "mixed":
            rho = np.eye(d, dtype=complex) / d
        else:
            rho = ref.rand_density(d, rng)
        if viol in ("eq", "both"):
            rho = rho + (delta if rng.random() < 0.5 else -delta) * np.eye(d) / d
        if viol in ("ineq", "both"):
            w, v = np.linalg.eigh(rho)
            s = w[0] + delta
            rho = rho - s * np.outer(v[:, 0], v[:, 0].conj()) + s * np.outer(v[:, -1], v[:, -1].conj())
        return {"rho": rho}
    if t == "Povm":
        if bkind == "projective":
            u = ref.rand_unitary(d, rng)
            groups = np.array_split(np.arange(d), min(m, d))
            ms = [sum(np.outer(u[:, i], u[:, i].conj()) for i in g) for g in groups]
            while len(ms) < m:
                ms.append(np.zeros((d, d), dtype=complex))
        elif bkind == "rank1":
            ms = ref.rand_povm(d, max(m, d), rng, 1)
        else:
            ms = ref.rand_povm(d, m, rng)
        ms = [np.array(x, dtype=complex) for x in ms]
        if viol in ("eq", "both"):
            if rng.random() < 0.5:
                ms[0] = ms[0] + delta * np.eye(d)
            else:
                e = np.zeros((d, d), dtype=complex)
                e[0, 1] = e[1, 0] = 1
                ms[0] = ms[0] + delta * e
        if viol in ("ineq", "both"):
            w, v = np.linalg.eigh(ms[0])
            s = w[0] + delta
            P = np.outer(v[:, 0], v[:, 0].conj())
            ms[0] = ms[0] - s * P
            ms[1] = ms[1] + s * P
        return {"ms": ms}
    # Gate / MProcess as lists of maps
    if t == "Gate":
        if bkind == "unitary":
            sets = [[ref.rand_unitary(d, rng)]]
        elif bkind == "depol":
            p = 1.0
            sets = [[np.sqrt(1.0 / d) * e for e in ref.matrix_units(d)]]  # completely depolarising
        else:
            sets = [ref.rand_kraus(d, int(rng.integers(1, 4)), rng)]
    else:
        if bkind == "projective":
            u = ref.rand_unitary(d, rng)
            groups = np.array_split(np.arange(d), min(m, d))
            sets = [[sum(np.outer(u[:, i], u[:, i].conj()) for i in g)] for g in groups]
            while len(sets) < m:
                sets.append([np.zeros((d, d), dtype=complex)])
        else:
            sets = ref.rand_instrument(d, m, rng, [int(rng.integers(1, 3)) for _ in range(m)])
    fns = [ref.kraus_map(ks) for ks in sets]
    extra = []
    if viol in ("eq", "both"):
        if rng.random() < 0.5:
            extra.append(lambda X, dl=delta: dl * np.trace(X) * np.eye(d) / d)
        else:
            S = ref.rand_herm(d, rng)
            S = S - np.trace(S) * np.eye(d) / d
            S = S / max(1e-12, np.linalg.norm(S, 2))
            extra.append(lambda X, dl=delta, S=S: dl * np.trace(S @ X) * np.eye(d) / d)
    if viol in ("ineq", "both"):
        C = ref.choi_of_map(fns[0], d)
        kv = kernel_vec(C, rng)
        if kv is not None:
            W = kv.reshape(d, d)
            WW = ref.dag(W) @ W
            extra.append(lambda X, dl=delta, W=W, WW=WW: -dl * (W @ X @ ref.dag(W)) + dl * np.trace(WW @ X) * np.eye(d) / d)
    if extra:
        f0 = fns[0]
        fns[0] = lambda X, f0=f0, extra=tuple(extra): f0(X) + sum(e(X) for e in extra)
    return {"fns": fns}


BKINDS = {"State": ["random", "pure", "rankdef", "mixed"], "Povm": ["random", "projective", "rank1"],
          "Gate": ["random", "unitary", "depol"], "MProcess": ["random", "projective"]}


# ---------------------------------------------------------------- history / combination steps

# sibling composite system of a shard: same dimensions, another basis; the pairs cover identity-first -> not,
# not -> identity-first, and two different bases of the same class (MProcess needs identity-first orthonormal bases)
SIBLING = {"std": "nherm", "nggm": "std", "unnorm": "std", "rot": "nggm", "nherm": "rot"}
SIBLING_MPROCESS = {"std": "nggm", "nggm": "std"}

# public methods that must not change what an object denotes (called between two queries of the same object)
OTHER_CALLS = {
    "*": [("to_var", lambda o: o.to_var()), ("to_stacked_vector", lambda o: o.to_stacked_vector()),
          ("calc_proj_eq_constraint", lambda o: o.calc_proj_eq_constraint()),
          ("calc_proj_ineq_constraint", lambda o: o.calc_proj_ineq_constraint()),
          ("copy", lambda o: o.copy()), ("mul", lambda o: o * 0.5), ("rmul", lambda o: 2.0 * o), ("add", lambda o: o + o),
          ("sub", lambda o: o - o), ("truediv", lambda o: o / 2.0), ("generate_zero_obj", lambda o: o.generate_zero_obj()),
          ("generate_origin_obj", lambda o: o.generate_origin_obj()), ("calc_gradient", lambda o: o.calc_gradient(0))],
    "State": [("to_density_matrix", lambda o: o.to_density_matrix()),
              ("to_density_matrix_with_sparsity", lambda o: o.to_density_matrix_with_sparsity()),
              ("calc_eigenvalues", lambda o: o.calc_eigenvalues()), ("is_hermitian", lambda o: o.is_hermitian())],
    "Povm": [("matrices", lambda o: o.matrices()), ("matrices_with_sparsity", lambda o: o.matrices_with_sparsity()),
             ("calc_eigenvalues", lambda o: o.calc_eigenvalues()), ("is_hermitian", lambda o: o.is_hermitian()),
             ("matrix", lambda o: o.matrix(0)), ("vec", lambda o: o.vec(0))],
    "Gate": [("to_choi_matrix_with_sparsity", lambda o: o.to_choi_matrix_with_sparsity()),
             ("to_kraus_matrices", lambda o: o.to_kraus_matrices()), ("convert_to_comp_basis", lambda o: o.convert_to_comp_basis()),
             ("get_basis", lambda o: o.get_basis())],
    "MProcess": [("to_choi_matrix_with_sparsity", lambda o: o.to_choi_matrix_with_sparsity(0)), ("hs", lambda o: o.hs(0)),
                 ("to_povm", lambda o: o.to_povm()), ("convert_to_comp_basis", lambda o: o.convert_to_comp_basis())],
}


class _Step:
    def __init__(self, J, name):
        self.J, self.name = J, name

    def __enter__(self):
        self.prev = self.J.step
        self.J.step = self.name

    def __exit__(self, *a):
        self.J.step = self.prev


class History:
    """History / combination steps of one shard (see the module docstring). Nothing here is an oracle of its own
    except: exceptions of verdict calls, monotonicity inside the second ladder, the origin / zero oracles of the first
    pass applied to derived objects, and the constructor oracle of the first pass applied with non-default options."""

    def __init__(self, ctx, hs, J, t, shape, bk, c_sys, default_atol):
        Q = gen.q()
        import quara.utils.matrix_util as mutil

        self.ctx, self.hs, self.J, self.t, self.shape, self.bk = ctx, hs, J, t, shape, bk
        self.Q, self.mutil, self.cls = Q, mutil, getattr(Q, t)
        self.c_sys, self.default_atol = c_sys, default_atol
        self.d = c_sys.dim
        self.big = shape in ("S2", "S23") and t in ("Gate", "MProcess")
        # generic-basis TP verdict on qubit x qutrit: 0.1 s per call
        self.slow = shape == "S23" and t == "Gate" and not bool(c_sys.is_orthonormal_hermitian_0thprop_identity)
        self.sib_kind = (SIBLING_MPROCESS if t == "MProcess" else SIBLING)[bk]
        self.sib = gen.make_csys(gen.SHAPES[shape], kind=self.sib_kind)
        J.cp_flag[id(c_sys)] = (c_sys, bk != "unnorm")
        J.cp_flag[id(self.sib)] = (self.sib, self.sib_kind != "unnorm")
        self.B = {id(c_sys): gen.basis_of(c_sys), id(self.sib): gen.basis_of(self.sib)}
        self.other_calls = OTHER_CALLS["*"] + OTHER_CALLS[t]
        # caller-owned arrays, one per shard, refilled for every call
        self.buf_hs = np.zeros((self.d ** 2, self.d ** 2), dtype=np.float64)
        self.buf_m = np.zeros((self.d, self.d), dtype=np.complex128)
        # veterans: built once per shard from the shard-level stream (no case is current here, so a replayed case
        # rebuilds the same two objects), kept alive and asked in every case
        rv = ctx.rng(7)
        self.veterans = []
        for bkind, viol, delta in ((BKINDS[t][1], "none", 0.0), ("random", "both", 3e-7)):
            built = self.build(rv, c_sys, 3, bkind, viol, delta, {})
            if built is not None:
                self.veterans.append(built)

    def step(self, name):
        return _Step(self.J, name)

    # ------------------------------------------------------------ producing objects (never judged)
    def produce(self, what, fn, *a, **kw):
        """an operation that only PRODUCES an object / a state for a history step (copy, set_zero, generate_from_var,
        +, pickle ...): not judged here (C02 / C03 / C13 judge those); when it raises the step is skipped and counted"""
        ok, v = self.ctx.attempt(fn, *a, **kw)
        if not ok:
            self.ctx.count(f"history:step-unavailable:{what}:{type(v).__name__}")
            return False, None
        return True, v

    def raw_of(self, cs, ops):
        B = self.B[id(cs)]
        t = self.t
        if t == "State":
            return gen.real_coeffs(B, ops["rho"])
        if t == "Povm":
            return [gen.real_coeffs(B, x) for x in ops["ms"]]
        if t == "Gate":
            return gen.hs_real(B, ops["fns"][0])
        return [gen.hs_real(B, f) for f in ops["fns"]]

    def build(self, rng, cs, m, bkind, viol, delta, opts):
        ops = build_ops(self.t, self.d, m, rng, bkind, viol, delta)
        raw = self.raw_of(cs, ops)
        ok, o = self.ctx.attempt(self.cls, cs, raw, is_physicality_required=False, **opts)
        if not ok:
            self.ctx.violation(f"{self.t}.ctor:" + self.ctx.exc_key(o) + self.J.sfx(), {"basis": self.bk, "options": sorted(opts)})
            return None
        return o, ops, raw

    def draw(self, rng, cs, m, opts, exact_m=False):
        kinds = BKINDS[self.t]
        if exact_m and self.t == "Povm" and m < self.d:
            kinds = [k for k in kinds if k != "rank1"]  # rank1 has max(m, d) elements; sums need equal numbers
        bkind = str(rng.choice(kinds))
        viol = str(rng.choice(["none", "none", "eq", "ineq", "both"]))
        delta = pick_delta(rng, float(rng.choice(ATOLS))) if viol != "none" else 0.0
        return self.build(rng, cs, m, bkind, viol, delta, opts)

    def options(self, rng, m):
        """non-default values of the constructor options (none of them enters the definition of physicality)"""
        o = {}
        for name, val, p in (("on_para_eq_constraint", False, 0.6), ("is_estimation_object", False, 0.5),
                             ("on_algo_eq_constraint", False, 0.4), ("on_algo_ineq_constraint", False, 0.4),
                             ("mode_proj_order", "ineq_eq", 0.5), ("eps_proj_physical", 1e-6, 0.5),
                             ("eps_truncate_imaginary_part", 1e-7, 0.5)):
            if rng.random() < p:
                o[name] = val
        if self.t == "MProcess":
            if m == 4 and rng.random() < 0.7:
                o["shape"] = (2, 2)
            elif rng.random() < 0.4:
                o["shape"] = (m, 1)
            if rng.random() < 0.5:
                o["mode_sampling"] = True
                o["random_seed_or_generator"] = 5
            if rng.random() < 0.5:
                o["eps_zero"] = 1e-6
        if not o:
            o["on_para_eq_constraint"] = False
        return o

    # ------------------------------------------------------------ asking (the hooks judge)
    def ask(self, o, a, a2, mode=0):
        """verdicts of one object, judged by the hooks; an exception is a violation.
        mode 0: is_physical(a, a2) positional; 1: is_physical by keyword (reversed); 2: inequality then equality verdict;
        3: equality (keyword) then inequality (positional); 4: all three; 5: inequality, is_physical by keyword"""
        ctx, t = self.ctx, self.t
        calls = {
            "phys": lambda: o.is_physical(a, a2),
            "physkw": lambda: o.is_physical(atol_ineq_const=a2, atol_eq_const=a),
            "eq": lambda: o.is_eq_constraint_satisfied(a),
            "eqkw": lambda: o.is_eq_constraint_satisfied(atol=a),
            "ineq": lambda: o.is_ineq_constraint_satisfied(a),
            "ineqkw": lambda: o.is_ineq_constraint_satisfied(atol=a),
        }
        got = {}
        for nm in (("phys",), ("physkw",), ("ineqkw", "eq"), ("eqkw", "ineq"), ("ineqkw", "physkw", "eq"), ("ineqkw", "physkw"))[mode]:
            ok, v = ctx.attempt(calls[nm])
            if not ok:
                ctx.violation(f"{t}.verdict:" + ctx.exc_key(v) + self.J.sfx(), {"basis": self.bk, "fn": nm, "step": self.J.step})
                got[nm.replace("kw", "")] = None
            else:
                got[nm.replace("kw", "")] = bool(v)
        return got

    def ask_default(self, o, which=("phys",)):
        """default-argument path (global tolerance read at call time)"""
        ctx, t = self.ctx, self.t
        for nm in which:
            call = {"ineq": o.is_ineq_constraint_satisfied, "phys": o.is_physical, "eq": o.is_eq_constraint_satisfied}[nm]
            ok, v = ctx.attempt(call)
            if not ok:
                ctx.violation(f"{t}.verdict:" + ctx.exc_key(v) + self.J.sfx(), {"basis": self.bk, "fn": nm, "step": self.J.step})

    def derived(self, o, depth=1):
        """origin / zero objects derived from o (identity-first orthonormal bases only: documented assumption):
        the first pass' two oracles, then the library's own verdicts of those objects (hooks)"""
        cs = o.composite_system
        if not (bool(cs.is_orthonormal_hermitian_0thprop_identity) and self.J.cp_judged(cs)):
            return
        ctx, t, J = self.ctx, self.t, self.J
        with self.hs.paused():
            ok4, org = ctx.attempt(o.generate_origin_obj)
            ok5, zer = ctx.attempt(o.generate_zero_obj)
        if ok4:
            so = J.sizes(org)
            ctx.num(f"{t}.origin-physical", max(so[1], so[2]), 1e-12, 1e-9, key=f"{t}.origin:not-physical{J.sfx()}", info={"sizes": list(so), "step": J.step})
            self.ask_default(org)
        else:
            ctx.violation(f"{t}.origin:" + ctx.exc_key(org) + J.sfx(), {"step": J.step})
        if ok5:
            rp = gen.raw_params(zer)
            z = np.hstack([np.ravel(r) for r in (rp if isinstance(rp, list) else [rp])])
            ctx.num(f"{t}.zero-is-zero", float(np.max(np.abs(z))) if z.size else 0.0, 0.0, 1e-300, key=f"{t}.zero:not-zero{J.sfx()}")
            self.ask(zer, 1e-5, 1e-8, mode=3)
        else:
            ctx.violation(f"{t}.zero:" + ctx.exc_key(zer) + J.sfx(), {"step": J.step})
        if depth > 0 and ok4 and ok5:
            # origin of the zero object, zero of the origin object
            self.derived(zer if depth % 2 else org, depth - 1)

    def judge_ctor(self, probe, sizes, a, ok3, val, orthonormal):
        """constructor with physicality required: succeeds exactly for physical objects (oracle of the first pass)"""
        ctx, t, J = self.ctx, self.t, self.J
        eq_lo, eq_hi, ineq = sizes
        z1 = zone(eq_lo, eq_hi, a)
        z2 = zone(ineq, ineq, a) if orthonormal else "free"
        info = {"atol": a, "sizes": list(sizes), "raised": None if ok3 else type(val).__name__, "step": J.step}
        if z1 == "accept" and z2 == "accept":
            ctx.truth(f"{t}.ctor-required", ok3, key=f"{t}.ctor:rejects-physical{J.sfx()}", info=info)
        elif z1 == "reject" or z2 == "reject":
            cls_key = "accepts-violation"
            if z1 == "reject" and z2 != "reject":
                cls_key = J.slack_class(probe, "eq", eq_lo, eq_hi, a)
            if ok3:
                ctx.truth(f"{t}.ctor-required", False, key=f"{t}.ctor:{cls_key}{J.sfx(cls_key)}", info=info)
            else:
                ctx.truth(f"{t}.ctor-required", isinstance(val, ValueError),
                          key=f"{t}.ctor:raises-{type(val).__name__}-not-ValueError{J.sfx()}", info=info)
        else:
            ctx.skip(f"{t}.ctor-required")

    def call_fn(self, label, fn, *a, **kw):
        ok, v = self.ctx.attempt(fn, *a, **kw)
        if not ok:
            self.ctx.violation(f"{label}:" + self.ctx.exc_key(v) + self.J.sfx(), {"basis": self.bk, "step": self.J.step})

    def delete_tables(self, cs):
        """the documented memory-saving calls of CompositeSystem ('If you use X again, call X again')"""
        names = ["delete_basis_T_sparse", "delete_basisconjugate_sparse"]
        if self.t in ("Gate", "MProcess"):
            names += ["delete_basis_basisconjugate_T_sparse", "delete_basisconjugate_basis_sparse",
                      "delete_basis_basisconjugate_T_sparse_from_1", "delete_basishermitian_basis_T_from_1",
                      "delete_dict_from_hs_to_choi", "delete_dict_from_choi_to_hs"]
        for n in names:
            f = getattr(cs, n, None)
            if f is not None:
                self.produce(n, f)

    # ------------------------------------------------------------ one case
    def run(self, i, obj, ops, a_first, req_obj):
        """history steps of one case. Cost control: the re-query, one veteran and the caller-array step run in every
        case, the other steps in one case of four (groups A-D by case index); on the two-subsystem gate /
        measurement-process shards (12 cases; a generic-basis TP verdict costs 0.1 s there) every step asks one
        verdict only ('lean')."""
        from quara.settings import Settings

        ctx, J, t, Q = self.ctx, self.J, self.t, self.Q
        rng = ctx.rng(1)
        grp = i % 4
        lean = self.big
        atols = [float(x) for x in rng.permutation(ATOLS)]
        m_obj = len(ops["ms"]) if t == "Povm" else (len(ops["fns"]) if t == "MProcess" else 0)
        ctx.count("history:cases")

        # (a) other public calls on the same object, then its verdicts again: descending tolerances, inequality before
        #     equality, is_physical with two different tolerances by keyword
        with self.step("second-call"):
            for k in rng.permutation(len(self.other_calls))[:3]:
                name, fn = self.other_calls[int(k)]
                self.produce("other-call:" + name, fn, obj)
            seen_false = {"eq": False, "ineq": False}
            for n, a in enumerate(sorted(atols[:1 if lean else 2], reverse=True)):
                got = self.ask(obj, a, atols[3], mode=5 if (lean or (n == 1 and i % 2)) else 2)
                for nm in ("eq", "ineq"):
                    if got.get(nm) is None:
                        continue
                    ctx.truth(f"{t}.monotone-in-atol", not (got[nm] and seen_false[nm]),
                              key=f"{t}.{nm}:true-turns-false-when-atol-grows:second-call", info={"atol": a})
                    if not got[nm]:
                        seen_false[nm] = True

        # (c) a veteran of the shard, between the queries of this case's objects
        vet = self.veterans[(i // 2 if self.slow else i) % len(self.veterans)] if self.veterans else None
        V = vet[0] if vet else None
        if V is not None and not (self.slow and i % 2):
            with self.step("re-used-object"):
                self.ask(V, atols[i % 5], atols[(i + 1) % 5], mode=(i // 2) % 2 if lean else (i // 2) % 4)

        if grp == 0:
            # (a) two more windows of the global setting on the same object (and the veteran)
            with self.step("second-setting"):
                try:
                    for n, b in enumerate([x for x in atols if x != a_first][:2]):
                        Settings.set_atol(b)
                        self.ask_default(obj, (("phys",) if n == 0 else ("eq",)) if lean else (("phys", "ineq") if n == 0 else ("eq", "phys")))
                        if V is not None and n == 1 and not lean:
                            self.ask_default(V)
                finally:
                    Settings.set_atol(self.default_atol)
            # an object BUILT with physicality required inside a loose window of the global tolerance (violation below
            # loose/10, so the constructor has to accept it and the default verdict is true), then the global tolerance
            # is tightened far below the violation: the default-argument verdicts read the tolerance at call time
            with self.step("ctor-required-then-setting-tightened"):
                loose = float(rng.choice([1e-3, 1e-5, 1e-7]))
                tight = loose * 1e-4
                try:
                    Settings.set_atol(loose)
                    ops2 = build_ops(t, self.d, m_obj or 3, rng, str(rng.choice(BKINDS[t])), str(rng.choice(["eq", "ineq", "both"])), loose / 30)
                    ok, o2 = ctx.attempt(self.cls, self.c_sys, self.raw_of(self.c_sys, ops2), is_physicality_required=True)
                    if ok:
                        self.ask_default(o2, ("phys",))
                        Settings.set_atol(tight)
                        self.ask_default(o2, ("phys",) if lean else ("phys", "ineq", "eq"))
                        Settings.set_atol(loose)
                        self.ask_default(o2, ("phys",))
                        ctx.count("history:ctor-required-then-setting-tightened")
                    else:
                        ctx.count(f"history:step-unavailable:ctor-required-in-loose-window:{type(o2).__name__}")
                finally:
                    Settings.set_atol(self.default_atol)
            # setters that have nothing to do with physicality, between two queries of the same object
            with self.step("after-setter"):
                mpo, eti = obj.mode_proj_order, obj.eps_truncate_imaginary_part
                self.produce("set_mode_proj_order", obj.set_mode_proj_order, "ineq_eq" if mpo == "eq_ineq" else "eq_ineq")
                self.produce("eps_truncate_imaginary_part", setattr, obj, "eps_truncate_imaginary_part", 1e-9)
                if t == "MProcess":
                    self.produce("set_mode_sampling", obj.set_mode_sampling, True, 7)
                self.ask(obj, atols[1], atols[4], mode=1)
                self.produce("set_mode_proj_order", obj.set_mode_proj_order, mpo)
                self.produce("eps_truncate_imaginary_part", setattr, obj, "eps_truncate_imaginary_part", eti)
                if t == "MProcess":
                    self.produce("set_mode_sampling", obj.set_mode_sampling, False)

        if grp == 1:
            # (b) copy() or the object the constructor returned with physicality required: asked, set_zero(), asked
            #     again, its copy asked; origin / zero objects of both stages
            src, name = None, "via-copy"
            if req_obj is not None and rng.random() < 0.5:
                src, name = req_obj, "ctor-required-object"
            else:
                ok, src = self.produce("copy", obj.copy)
            if src is not None:
                with self.step(name):
                    self.ask(src, atols[0], atols[1], mode=0)
                    self.derived(src, depth=0)
                ok, _ = self.produce("set_zero", src.set_zero)
                if ok:
                    with self.step("after-set_zero"):
                        self.ask(src, atols[0], atols[1], mode=0)
                        if not lean:
                            self.ask(src, atols[2], atols[2], mode=3)
                        ok, c2 = self.produce("copy", src.copy)
                        if ok:
                            self.ask(c2, atols[1], atols[0], mode=1)
                        self.derived(src, depth=0 if lean else (i // 4) % 2)

        pm = None
        if grp == 2:
            # (b) objects returned by earlier library calls
            ok, g = self.produce("generate_from_var", lambda: obj.generate_from_var(obj.to_var()))
            if ok:
                with self.step("via-generate_from_var"):
                    self.ask(g, atols[2], atols[0], mode=1)
            pm = self.draw(rng, self.c_sys, m_obj, {}, exact_m=True)
            if pm is not None:
                w = float(rng.uniform(0.2, 0.8))
                ok, r = self.produce("arithmetic", lambda: obj * w + (1.0 - w) * pm[0])
                with self.step("via-arithmetic"):
                    if not lean:
                        self.ask(pm[0], atols[3], atols[1], mode=0)
                    if ok:
                        self.ask(r, atols[3], atols[1], mode=5 if not lean else 0)
                        if not lean:
                            self.ask(obj, atols[3], atols[1], mode=1)
            if self.d == 2 or (self.d == 3 and (t in ("State", "Povm") or i % 8 == 2)):
                ok, pk = self.produce("pickle", lambda: pickle.loads(pickle.dumps(obj)))
                if ok:
                    pcs = pk.composite_system
                    J.cp_flag[id(pcs)] = (pcs, J.cp_judged(self.c_sys))
                    with self.step("via-pickle"):
                        self.ask(pk, atols[4], atols[2], mode=5)
                    J.cp_flag.pop(id(pcs), None)

        # (c)+(d) partner with non-default constructor options on the sibling composite system (same dimensions,
        #     other basis), asked interleaved with this case's object; constructor with physicality required
        ps = None
        if grp == 3:
            m2 = int(rng.integers(2, 6)) if t in ("Povm", "MProcess") else 0
            opts = self.options(rng, m2)
            with self.step("sibling-system"):
                ps = self.draw(rng, self.sib, m2, opts)
                if ps is not None:
                    a = atols[0]
                    if not lean:
                        self.ask(ps[0], a, atols[2], mode=2)
                        self.ask(obj, a, a, mode=0)
                    self.ask(ps[0], a, atols[2], mode=1)
                    if not lean:
                        self.derived(ps[0], depth=(i // 4) % 2)
                    b = atols[3]
                    try:
                        Settings.set_atol(b)
                        ok3, val = ctx.attempt(self.cls, self.sib, ps[2], is_physicality_required=True, **opts)
                        self.judge_ctor(ps[0], J.sizes(ps[0]), b, ok3, val, self.sib_kind != "unnorm")
                        if ok3 and not lean:
                            self.ask_default(val)
                    finally:
                        Settings.set_atol(self.default_atol)

        # documented table deletion on the composite systems, then the same objects again
        every = {"S1": 4, "S3": 8}.get(self.shape, 0) if t in ("Gate", "MProcess") else 4
        if (every and i % every == 3) or (not every and i == 3 and (self.shape == "S2" or ctx.tier == "thorough")):
            with self.step("tables-deleted"):
                self.delete_tables(self.c_sys)
                self.ask(obj, atols[0], atols[2], mode=0 if lean else 3)
                if V is not None:
                    self.ask(V, atols[1], atols[1], mode=0)
                if ps is not None and not self.big:
                    self.delete_tables(self.sib)
                    self.ask(ps[0], atols[0], atols[2], mode=0)

        # (c) module-level verdict functions on ONE caller-owned array per shard, refilled for every call
        with self.step("caller-array-reused"):
            jobs = [(self.c_sys, obj, ops)] + ([(self.c_sys, pm[0], pm[1])] if pm else []) + ([(self.sib, ps[0], ps[1])] if ps else [])
            if lean:
                jobs = jobs[-1:]
            if len(jobs) == 1 and vet is not None:
                jobs.append((self.c_sys, vet[0], vet[1]))  # at least two contents per case (a replayed case shows it too)
            a = atols[2]  # one tolerance per case: only the array's contents change between the calls
            for k, (cs, o, oo) in enumerate(jobs):
                if t in ("Gate", "MProcess"):
                    np.copyto(self.buf_hs, o.hs if t == "Gate" else o.hss[(i + k) % len(o.hss)])
                    self.call_fn("gate.is_cp", Q.gate_mod.is_cp, cs, self.buf_hs, atol=a)
                    if not (self.slow and (i + k) % 2 == 0):
                        self.call_fn("gate.is_tp", Q.gate_mod.is_tp, cs, self.buf_hs, a)
                else:
                    mats = [oo["rho"]] if t == "State" else oo["ms"]
                    np.copyto(self.buf_m, mats[(i + k) % len(mats)])
                    self.call_fn("matrix_util.is_positive_semidefinite", self.mutil.is_positive_semidefinite, self.buf_m, a)
                    self.call_fn("matrix_util.is_hermitian", self.mutil.is_hermitian, self.buf_m, atol=a)


def run_shard(ctx):
    from quara.settings import Settings

    p = ctx.params
    t, shape, kind = p["type"], p["shape"], p["kind"]
    dims = gen.SHAPES[shape]
    bk = kind
    if kind == "alt":
        bk = "nggm"
    Q = gen.q()

    if p.get("reject_basis"):
        c_sys = gen.make_csys(dims, kind=bk)
        for i in ctx.cases(p["n"]):
            rng = ctx.rng()
            d = c_sys.dim
            hss = [np.eye(d * d) * 0.5, np.eye(d * d) * 0.5]
            ok, val = ctx.attempt(Q.MProcess, c_sys, hss, is_physicality_required=False)
            ctx.truth("MProcess.ctor:non-standard-basis-raises", (not ok) and isinstance(val, ValueError),
                      key="MProcess.ctor:accepts-non-standard-basis", info={"basis": kind})
            ctx.nontrivial("rejbasis", kind, i)
        return

    hs, J = install(ctx)
    c_sys = gen.make_csys(dims, kind=bk)
    B = gen.basis_of(c_sys)
    d = c_sys.dim
    orthonormal = bk != "unnorm"
    identity_first = bool(c_sys.is_orthonormal_hermitian_0thprop_identity)
    J.meta["cp_judged"] = orthonormal
    cls = getattr(Q, t)
    default_atol = Settings.get_atol()
    hist = History(ctx, hs, J, t, shape, bk, c_sys, default_atol)
    try:
        for i in ctx.cases(p["n"]):
            rng = ctx.rng()
            m = int(rng.integers(2, 6)) if t in ("Povm", "MProcess") else 0
            bkind = str(rng.choice(BKINDS[t]))
            viol = str(rng.choice(["none", "none", "eq", "ineq", "both"]))
            base_atol = float(rng.choice(ATOLS))
            delta = pick_delta(rng, base_atol) if viol != "none" else 0.0
            ops = build_ops(t, d, m, rng, bkind, viol, delta)
            # raw parameters
            if t == "State":
                raw = gen.real_coeffs(B, ops["rho"])
                args = (raw,)
            elif t == "Povm":
                raw = [gen.real_coeffs(B, x) for x in ops["ms"]]
                args = (raw,)
            elif t == "Gate":
                raw = gen.hs_real(B, ops["fns"][0])
                args = (raw,)
            else:
                raw = [gen.hs_real(B, f) for f in ops["fns"]]
                args = (raw,)
            ok, obj = ctx.attempt(cls, c_sys, *args, is_physicality_required=False)
            if not ok:
                ctx.violation(f"{t}.ctor:" + ctx.exc_key(obj), {"basis": kind, "shape": shape})
                continue
            sizes = J.sizes(obj)
            ctx.nontrivial(t, shape, kind, bkind, viol, np.hstack([np.ravel(r) for r in (raw if isinstance(raw, list) else [raw])]))
            if i < 2:
                ctx.sample({"type": t, "shape": shape, "basis": kind, "object_kind": bkind, "violated": viol, "delta": delta,
                            "ref_violation_eq_lo_hi_ineq": list(sizes), "atol_ladder": ATOLS})
            # --- ladder, explicit tolerances; monotonicity
            prev = {"eq": False, "ineq": False, "phys": False}
            for a in ATOLS:
                got = {}
                for nm, call in (("eq", lambda: obj.is_eq_constraint_satisfied(a)),
                                 ("ineq", lambda: obj.is_ineq_constraint_satisfied(a)),
                                 ("phys", lambda: obj.is_physical(a, a))):
                    ok2, v = ctx.attempt(call)
                    if not ok2:
                        ctx.violation(f"{t}.verdict:" + ctx.exc_key(v), {"basis": kind, "fn": nm})
                        got[nm] = None
                    else:
                        got[nm] = bool(v)
                for nm in got:
                    if got[nm] is None:
                        continue
                    ctx.truth(f"{t}.monotone-in-atol", not (prev[nm] and not got[nm]),
                              key=f"{t}.{nm}:true-turns-false-when-atol-grows", info={"atol": a, "sizes": list(sizes)})
                    prev[nm] = got[nm]
            # --- same through the global setting (restored), incl. default-argument path
            a = float(rng.choice(ATOLS))
            req_obj = None
            try:
                Settings.set_atol(a)
                ctx.attempt(obj.is_physical)
                ctx.attempt(obj.is_eq_constraint_satisfied)
                ctx.attempt(obj.is_ineq_constraint_satisfied)
                # constructor with physicality required: succeeds exactly for physical objects
                eq_lo, eq_hi, ineq = sizes
                z1 = zone(eq_lo, eq_hi, a)
                z2 = zone(ineq, ineq, a) if orthonormal else "free"
                ok3, val = ctx.attempt(cls, c_sys, *args, is_physicality_required=True)
                req_obj = val if ok3 else None
                info = {"atol": a, "sizes": list(sizes), "raised": None if ok3 else type(val).__name__}
                if z1 == "accept" and z2 == "accept":
                    ctx.truth(f"{t}.ctor-required", ok3, key=f"{t}.ctor:rejects-physical", info=info)
                elif z1 == "reject" or z2 == "reject":
                    cls_key = "accepts-violation"
                    if z1 == "reject" and z2 != "reject":
                        cls_key = J.slack_class(obj, "eq", eq_lo, eq_hi, a)
                    if ok3:
                        ctx.truth(f"{t}.ctor-required", False, key=f"{t}.ctor:{cls_key}", info=info)
                    else:
                        ctx.truth(f"{t}.ctor-required", isinstance(val, ValueError),
                                  key=f"{t}.ctor:raises-{type(val).__name__}-not-ValueError", info=info)
                else:
                    ctx.skip(f"{t}.ctor-required")
            finally:
                Settings.set_atol(default_atol)
            # --- origin / zero objects (identity-first orthonormal bases only: documented assumption)
            if identity_first and orthonormal:
                with hs.paused():
                    ok4, org = ctx.attempt(obj.generate_origin_obj)
                    ok5, zer = ctx.attempt(obj.generate_zero_obj)
                if ok4:
                    so = J.sizes(org)
                    ctx.num(f"{t}.origin-physical", max(so[1], so[2]), 1e-12, 1e-9, key=f"{t}.origin:not-physical", info={"sizes": list(so)})
                else:
                    ctx.violation(f"{t}.origin:" + ctx.exc_key(org), {})
                if ok5:
                    z = np.hstack([np.ravel(r) for r in (gen.raw_params(zer) if isinstance(gen.raw_params(zer), list) else [gen.raw_params(zer)])])
                    ctx.num(f"{t}.zero-is-zero", float(np.max(np.abs(z))) if z.size else 0.0, 0.0, 1e-300, key=f"{t}.zero:not-zero")
                else:
                    ctx.violation(f"{t}.zero:" + ctx.exc_key(zer), {})
            # --- history / combination steps on the same objects (own RNG stream)
            hist.run(i, obj, ops, a, req_obj)
    finally:
        Settings.set_atol(default_atol)
        hs.uninstall()
    ctx.extra["hook_counts"] = hs.counts
    hs.require([f"{t}.is_physical", f"{t}.is_eq_constraint_satisfied", f"{t}.is_ineq_constraint_satisfied"])
