"""C01  Physicality verdicts match the mathematical definitions.

Contracts on every verdict function of State / Povm / Gate / MProcess (and the
matrix_util helpers): the post-condition recomputes the violation sizes of the
denoted operators with the reference model and applies the three-zone rule
(must accept <= atol/10, must reject >= 10 atol, free in between).
"""
import numpy as np

from qv import gen, ref
from qv.monitor import HookSet

ID = "C01"
RULE = ("objects of 4 types x shapes S1,S3,S2,S23 x bases (std, other orthonormal identity-first, unnormalised, "
        "Hermitian identity-not-first) generated physical / boundary (pure, rank-deficient, projective, unitary) / "
        "non-physical with one violated constraint of size delta in {0.01,0.1,10,100,1e4}*atol and {1e-3,0.1,1}; every "
        "verdict function evaluated on an atol ladder 1e-13..1e-2 (explicit and via Settings); a case is distinct by "
        "(type,shape,basis,kind,rounded parameters,atol) and non-trivial when the object is boundary or non-physical "
        "or the tolerance is not the default")
ATOLS = [1e-13, 1e-10, 1e-8, 1e-5, 1e-2]
ANCHORS = [
    "quara/objects/state.py:State.is_trace_one", "quara/objects/state.py:State.is_positive_semidefinite",
    "quara/objects/povm.py:Povm.is_identity_sum", "quara/objects/povm.py:Povm.is_positive_semidefinite",
    "quara/objects/gate.py:is_tp", "quara/objects/gate.py:is_cp",
    "quara/objects/mprocess.py:MProcess.is_sum_tp", "quara/objects/mprocess.py:MProcess.is_cp",
    "quara/utils/matrix_util.py:is_positive_semidefinite", "quara/utils/matrix_util.py:is_hermitian",
]
REQUIRED_REACH = ANCHORS
MIN_EVALS = {"quick": 50000, "thorough": 500000}
WATCHDOG = {"quick": 900, "thorough": 3600}

TYPES = ["State", "Povm", "Gate", "MProcess"]
KINDS_BY_TYPE = {
    "State": ["std", "alt", "unnorm", "rot", "nherm"],
    "Povm": ["std", "alt", "unnorm", "rot", "nherm"],
    "Gate": ["std", "alt", "unnorm", "rot", "nherm"],
    "MProcess": ["std", "alt"],
}


def shards(tier, seed):
    out = []
    n = {"quick": 48, "thorough": 480}[tier]
    for t in TYPES:
        for shape in ["S1", "S3", "S2", "S23"]:
            for kind in KINDS_BY_TYPE[t]:
                big = shape in ("S2", "S23") and t in ("Gate", "MProcess")
                k = max(3, n // 4) if big else n
                out.append({"type": t, "shape": shape, "kind": kind, "n": k, "weight": (8 if big else 1) * k})
    # MProcess must reject non-standard bases at construction
    out.append({"type": "MProcess", "shape": "S1", "kind": "rot", "n": 3, "reject_basis": True, "weight": 1})
    out.append({"type": "MProcess", "shape": "S1", "kind": "unnorm", "n": 3, "reject_basis": True, "weight": 1})
    return out


# ------------------------------------------------------------------ oracle


def ref_sizes(obj):
    """(eq_lo, eq_hi, ineq) reference violation sizes of a quara object.
    eq has two candidate norms (the statement does not fix one): lo/hi."""
    B = gen.basis_of(obj.composite_system)
    t = gen.type_of(obj)
    d = obj.composite_system.dim
    if t == "State":
        v = ref.state_violations(B, obj.vec)
        return v["eq"], v["eq"], v["ineq"]
    if t == "Povm":
        ms = ref.povm_ops(B, obj.vecs)
        D = sum(ms) - np.eye(d)
        e1 = float(np.max(np.abs(D)))
        e2 = float(np.linalg.norm(D, 2))
        ineq = max(max(ref.psd_violation(m) for m in ms), max(ref.herm_violation(m) for m in ms) / 2)
        return min(e1, e2), max(e1, e2), ineq
    hs = obj.hs if t == "Gate" else sum(np.asarray(h) for h in obj.hss)
    tr = ref.tp_violation(B, hs)  # max_b |Tr E(B_b) - Tr B_b|
    D = ref.dual_identity(B, hs) - np.eye(d)
    e2 = float(np.max(np.abs(D)))
    e3 = tr / np.sqrt(d)
    eq_lo, eq_hi = min(tr, e2, e3), max(tr, e2, e3)
    if t == "Gate":
        ineq = ref.cp_violation(B, obj.hs)
    else:
        ineq = max(ref.cp_violation(B, h) for h in obj.hss)
    return eq_lo, eq_hi, ineq


def zone(lo, hi, atol):
    if hi <= atol / 10:
        return "accept"
    if lo >= 10 * atol:
        return "reject"
    return "free"


class Judge:
    def __init__(self, ctx):
        self.ctx = ctx
        self.cache = {}
        self.meta = {}  # id(obj) -> dict(kind=..., basis=...)

    def sizes(self, obj):
        k = id(obj)
        c = self.cache.get(k)
        if c is None or c[0] is not obj:
            c = (obj, ref_sizes(obj))
            if len(self.cache) > 64:
                self.cache.clear()
            self.cache[k] = c
        return c[1]

    def slack_class(self, obj, which, lo, hi, atol):
        """mechanism class of a wrongly accepted equality violation"""
        t = gen.type_of(obj)
        if which == "eq" and t in ("State", "Povm") and hi <= atol + 1.0000001e-5:
            # np.isclose / np.allclose default rtol=1e-5 relative to the reference value 1
            return "rtol-slack"
        return "accepts-violation"

    def verdict(self, label, obj, which, got, atol, cp_judged=True):
        from quara.settings import Settings

        ctx = self.ctx
        atol = Settings.get_atol() if atol is None else atol
        eq_lo, eq_hi, ineq = self.sizes(obj)
        if which == "eq":
            z = zone(eq_lo, eq_hi, atol)
        elif which == "ineq":
            if not cp_judged:
                ctx.skip(f"{label}")
                return
            z = zone(ineq, ineq, atol)
        info = {"atol": atol, "eq": [eq_lo, eq_hi], "ineq": ineq, "got": bool(got), "type": gen.type_of(obj)}
        if z == "free":
            ctx.skip(label)
            return
        want = z == "accept"
        if bool(got) == want:
            ctx.truth(label, True)
            return
        if want:
            key = f"{label}:rejects-valid"
        else:
            key = f"{label}:{self.slack_class(obj, which, eq_lo, eq_hi, atol)}"
        ctx.truth(label, False, key=key, info=info)

    def physical(self, label, obj, got, atol_eq, atol_ineq, cp_judged=True):
        from quara.settings import Settings

        ctx = self.ctx
        a1 = Settings.get_atol() if atol_eq is None else atol_eq
        a2 = Settings.get_atol() if atol_ineq is None else atol_ineq
        eq_lo, eq_hi, ineq = self.sizes(obj)
        z1 = zone(eq_lo, eq_hi, a1)
        z2 = zone(ineq, ineq, a2) if cp_judged else "free"
        info = {"atol": [a1, a2], "eq": [eq_lo, eq_hi], "ineq": ineq, "got": bool(got), "type": gen.type_of(obj)}
        if z1 == "accept" and z2 == "accept":
            ctx.truth(label, bool(got), key=f"{label}:rejects-valid", info=info)
        elif z1 == "reject" or z2 == "reject":
            if not got:
                ctx.truth(label, True)
            else:
                cls = "accepts-violation"
                if z1 == "reject" and z2 != "reject":
                    cls = self.slack_class(obj, "eq", eq_lo, eq_hi, a1)
                ctx.truth(label, False, key=f"{label}:{cls}", info=info)
        else:
            ctx.skip(label)


def install(ctx):
    Q = gen.q()
    import quara.utils.matrix_util as mutil

    hs = HookSet(ctx)
    J = Judge(ctx)

    def cpj(obj):
        # the Choi formula used by the CP test assumes an orthonormal basis
        return J.meta.get("cp_judged", True)

    def mk(which, label, atol_pos=1):
        def post(result, snap, self, *a, **kw):
            atol = kw.get("atol", a[0] if a else None)
            J.verdict(label, self, which, result, atol, cp_judged=cpj(self))
        return post

    for cls, eqname, ineqname in ((Q.State, "is_trace_one", "is_positive_semidefinite"),
                                  (Q.Povm, "is_identity_sum", "is_positive_semidefinite"),
                                  (Q.Gate, "is_tp", "is_cp"), (Q.MProcess, "is_sum_tp", "is_cp")):
        n = cls.__name__
        hs.method(cls, eqname, post=mk("eq", f"{n}.{eqname}"))
        hs.method(cls, ineqname, post=mk("ineq", f"{n}.{ineqname}"))
        hs.method(cls, "is_eq_constraint_satisfied", post=mk("eq", f"{n}.is_eq_constraint_satisfied"))
        hs.method(cls, "is_ineq_constraint_satisfied", post=mk("ineq", f"{n}.is_ineq_constraint_satisfied"))

        def post_phys(result, snap, self, *a, _n=n, **kw):
            a1 = kw.get("atol_eq_const", a[0] if len(a) > 0 else None)
            a2 = kw.get("atol_ineq_const", a[1] if len(a) > 1 else None)
            J.physical(f"{_n}.is_physical", self, result, a1, a2, cp_judged=cpj(self))

        hs.method(cls, "is_physical", post=post_phys)

    # matrix level helpers: judged directly on the matrix they are given
    def post_psd(result, snap, matrix, atol=None):
        from quara.settings import Settings

        a = Settings.get_atol() if atol is None else atol
        M = ref.dense(matrix)
        if M.ndim != 2 or M.shape[0] != M.shape[1]:
            return
        v = max(ref.psd_violation(M), ref.herm_violation(M) / 2)
        z = zone(v, max(v, ref.herm_violation(M)), a)
        if z == "free":
            ctx.skip("matrix_util.is_positive_semidefinite")
        else:
            ok = bool(result) == (z == "accept")
            ctx.truth("matrix_util.is_positive_semidefinite", ok,
                      key="matrix_util.is_positive_semidefinite:" + ("rejects-valid" if z == "accept" else "accepts-violation"),
                      info={"atol": a, "viol": v, "got": bool(result)})

    def post_herm(result, snap, matrix, atol=None):
        from quara.settings import Settings

        a = Settings.get_atol() if atol is None else atol
        M = ref.dense(matrix)
        if M.ndim != 2 or M.shape[0] != M.shape[1]:
            return
        v = ref.herm_violation(M)
        z = zone(v, v, a)
        if z == "free":
            ctx.skip("matrix_util.is_hermitian")
        else:
            ok = bool(result) == (z == "accept")
            ctx.truth("matrix_util.is_hermitian", ok,
                      key="matrix_util.is_hermitian:" + ("rejects-valid" if z == "accept" else "accepts-violation"),
                      info={"atol": a, "viol": v, "got": bool(result)})

    hs.function(mutil, "is_positive_semidefinite", post=post_psd)
    hs.function(mutil, "is_hermitian", post=post_herm)
    return hs, J


# ---------------------------------------------------------------- workload

DELTA_REL = [0.0, 0.01, 0.1, 10.0, 100.0, 1e4]
DELTA_ABS = [1e-3, 0.1, 1.0]


def pick_delta(rng, atol):
    if rng.random() < 0.7:
        return float(rng.choice(DELTA_REL)) * atol
    return float(rng.choice(DELTA_ABS))


def kernel_vec(C, rng):
    """unit vector (numerically) in the kernel of PSD C; None if full rank"""
    w, v = np.linalg.eigh(C)
    idx = np.where(w < 1e-12)[0]
    if len(idx) == 0:
        return None
    c = rng.standard_normal(len(idx)) + 1j * rng.standard_normal(len(idx))
    x = v[:, idx] @ c
    return x / np.linalg.norm(x)


def build_ops(t, d, m, rng, bkind, viol, delta):
    """operators of a (possibly violated) object; returns dict"""
    if t == "State":
        if bkind == "pure":
            rho = ref.rand_density(d, rng, 1)
        elif bkind == "rankdef":
            rho = ref.rand_density(d, rng, max(1, d - 1))
        elif bkind == "mixed":
            rho = np.eye(d, dtype=complex) / d
        else:
            rho = ref.rand_density(d, rng)
        if viol in ("eq", "both"):
            rho = rho + (delta if rng.random() < 0.5 else -delta) * np.eye(d) / d
        if viol in ("ineq", "both"):
            w, v = np.linalg.eigh(rho)
            s = w[0] + delta
            rho = rho - s * np.outer(v[:, 0], v[:, 0].conj()) + s * np.outer(v[:, -1], v[:, -1].conj())
        return {"rho": rho}
    if t == "Povm":
        if bkind == "projective":
            u = ref.rand_unitary(d, rng)
            groups = np.array_split(np.arange(d), min(m, d))
            ms = [sum(np.outer(u[:, i], u[:, i].conj()) for i in g) for g in groups]
            while len(ms) < m:
                ms.append(np.zeros((d, d), dtype=complex))
        elif bkind == "rank1":
            ms = ref.rand_povm(d, max(m, d), rng, 1)
        else:
            ms = ref.rand_povm(d, m, rng)
        ms = [np.array(x, dtype=complex) for x in ms]
        if viol in ("eq", "both"):
            if rng.random() < 0.5:
                ms[0] = ms[0] + delta * np.eye(d)
            else:
                e = np.zeros((d, d), dtype=complex)
                e[0, 1] = e[1, 0] = 1
                ms[0] = ms[0] + delta * e
        if viol in ("ineq", "both"):
            w, v = np.linalg.eigh(ms[0])
            s = w[0] + delta
            P = np.outer(v[:, 0], v[:, 0].conj())
            ms[0] = ms[0] - s * P
            ms[1] = ms[1] + s * P
        return {"ms": ms}
    # Gate / MProcess as lists of maps
    if t == "Gate":
        if bkind == "unitary":
            sets = [[ref.rand_unitary(d, rng)]]
        elif bkind == "depol":
            p = 1.0
            sets = [[np.sqrt(1.0 / d) * e for e in ref.matrix_units(d)]]  # completely depolarising
        else:
            sets = [ref.rand_kraus(d, int(rng.integers(1, 4)), rng)]
    else:
        if bkind == "projective":
            u = ref.rand_unitary(d, rng)
            groups = np.array_split(np.arange(d), min(m, d))
            sets = [[sum(np.outer(u[:, i], u[:, i].conj()) for i in g)] for g in groups]
            while len(sets) < m:
                sets.append([np.zeros((d, d), dtype=complex)])
        else:
            sets = ref.rand_instrument(d, m, rng, [int(rng.integers(1, 3)) for _ in range(m)])
    fns = [ref.kraus_map(ks) for ks in sets]
    extra = []
    if viol in ("eq", "both"):
        if rng.random() < 0.5:
            extra.append(lambda X, dl=delta: dl * np.trace(X) * np.eye(d) / d)
        else:
            S = ref.rand_herm(d, rng)
            S = S - np.trace(S) * np.eye(d) / d
            S = S / max(1e-12, np.linalg.norm(S, 2))
            extra.append(lambda X, dl=delta, S=S: dl * np.trace(S @ X) * np.eye(d) / d)
    if viol in ("ineq", "both"):
        C = ref.choi_of_map(fns[0], d)
        kv = kernel_vec(C, rng)
        if kv is not None:
            W = kv.reshape(d, d)
            WW = ref.dag(W) @ W
            extra.append(lambda X, dl=delta, W=W, WW=WW: -dl * (W @ X @ ref.dag(W)) + dl * np.trace(WW @ X) * np.eye(d) / d)
    if extra:
        f0 = fns[0]
        fns[0] = lambda X, f0=f0, extra=tuple(extra): f0(X) + sum(e(X) for e in extra)
    return {"fns": fns}


BKINDS = {"State": ["random", "pure", "rankdef", "mixed"], "Povm": ["random", "projective", "rank1"],
          "Gate": ["random", "unitary", "depol"], "MProcess": ["random", "projective"]}


def run_shard(ctx):
    from quara.settings import Settings

    p = ctx.params
    t, shape, kind = p["type"], p["shape"], p["kind"]
    dims = gen.SHAPES[shape]
    bk = kind
    if kind == "alt":
        bk = "nggm"
    Q = gen.q()

    if p.get("reject_basis"):
        c_sys = gen.make_csys(dims, kind=bk)
        for i in ctx.cases(p["n"]):
            rng = ctx.rng()
            d = c_sys.dim
            hss = [np.eye(d * d) * 0.5, np.eye(d * d) * 0.5]
            ok, val = ctx.attempt(Q.MProcess, c_sys, hss, is_physicality_required=False)
            ctx.truth("MProcess.ctor:non-standard-basis-raises", (not ok) and isinstance(val, ValueError),
                      key="MProcess.ctor:accepts-non-standard-basis", info={"basis": kind})
            ctx.nontrivial("rejbasis", kind, i)
        return

    hs, J = install(ctx)
    c_sys = gen.make_csys(dims, kind=bk)
    B = gen.basis_of(c_sys)
    d = c_sys.dim
    orthonormal = bk != "unnorm"
    identity_first = bool(c_sys.is_orthonormal_hermitian_0thprop_identity)
    J.meta["cp_judged"] = orthonormal
    cls = getattr(Q, t)
    default_atol = Settings.get_atol()
    try:
        for i in ctx.cases(p["n"]):
            rng = ctx.rng()
            m = int(rng.integers(2, 6)) if t in ("Povm", "MProcess") else 0
            bkind = str(rng.choice(BKINDS[t]))
            viol = str(rng.choice(["none", "none", "eq", "ineq", "both"]))
            base_atol = float(rng.choice(ATOLS))
            delta = pick_delta(rng, base_atol) if viol != "none" else 0.0
            ops = build_ops(t, d, m, rng, bkind, viol, delta)
            # raw parameters
            if t == "State":
                raw = gen.real_coeffs(B, ops["rho"])
                args = (raw,)
            elif t == "Povm":
                raw = [gen.real_coeffs(B, x) for x in ops["ms"]]
                args = (raw,)
            elif t == "Gate":
                raw = gen.hs_real(B, ops["fns"][0])
                args = (raw,)
            else:
                raw = [gen.hs_real(B, f) for f in ops["fns"]]
                args = (raw,)
            ok, obj = ctx.attempt(cls, c_sys, *args, is_physicality_required=False)
            if not ok:
                ctx.violation(f"{t}.ctor:" + ctx.exc_key(obj), {"basis": kind, "shape": shape})
                continue
            sizes = J.sizes(obj)
            ctx.nontrivial(t, shape, kind, bkind, viol, np.hstack([np.ravel(r) for r in (raw if isinstance(raw, list) else [raw])]))
            if i < 2:
                ctx.sample({"type": t, "shape": shape, "basis": kind, "object_kind": bkind, "violated": viol, "delta": delta,
                            "ref_violation_eq_lo_hi_ineq": list(sizes), "atol_ladder": ATOLS})
            # --- ladder, explicit tolerances; monotonicity
            prev = {"eq": False, "ineq": False, "phys": False}
            for a in ATOLS:
                got = {}
                for nm, call in (("eq", lambda: obj.is_eq_constraint_satisfied(a)),
                                 ("ineq", lambda: obj.is_ineq_constraint_satisfied(a)),
                                 ("phys", lambda: obj.is_physical(a, a))):
                    ok2, v = ctx.attempt(call)
                    if not ok2:
                        ctx.violation(f"{t}.verdict:" + ctx.exc_key(v), {"basis": kind, "fn": nm})
                        got[nm] = None
                    else:
                        got[nm] = bool(v)
                for nm in got:
                    if got[nm] is None:
                        continue
                    ctx.truth(f"{t}.monotone-in-atol", not (prev[nm] and not got[nm]),
                              key=f"{t}.{nm}:true-turns-false-when-atol-grows", info={"atol": a, "sizes": list(sizes)})
                    prev[nm] = got[nm]
            # --- same through the global setting (restored), incl. default-argument path
            a = float(rng.choice(ATOLS))
            try:
                Settings.set_atol(a)
                ctx.attempt(obj.is_physical)
                ctx.attempt(obj.is_eq_constraint_satisfied)
                ctx.attempt(obj.is_ineq_constraint_satisfied)
                # constructor with physicality required: succeeds exactly for physical objects
                eq_lo, eq_hi, ineq = sizes
                z1 = zone(eq_lo, eq_hi, a)
                z2 = zone(ineq, ineq, a) if orthonormal else "free"
                ok3, val = ctx.attempt(cls, c_sys, *args, is_physicality_required=True)
                info = {"atol": a, "sizes": list(sizes), "raised": None if ok3 else type(val).__name__}
                if z1 == "accept" and z2 == "accept":
                    ctx.truth(f"{t}.ctor-required", ok3, key=f"{t}.ctor:rejects-physical", info=info)
                elif z1 == "reject" or z2 == "reject":
                    cls_key = "accepts-violation"
                    if z1 == "reject" and z2 != "reject":
                        cls_key = J.slack_class(obj, "eq", eq_lo, eq_hi, a)
                    if ok3:
                        ctx.truth(f"{t}.ctor-required", False, key=f"{t}.ctor:{cls_key}", info=info)
                    else:
                        ctx.truth(f"{t}.ctor-required", isinstance(val, ValueError),
                                  key=f"{t}.ctor:raises-{type(val).__name__}-not-ValueError", info=info)
                else:
                    ctx.skip(f"{t}.ctor-required")
            finally:
                Settings.set_atol(default_atol)
            # --- origin / zero objects (identity-first orthonormal bases only: documented assumption)
            if identity_first and orthonormal:
                with hs.paused():
                    ok4, org = ctx.attempt(obj.generate_origin_obj)
                    ok5, zer = ctx.attempt(obj.generate_zero_obj)
                if ok4:
                    so = ref_sizes(org)
                    ctx.num(f"{t}.origin-physical", max(so[1], so[2]), 1e-12, 1e-9, key=f"{t}.origin:not-physical", info={"sizes": list(so)})
                else:
                    ctx.violation(f"{t}.origin:" + ctx.exc_key(org), {})
                if ok5:
                    z = np.hstack([np.ravel(r) for r in (gen.raw_params(zer) if isinstance(gen.raw_params(zer), list) else [gen.raw_params(zer)])])
                    ctx.num(f"{t}.zero-is-zero", float(np.max(np.abs(z))) if z.size else 0.0, 0.0, 1e-300, key=f"{t}.zero:not-zero")
                else:
                    ctx.violation(f"{t}.zero:" + ctx.exc_key(zer), {})
    finally:
        Settings.set_atol(default_atol)
        hs.uninstall()
    ctx.extra["hook_counts"] = hs.counts
    hs.require([f"{t}.is_physical", f"{t}.is_eq_constraint_satisfied", f"{t}.is_ineq_constraint_satisfied"])
