"""C08  Tomography forward model A.var+b equals the circuit's Born-rule statistics.

Contracts on calc_matA / calc_vecB / calc_prob_dists / calc_prob_dist /
generate_prob_dists_sequence / is_fullrank_matA / num_variables / num_outcomes
of StandardQst, StandardPovmt, StandardQpt, StandardQmpt.

Three parties are compared per tomography configuration:

  model    A.var(o)+b as quara's estimators use it (calc_matA, calc_vecB),
           sliced per schedule by the reference outcome counts;
  circuit  Experiment.calc_prob_dist(j) with the object inserted (quara's real
           circuit: compose_qoperations), reached through
           generate_prob_dists_sequence and through a copy of the experiment
           filled by the driver;
  born     textbook Born rule computed from raw arrays (tester vec/vecs,
           candidate vec/vecs/hs/hss, c_sys.basis()) with no quara code.

model == born is discharged on the affine basis {var=0, unit vectors} of
variable space (non-physical objects; nothing is normalised on either side).
quara's circuit truncates (<1e-8) and renormalises every distribution, so the
circuit can only be asked about objects that are physical: model == circuit ==
born is discharged on an affine basis of the *physical* affine hull (random
interior physical objects, affinely independent, dim+1 of them; for the
equality-constrained parametrisation that hull is the whole variable space).
Off that hull (unconstrained parametrisation, QST/POVMT/QPT) the circuit is
compared with the per-schedule normalised model.

History / combination steps (run_history; every case, same oracles, nothing new
is demanded - the statement holds "for every candidate object and every
schedule" of every tomography object, whatever was asked of it before):

  second-call      after all the ordinary work every contract is asked again of
                   the SAME tomography (other order, first and last objects);
  after-consumer   the library's own consumers of the model run on it
                   (LinearEstimator, Fisher matrix, covariance, analytical MSE,
                   generate_empi_dists), then the model is asked again;
  twin / re-used   two more tomographies of the same class, flag and sizes are
  testers          alive and asked alternately with the first one, with the SAME
                   candidate objects: a twin whose testers are the first one's
                   rotated by a random unitary (half of them obtained through
                   copy(), custom schedules handed over as returned by the first
                   tomography's experiment, non-default constructor options),
                   and one built from the very same tester objects / lists with
                   another schedule list;
  via-pickle       the tomography after a pickle round trip together with its
                   candidates (what joblib workers and to_pickle() see);
  candidate-via-*  candidates obtained through copy(), generate_from_var() and
                   convert_var_to_qoperation() instead of a constructor;
  experiment:*     ONE copy of the experiment is re-used for several objects
                   through its public list setters and a schedules setter;
  transient        candidates created, asked and dropped one after the other
                   (an identity-keyed cache sees the same id() again).

Constructor options outside the flag (is_estimation_object, eps_proj_physical,
eps_truncate_imaginary_part, seed_data) take non-default values in a third of
the cases (is_physicality_required=True is rejected by the library for its
all-zero template and is not used).  A violation that appears only in a history
step carries the step's name as key suffix (PhaseKeys).
"""
import contextlib
import copy
import math
import pickle

import numpy as np

from qv import gen, ref
from qv.monitor import HookSet

ID = "C08"
RULE = ("one case = one tomography configuration: class in {Qst,Povmt,Qpt,Qmpt} x shape in {S1,S3,S2} x basis in {std,"
        "generalised Gell-Mann} x parametrisation flag x tester design (random IC / Pauli / too-few / commuting / diagonal / one-direction-missing / "
        "real-symmetric states; POVM testers with mixed or uniform outcome counts 2..5) x schedule argument ('all', explicit, "
        "permutation, subset, repetition, subset+repetition+permutation) x unknown outcome count 2..4; distinct by (class, shape, "
        "basis, flag, schedule list, m, rounded tester arrays); non-trivial when the testers are random (not the symmetric "
        "Pauli example with schedule 'all') - every such case is compared on the full affine basis of variable space (reference) "
        "and on physical objects (circuit); each case then runs the history steps on the same objects (second call, after the "
        "library's consumers of the model, a same-size twin and a tomography on re-used testers asked alternately, pickle "
        "round trip, candidates via copy()/generate_from_var, one experiment copy re-used through its setters) and a third of the "
        "cases use non-default constructor options")
_SQT = "quara/protocol/qtomography/standard/standard_qtomography.py:StandardQTomography."
ANCHORS = [
    _SQT + "calc_matA", _SQT + "calc_vecB", _SQT + "calc_prob_dists", _SQT + "calc_prob_dist",
    _SQT + "is_fullrank_matA", _SQT + "generate_prob_dists_sequence",
    "quara/protocol/qtomography/standard/standard_qst.py:StandardQst._set_coeffs",
    "quara/protocol/qtomography/standard/standard_povmt.py:StandardPovmt._set_coeffs",
    "quara/protocol/qtomography/standard/standard_qpt.py:calc_c_qpt",
    "quara/protocol/qtomography/standard/standard_qmpt.py:cqpt_to_cqmpt",
    "quara/qcircuit/experiment.py:Experiment.calc_prob_dist",
    "quara/objects/operators.py:compose_qoperations",
]
REQUIRED_REACH = ANCHORS
REQUIRED_ORACLES = ["calc_matA:vs-born", "calc_vecB:vs-born", "calc_matA:columns", "circuit:vs-model", "circuit:vs-born",
                    "experiment.calc_prob_dist:vs-model", "calc_prob_dists:vs-born", "calc_prob_dist:vs-born",
                    "is_fullrank_matA", "matA:full-column-rank-iff-IC", "num_variables", "num_outcomes",
                    "qmpt:circuit-outcome-order"]
MIN_EVALS = {"quick": 200000, "thorough": 3000000}
WATCHDOG = {"quick": 900, "thorough": 3600}
ASSUMPTIONS = [
    "var(o) is read with quara's own to_var()/to_stacked_vector() (variables <-> objects is property C03); the unit-vector "
    "objects are produced by convert_var_to_qoperation and their variables are read back before use",
    "the circuit side is only asked about objects whose reference probabilities are all >= 1e-6 or <= 1e-12 in size, because "
    "compose_qoperations truncates below 1e-8 and renormalises (documented behaviour outside this property)",
    "history steps use public calls only: Experiment list / schedules setters, copy(), generate_from_var(), pickle round trip "
    "(the library pickles tomographies itself: joblib workers of the simulation flow, SimulationResult.to_pickle); the "
    "results of the consumer calls (estimates, Fisher matrices, empirical distributions) are not judged here",
]

TOL_PASS, TOL_FAIL = 1e-11, 1e-8
KINDS = ["qst", "povmt", "qpt", "qmpt"]
CLS = {"qst": "StandardQst", "povmt": "StandardPovmt", "qpt": "StandardQpt", "qmpt": "StandardQmpt"}
HOOKED = ["calc_matA", "calc_vecB", "calc_prob_dists", "calc_prob_dist", "generate_prob_dists_sequence",
          "is_fullrank_matA", "num_variables", "num_outcomes"]


def shards(tier, seed):
    out = []
    q = tier == "quick"
    for kind in KINDS:
        for shape in ("S1", "S3", "S2"):
            for flag in (True, False):
                big = kind in ("qpt", "qmpt") and shape != "S1"
                heavy = {"qst": 1, "povmt": 2, "qpt": 6, "qmpt": 14}[kind] * {"S1": 1, "S3": 4, "S2": 16}[shape]
                if q:
                    n = {"S3": 6, "S2": 2}[shape] if big else {"S1": 16, "S3": 8, "S2": 4}[shape]
                    parts = 2 if big else 1
                else:
                    n = {"S3": 32, "S2": 12}[shape] if big else {"S1": 160, "S3": 60, "S2": 30}[shape]
                    parts = (4 if shape == "S2" else 2) if big else 1
                for part in range(parts):
                    out.append({"kind": kind, "shape": shape, "flag": flag, "n": n // parts, "part": part,
                                "weight": heavy * n / parts})
    return out


# ---------------------------------------------------------------- reference


class BasisCtx:
    """Coefficient maps for one matrix basis (same formulas as ref.coeffs / ref.op,
    with the Gram solve factored out; cross-checked against ref in self_test)."""

    def __init__(self, B):
        self.B = [np.asarray(b, dtype=np.complex128) for b in B]
        self.arr = np.array(self.B)
        self.n = len(self.B)
        self.d = self.B[0].shape[0]
        F = np.array([b.reshape(-1) for b in self.B])
        G = F.conj() @ F.T
        self.coef_map = np.linalg.solve(G, F.conj())

    def op(self, x):
        return np.tensordot(np.asarray(x, dtype=np.complex128), self.arr, axes=(0, 0))

    def coeffs(self, X):
        return self.coef_map @ np.asarray(X, dtype=np.complex128).reshape(-1)

    def pair(self, M):
        """t with t_a = Tr[M B_a]"""
        return np.einsum("ij,aji->a", np.asarray(M, dtype=np.complex128), self.arr)


class RefModel:
    """Born rule of every scheduled circuit as a function of the candidate's raw
    arrays.  Conventions of qv.ref: X = sum_a x_a B_a, E(B_b) = sum_a HS[a,b] B_a.

      qst    p_x     = Tr[M_x rho(o)]            = sum_a Tr[M_x B_a] vec_a
      povmt  p_x     = Tr[M_x(o) rho_i]          = sum_a vecs[x]_a Tr[B_a rho_i]
      qpt    p_x     = Tr[M_x E_o(rho_i)]        = sum_ab Tr[M_x B_a] hs_ab r_b ,  rho_i = sum r_b B_b
      qmpt   p_(x,y) = Tr[M_y E_o^x(rho_i)]      with x the unknown's outcome, y the tester POVM's
    """

    def __init__(self, kind, bc, state_vecs, povm_vecs, sched, m_unknown):
        self.kind, self.bc, self.sched, self.m = kind, bc, sched, m_unknown
        self.state_ops = [bc.op(v) for v in state_vecs]
        self.povm_ops = [[bc.op(v) for v in vs] for vs in povm_vecs]
        self.R = [bc.coeffs(r) for r in self.state_ops]
        self.S = [bc.pair(r) for r in self.state_ops]
        self.T = [np.array([bc.pair(M) for M in ms]) for ms in self.povm_ops]
        self.n_povm = [len(ms) for ms in self.povm_ops]
        if kind == "qst":
            self.counts = [self.n_povm[pj] for (_, pj) in sched]
        elif kind == "povmt":
            self.counts = [m_unknown for _ in sched]
        elif kind == "qpt":
            self.counts = [self.n_povm[pj] for (_, pj) in sched]
        else:
            self.counts = [m_unknown * self.n_povm[pj] for (_, pj) in sched]
        self.offsets = np.concatenate([[0], np.cumsum(self.counts)]).astype(int)
        self.total = int(self.offsets[-1])
        self.mixed = len(set(self.counts)) > 1
        # index arrays for the vectorised evaluation
        if self.T:
            self.Tcat = np.vstack(self.T)
            toff = np.concatenate([[0], np.cumsum(self.n_povm)]).astype(int)
        if self.R:
            self.Rmat = np.array(self.R).T  # columns r_i
            self.Smat = np.array(self.S)  # rows s_i
        xi, ri, ci = [], [], []
        for (si, pj) in sched:
            if kind == "qst":
                ri += [toff[pj] + y for y in range(self.n_povm[pj])]
            elif kind == "povmt":
                xi += list(range(m_unknown))
                ci += [si] * m_unknown
            elif kind == "qpt":
                ri += [toff[pj] + y for y in range(self.n_povm[pj])]
                ci += [si] * self.n_povm[pj]
            else:
                for x in range(m_unknown):
                    xi += [x] * self.n_povm[pj]
                    ri += [toff[pj] + y for y in range(self.n_povm[pj])]
                    ci += [si] * self.n_povm[pj]
        self.xi, self.ri, self.ci = (np.array(a, dtype=int) for a in (xi, ri, ci))

    def born_all(self, raw):
        """unnormalised Born probabilities of all schedules, (schedule, outcome) order (complex)"""
        k = self.kind
        if k == "qst":
            return (self.Tcat @ np.asarray(raw))[self.ri]
        if k == "povmt":
            return (np.asarray(raw) @ self.Smat.T)[self.xi, self.ci]
        if k == "qpt":
            return (self.Tcat @ (np.asarray(raw) @ self.Rmat))[self.ri, self.ci]
        W = np.array([self.Tcat @ (np.asarray(h) @ self.Rmat) for h in raw])
        return W[self.xi, self.ri, self.ci]

    def born_slow(self, raw, j):
        """the same number through qv.ref's dense textbook functions (self-test / replay display)"""
        B = self.bc.B
        si, pj = self.sched[j]
        if self.kind == "qst":
            return ref.born(self.povm_ops[pj], ref.op(B, raw))
        if self.kind == "povmt":
            return ref.born(ref.povm_ops(B, raw), self.state_ops[si])
        if self.kind == "qpt":
            return ref.born(self.povm_ops[pj], ref.apply_hs(B, raw, self.state_ops[si]))
        return np.concatenate([ref.born(self.povm_ops[pj], ref.apply_hs(B, h, self.state_ops[si])) for h in raw])

    def slice(self, v, j):
        return v[self.offsets[j]:self.offsets[j + 1]]

    def nvar(self, flag):
        n = self.bc.n  # d^2
        k = self.kind
        if k == "qst":
            return n - 1 if flag else n
        if k == "povmt":
            return (self.m - 1) * n if flag else self.m * n
        if k == "qpt":
            return n * n - n if flag else n * n
        return self.m * n * n - n if flag else self.m * n * n

    def ic_rows(self):
        """real rows spanning the scheduled Born functionals on the unconstrained object space, from dense operators:
        qst: effects M_x ; povmt: states rho_i ; qpt/qmpt: M_x (x) rho_i^T"""
        rows = []
        seen = set()
        for (si, pj) in self.sched:
            if (si, pj) in seen:
                continue
            seen.add((si, pj))
            if self.kind == "qst":
                ops = self.povm_ops[pj]
            elif self.kind == "povmt":
                ops = [self.state_ops[si]]
            else:
                ops = [np.kron(M, self.state_ops[si].T) for M in self.povm_ops[pj]]
            for o in ops:
                v = o.reshape(-1)
                rows.append(np.concatenate([v.real, v.imag]))
        full = self.bc.n if self.kind in ("qst", "povmt") else self.bc.n ** 2
        return np.array(rows), full


def rank_zones(M):
    """(rank, decided): singular values above 1e-7*s0 count, below (numpy's matrix_rank threshold)/30 are zero,
    anything in between makes the rank undecided."""
    M = np.asarray(M, dtype=float)
    if M.size == 0:
        return 0, True
    s = np.linalg.svd(M, compute_uv=False)
    if s[0] == 0:
        return 0, True
    rel = s / s[0]
    hi = rel > 1e-7
    lo = rel <= max(M.shape) * np.finfo(float).eps / 30.0
    return int(hi.sum()), bool(np.all(hi | lo))


def dist_expected(p):
    """distribution the documented truncate+renormalise step must produce from the exact probabilities p, or None when
    p is not safely a probability vector (some entry between 1e-12 and 1e-6, negative, or sum off 1)."""
    p = np.asarray(p)
    if np.max(np.abs(p.imag)) > 1e-12 if np.iscomplexobj(p) else False:
        return None
    p = p.real
    small = np.abs(p) <= 1e-12
    if not np.all(small | (p >= 1e-6)):
        return None
    q = np.where(p < 0, 0.0, p)
    s = q.sum()
    if abs(s - 1) > 1e-9:
        return None
    return q / s


def normalised(p):
    p = np.asarray(p).real
    if np.min(p) < 1e-6:
        return None
    return p / p.sum()


def maxabs(a, b):
    a, b = np.asarray(a), np.asarray(b)
    if a.shape != b.shape:
        return float("inf")
    if a.size == 0:
        return 0.0
    return float(np.max(np.abs(a - b)))


def raw_of(obj):
    t = gen.type_of(obj)
    if t == "State":
        return np.array(obj.vec)
    if t == "Povm":
        return np.array(obj.vecs)
    if t == "Gate":
        return np.array(obj.hs)
    return np.array(obj.hss)


# -------------------------------------------------------------------- hooks


class Meta:
    pass


class Monitor:
    def __init__(self, ctx):
        self.ctx = ctx
        self.reg = {}
        self.last_cpd = None

    def meta(self, tomo):
        m = self.reg.get(id(tomo))
        if m is not None and m.tomo is tomo:
            return m
        return None

    def var_of(self, meta, obj):
        return np.asarray(obj.to_var() if meta.flag else obj.to_stacked_vector(), dtype=float)

    def model(self, meta, obj):
        """A.var(obj)+b with quara's A, b as read at registration; None when their shapes do not fit (reported by the
        calc_matA / calc_vecB contracts)"""
        v = self.var_of(meta, obj)
        A, b = meta.A_q, meta.b_q
        if A.ndim != 2 or v.ndim != 1 or A.shape[1] != v.shape[0] or b.shape != (A.shape[0],) or A.shape[0] != meta.ref.total:
            return None
        return A @ v + b

    def cnt(self, meta):
        return "mixed-outcome-counts" if meta.ref.mixed else "uniform-outcome-counts"

    def tag(self, meta):
        return f"{meta.cls}:{'eq-constrained' if meta.flag else 'unconstrained'}"


class PhaseKeys:
    """Key suffixes for history steps.  While a step is active (`with ph.step(name)`) every violation recorded through
    ctx.num / ctx.truth / ctx.violation - by a hook or by the driver - whose key was NOT already produced by the ordinary
    (fresh-object) part of the same case gets the suffix ':<name>': such a key can only come from the history.  Within a
    case a key keeps the suffix of the step that showed it first (a fault left behind by one step is not re-named by
    every later step)."""

    def __init__(self, ctx):
        self.ctx, self.cur, self.fresh, self.first = ctx, None, set(), {}
        self._orig = ctx.violation
        ctx.violation = self._violation  # instance attribute: ctx.num / ctx.truth call self.violation

    def _violation(self, key, info=None):
        if self.cur is None:
            self.fresh.add(key)
        elif key not in self.fresh:
            if isinstance(info, dict):
                info = dict(info, history_step=self.cur)
            key = f"{key}:{self.first.setdefault(key, self.cur)}"
        self._orig(key, info)

    def new_case(self):
        self.cur, self.fresh, self.first = None, set(), {}

    @contextlib.contextmanager
    def step(self, name):
        prev, self.cur = self.cur, name
        try:
            yield
        finally:
            self.cur = prev

    def restore(self):
        self.ctx.__dict__.pop("violation", None)


def row_diagnosis(A, A_ref):
    """mechanism class of a wrong coefficient matrix"""
    if A.shape != A_ref.shape:
        return "wrong-shape"
    if A.ndim == 1:
        return "rows-permuted" if np.allclose(np.sort(A), np.sort(A_ref), atol=1e-9) else "wrong-values"
    a = A[np.lexsort(np.round(A, 8).T[::-1])]
    b = A_ref[np.lexsort(np.round(A_ref, 8).T[::-1])]
    if np.allclose(a, b, atol=1e-7):
        return "rows-permuted"
    return "wrong-values"


def install(ctx):
    from quara.protocol.qtomography.standard.standard_povmt import StandardPovmt
    from quara.protocol.qtomography.standard.standard_qmpt import StandardQmpt
    from quara.protocol.qtomography.standard.standard_qpt import StandardQpt
    from quara.protocol.qtomography.standard.standard_qst import StandardQst

    hs = HookSet(ctx)
    mon = Monitor(ctx)
    classes = {"qst": StandardQst, "povmt": StandardPovmt, "qpt": StandardQpt, "qmpt": StandardQmpt}

    def post_matA(result, snap, self):
        meta = mon.meta(self)
        if meta is None or meta.A_ref is None:
            return
        A = np.asarray(result)
        want = (meta.ref.total, meta.nvar)
        ctx.truth("calc_matA:columns", A.ndim == 2 and A.shape == want,
                  key=f"calc_matA:{mon.tag(meta)}:shape-not-(sum-outcomes,num-variables)", info={"shape": list(A.shape), "want": list(want)})
        if A.shape != want:
            return
        err = maxabs(A, meta.A_ref)
        if err >= TOL_FAIL:
            key = f"calc_matA:{mon.tag(meta)}:{row_diagnosis(A, meta.A_ref)}"
        else:
            key = None
        ctx.num("calc_matA:vs-born", err, TOL_PASS, TOL_FAIL, key=key,
                info={"config": meta.desc, "note": "A[:,k] vs Born(o(e_k)) - Born(o(0)), all schedules"})

    def post_vecB(result, snap, self):
        meta = mon.meta(self)
        if meta is None or meta.b_ref is None:
            return
        b = np.asarray(result)
        if b.shape != (meta.ref.total,):
            ctx.truth("calc_vecB:vs-born", False, key=f"calc_vecB:{mon.tag(meta)}:wrong-shape", info={"shape": list(b.shape)})
            return
        err = maxabs(b, meta.b_ref)
        key = f"calc_vecB:{mon.tag(meta)}:{row_diagnosis(b, meta.b_ref)}" if err >= TOL_FAIL else None
        ctx.num("calc_vecB:vs-born", err, TOL_PASS, TOL_FAIL, key=key, info={"config": meta.desc, "note": "b vs Born(o(var=0))"})

    def post_fullrank(result, snap, self):
        meta = mon.meta(self)
        if meta is None:
            return
        A = np.asarray(self.calc_matA(), dtype=float)
        rows, cols = A.shape
        if meta.rank_A_q is not None and A.shape == meta.A_q.shape and np.array_equal(A, meta.A_q):
            r, decided = meta.rank_A_q
        else:
            r, decided = rank_zones(A)
        if rows < meta.nvar:
            # A wide matrix cannot have full column rank, but such tester sets are not informationally complete
            # and the statement only promises "full column rank whenever the tester set is IC"; what the function
            # (which tests rank == min(shape)) answers here is recorded, not judged.
            ctx.count("recorded-not-judged:is_fullrank_matA:fewer-rows-than-variables:" + ("True" if result else "False"))
            ctx.skip("is_fullrank_matA")
            return
        elif not decided:
            ctx.skip("is_fullrank_matA")
            return
        else:
            want = r == meta.nvar
            cls = "full-column-rank" if want else "rank-deficient"
        got = bool(result)
        key = f"is_fullrank_matA:{cls}:" + ("reports-full-rank" if got else "reports-deficient")
        ctx.truth("is_fullrank_matA", got == want, key=key,
                  info={"shape": [rows, cols], "num_variables": meta.nvar, "rank": r, "got": got, "config": meta.desc})

    def post_numvar(result, snap, self):
        meta = mon.meta(self)
        if meta is None:
            return
        ctx.truth("num_variables", int(result) == meta.nvar, key=f"num_variables:{mon.tag(meta)}:wrong-count",
                  info={"got": int(result), "want": meta.nvar, "m": meta.ref.m})

    def post_numout(result, snap, self, schedule_index):
        meta = mon.meta(self)
        if meta is None:
            return
        want = meta.ref.counts[schedule_index]
        ctx.truth("num_outcomes", int(result) == want, key=f"num_outcomes:{meta.cls}:wrong-count",
                  info={"got": int(result), "want": want, "schedule": schedule_index})

    def check_dist(oracle, got, want, key, info):
        got = np.asarray(got, dtype=float).reshape(-1) if np.ndim(got) else np.asarray([got], dtype=float)
        if got.shape != want.shape:
            ctx.truth(oracle, False, key=key + ":wrong-length", info=dict(info, got_len=int(got.size), want_len=int(want.size)))
            return False
        return ctx.num(oracle, maxabs(got, want), TOL_PASS, TOL_FAIL, key=key, info=info) != "fail"

    def post_sequence(result, snap, self, true_object):
        meta = mon.meta(self)
        if meta is None:
            return
        R = meta.ref
        if len(result) != len(R.sched):
            ctx.truth("circuit:vs-born", False, key=f"generate_prob_dists_sequence:{meta.cls}:wrong-number-of-schedules",
                      info={"got": len(result), "want": len(R.sched)})
            return
        born = R.born_all(raw_of(true_object))
        model = mon.model(meta, true_object)
        for j in range(len(R.sched)):
            want = dist_expected(R.slice(born, j))
            info = {"schedule": j, "config": meta.desc}
            if want is None:
                ctx.skip("circuit:vs-born")
                continue
            check_dist("circuit:vs-born", result[j], want, f"generate_prob_dists_sequence:{meta.cls}:circuit-differs-from-born", info)
            if model is None:
                ctx.skip("circuit:vs-model")
                continue
            mj = R.slice(model, j)
            check_dist("circuit:vs-model", result[j], mj, f"forward-model:{mon.tag(meta)}:model-differs-from-circuit", info)

    def judge_row(oracle, got, want, meta, fn, info, force=None):
        """one schedule's distribution returned by calc_prob_dist(s) vs the reference"""
        got = np.asarray(got, dtype=float).reshape(-1)
        if got.shape != want.shape:
            key = force or f"{fn}:{mon.cnt(meta)}:mis-sliced"
            ctx.truth(oracle, False, key=key, info=dict(info, got_len=int(got.size), want_len=int(want.size)))
            return key
        key = force or f"{fn}:{mon.cnt(meta)}:differs-from-born"
        if ctx.num(oracle, maxabs(got, want), TOL_PASS, TOL_FAIL, key=key, info=info) == "fail":
            return key
        return None

    def post_cpds(result, snap, self, qope):
        meta = mon.meta(self)
        mon.last_cpd = {"tomo": self, "qope": qope, "flagged": None, "result": result}
        if meta is None:
            return
        R = meta.ref
        born = R.born_all(raw_of(qope))
        flagged = None
        try:
            nrow = len(result)
        except TypeError:
            nrow = -1
        if nrow != len(R.sched):
            flagged = f"calc_prob_dists:{mon.cnt(meta)}:wrong-number-of-rows"
            ctx.truth("calc_prob_dists:vs-born", False, key=flagged, info={"got": nrow, "want": len(R.sched), "config": meta.desc})
            mon.last_cpd["flagged"] = flagged
            return
        # rows of one common length although the schedules have different outcome counts: one mechanism for every wrong row
        sliced_wrong = R.mixed and any(np.size(result[j]) != R.counts[j] for j in range(len(R.sched)))
        for j in range(len(R.sched)):
            want = dist_expected(R.slice(born, j))
            if want is None:
                ctx.skip("calc_prob_dists:vs-born")
                continue
            k = judge_row("calc_prob_dists:vs-born", result[j], want, meta, "calc_prob_dists",
                          {"schedule": j, "outcome_counts": R.counts[:12], "config": meta.desc},
                          force="calc_prob_dists:mixed-outcome-counts:mis-sliced" if sliced_wrong else None)
            flagged = flagged or k
        mon.last_cpd["flagged"] = flagged

    def exc_cpds(exc, snap, self, qope):
        meta = mon.meta(self)
        mon.last_cpd = {"tomo": self, "qope": qope, "flagged": None, "result": None}
        if meta is None:
            return
        if isinstance(exc, ValueError) and "reshape" in str(exc) and meta.ref.mixed:
            key = "calc_prob_dists:mixed-outcome-counts:reshape-raises"
        else:
            key = f"calc_prob_dists:{mon.cnt(meta)}:" + ctx.exc_key(exc)
        mon.last_cpd["flagged"] = key
        ctx.truth("calc_prob_dists:vs-born", False, key=key, info={"exc": repr(exc)[:200], "outcome_counts": meta.ref.counts[:12], "config": meta.desc})

    def pre_cpd(self, qope, schedule_index):
        mon.last_cpd = None

    def post_cpd(result, snap, self, qope, schedule_index):
        meta = mon.meta(self)
        if meta is None:
            return
        inner = mon.last_cpd
        if inner is not None and inner["tomo"] is self and inner["flagged"]:
            ctx.skip("calc_prob_dist:vs-born")  # already attributed to calc_prob_dists
            return
        R = meta.ref
        want = dist_expected(R.slice(R.born_all(raw_of(qope)), schedule_index))
        if want is None:
            ctx.skip("calc_prob_dist:vs-born")
            return
        judge_row("calc_prob_dist:vs-born", result, want, meta, "calc_prob_dist", {"schedule": schedule_index, "config": meta.desc})

    def exc_cpd(exc, snap, self, qope, schedule_index):
        meta = mon.meta(self)
        if meta is None:
            return
        inner = mon.last_cpd
        if inner is not None and inner["tomo"] is self and inner["flagged"]:
            ctx.skip("calc_prob_dist:vs-born")
            return
        ctx.truth("calc_prob_dist:vs-born", False, key=f"calc_prob_dist:{mon.cnt(meta)}:" + ctx.exc_key(exc), info={"exc": repr(exc)[:200]})

    def mk_exc(name):
        def on_exc(exc, snap, self, *a, **kw):
            meta = mon.meta(self)
            if meta is not None:
                ctx.violation(f"{name}:{meta.cls}:" + ctx.exc_key(exc), {"exc": repr(exc)[:200], "config": meta.desc})
        return on_exc

    for kind, cls in classes.items():
        hs.method(cls, "calc_matA", post=post_matA, on_exc=mk_exc("calc_matA"))
        hs.method(cls, "calc_vecB", post=post_vecB, on_exc=mk_exc("calc_vecB"))
        hs.method(cls, "is_fullrank_matA", post=post_fullrank, on_exc=mk_exc("is_fullrank_matA"))
        hs.method(cls, "num_variables", post=post_numvar, on_exc=mk_exc("num_variables"))
        hs.method(cls, "num_outcomes", post=post_numout, on_exc=mk_exc("num_outcomes"))
        hs.method(cls, "generate_prob_dists_sequence", post=post_sequence, on_exc=mk_exc("generate_prob_dists_sequence"))
        hs.method(cls, "calc_prob_dists", post=post_cpds, on_exc=exc_cpds)
        hs.method(cls, "calc_prob_dist", post=post_cpd, pre=pre_cpd, on_exc=exc_cpd)
    return hs, mon, classes


# ---------------------------------------------------------------- generators


def clean(v):
    v = np.array(v, dtype=np.float64)
    v[np.abs(v) < 1e-15] = 0.0
    return v


def rand_state_op(d, rng, style):
    if style == "pure":
        return ref.rand_density(d, rng, 1)
    if style == "rankdef":
        return ref.rand_density(d, rng, max(1, d - 1))
    if style == "real":
        a = rng.standard_normal((d, d))
        r = a @ a.T
        return (r / np.trace(r)).astype(np.complex128)
    return ref.rand_density(d, rng)


def renorm(ms):
    """second pass S^-1/2 M S^-1/2 (S = sum M is already I up to ~1e-12 for ill-conditioned draws): identity sum to 1e-16"""
    S = sum(ms)
    w, v = np.linalg.eigh(ref.herm_part(S))
    Sm = (v * w ** -0.5) @ ref.dag(v)
    return [ref.herm_part(Sm @ M @ Sm) for M in ms]


def rand_povm_ops(d, m, rng, style, U=None):
    return renorm(_rand_povm_ops(d, m, rng, style, U))


def _rand_povm_ops(d, m, rng, style, U=None):
    if style in ("diag", "commuting"):
        w = rng.random((m, d)) + 0.05
        w = w / w.sum(axis=0)
        U = np.eye(d, dtype=np.complex128) if style == "diag" else U
        return [(U * w[x]) @ ref.dag(U) for x in range(m)]
    if style == "proj" and m <= d:
        u = ref.rand_unitary(d, rng)
        groups = np.array_split(rng.permutation(d), m)
        return [sum(np.outer(u[:, i], u[:, i].conj()) for i in g) for g in groups]
    if style == "lowrank":
        return ref.rand_povm(d, m, rng, max(1, math.ceil(d / m)))
    return ref.rand_povm(d, m, rng)


PAULI = [np.array([[0, 1], [1, 0]], dtype=complex), np.array([[0, -1j], [1j, 0]], dtype=complex), np.array([[1, 0], [0, -1]], dtype=complex)]


def pauli_povms(dims):
    """projective measurements in the eigenbases of (products of) Pauli matrices"""
    def eig_proj(P):
        w, v = np.linalg.eigh(P)
        return [np.outer(v[:, i], v[:, i].conj()) for i in range(2)]
    local = [eig_proj(P) for P in PAULI]
    if len(dims) == 1:
        return local
    return [[np.kron(a, b) for a in A for b in B] for A in local for B in local]


def pauli_states(dims):
    st = []
    for P, sgn in ((PAULI[0], 1), (PAULI[1], 1), (PAULI[2], 1), (PAULI[2], -1)):
        st.append((np.eye(2) + sgn * P) / 2)
    if len(dims) == 1:
        return st
    return [np.kron(a, b) for a in st for b in st]


def outcome_counts(total_needed, rng, mixed, lo=2, hi=5):
    """list of POVM outcome counts with sum(m-1) >= total_needed"""
    counts = []
    if mixed:
        while sum(c - 1 for c in counts) < total_needed or len(set(counts)) < 2:
            counts.append(int(rng.integers(lo, hi + 1)))
    else:
        c = int(rng.integers(lo, hi))
        while sum(x - 1 for x in counts) < total_needed:
            counts.append(c)
    return counts


def off_direction(ops, H, unit):
    """remove the component along the traceless basis element H (Tr[H^2]=1) from every operator and mix with `unit`
    (which has no such component) until safely positive: the set then spans a hyperplane, rank deficiency exactly 1"""
    proj = [X - H * np.trace(H @ X) for X in ops]
    for t in (0.0, 0.3, 0.6, 0.9, 0.99):
        out = [ref.herm_part((1 - t) * X + t * unit) for X in proj]
        if min(np.linalg.eigvalsh(X)[0] for X in out) > 1e-3:
            return out
    return out


def design_povms(dims, rng, design, mixed, bc=None):
    d = int(np.prod(dims))
    need = d * d - 1
    if design == "hyperplane":
        H = bc.B[int(rng.integers(1, bc.n))]
        counts = outcome_counts(need + 2, rng, mixed)
        return [off_direction(rand_povm_ops(d, m, rng, "full"), H, np.eye(d) / m) for m in counts]
    if design == "pauli":
        return pauli_povms(dims)
    if design == "ic":
        counts = outcome_counts(need + int(rng.integers(0, 3)), rng, mixed)
        return [rand_povm_ops(d, m, rng, str(rng.choice(["full", "full", "lowrank", "proj"]))) for m in counts]
    if design == "few":
        budget = int(rng.integers(1, need))  # sum(m-1) < need
        counts = []
        while True:
            m = int(rng.integers(2, 6))
            if sum(c - 1 for c in counts) + m - 1 > budget:
                break
            counts.append(m)
        if not counts:
            counts = [2]
        if mixed and len(set(counts)) < 2 and len(counts) >= 2 and d > 2:
            counts[0] = counts[0] + 1 if counts[0] < 5 else counts[0] - 1
            if sum(c - 1 for c in counts) >= need:
                counts = counts[:-1]
        return [rand_povm_ops(d, m, rng, "full") for m in counts]
    # diag / commuting: many outcomes, effects confined to a d-dimensional commutative algebra
    counts = outcome_counts(need + 2, rng, mixed)
    U = ref.rand_unitary(d, rng)
    return [rand_povm_ops(d, m, rng, design, U) for m in counts]


def design_states(dims, rng, design, bc=None):
    d = int(np.prod(dims))
    if design == "hyperplane":
        H = bc.B[int(rng.integers(1, bc.n))]
        n = d * d + int(rng.integers(0, 3))
        return off_direction([rand_state_op(d, rng, "full") for _ in range(n)], H, np.eye(d) / d)
    if design == "pauli":
        return pauli_states(dims)
    if design == "ic":
        n = d * d + int(rng.integers(0, 3))
        return [rand_state_op(d, rng, str(rng.choice(["full", "full", "pure", "rankdef"]))) for _ in range(n)]
    if design == "few":
        n = int(rng.integers(1, d * d))
        return [rand_state_op(d, rng, "full") for _ in range(n)]
    n = d * d + int(rng.integers(0, 3))  # real symmetric: span has dimension d(d+1)/2 < d^2
    return [rand_state_op(d, rng, "real") for _ in range(n)]


def schedule_list(kind, n_states, n_povms, rng, mode):
    """(argument handed to the constructor, list of (state index, povm index) per schedule)"""
    if kind == "qst":
        full = [(0, j) for j in range(n_povms)]
    elif kind == "povmt":
        full = [(i, 0) for i in range(n_states)]
    else:
        full = [(i, j) for i in range(n_states) for j in range(n_povms)]
    if mode == "all":
        return "all", full, False
    lst = list(full)
    if mode == "perm":
        lst = [full[i] for i in rng.permutation(len(full))]
    elif mode == "subset":
        k = int(rng.integers(max(1, len(full) // 2), len(full) + 1)) if len(full) > 1 else 1
        idx = sorted(rng.choice(len(full), size=k, replace=False).tolist())
        lst = [full[i] for i in idx]
    elif mode == "rep":
        extra = [full[int(i)] for i in rng.integers(0, len(full), size=max(1, len(full) // 3))]
        lst = full + extra
    elif mode == "mix":
        k = int(rng.integers(max(1, (2 * len(full)) // 3), len(full) + 1))
        idx = rng.choice(len(full), size=k, replace=False).tolist()
        lst = [full[i] for i in idx]
        lst += [lst[int(i)] for i in rng.integers(0, len(lst), size=max(1, len(lst) // 4))]
        lst = [lst[i] for i in rng.permutation(len(lst))]
    mid = {"qpt": "gate", "qmpt": "mprocess"}.get(kind)
    if mid:
        arg = [[("state", int(i)), (mid, 0), ("povm", int(j))] for (i, j) in lst]
    else:
        arg = [[("state", int(i)), ("povm", int(j))] for (i, j) in lst]
    return arg, lst, lst != full


def depol(d):
    return lambda X: np.trace(X) * np.eye(d, dtype=np.complex128) / d


def rand_candidate(kind, bc, m, rng, where):
    """raw arrays of a random physical candidate; where = interior | boundary"""
    d, B = bc.d, bc.B
    lam = float(rng.uniform(0.5, 0.9)) if where == "interior" else 1.0
    if kind == "qst":
        rho = rand_state_op(d, rng, "full" if where == "interior" else str(rng.choice(["pure", "rankdef"])))
        rho = lam * rho + (1 - lam) * np.eye(d) / d
        return clean(bc.coeffs(rho).real)
    if kind == "povmt":
        ms = rand_povm_ops(d, m, rng, "full" if where == "interior" else str(rng.choice(["lowrank", "proj", "lowrank"])))
        ms = [lam * x + (1 - lam) * np.eye(d) / m for x in ms]
        return np.array([clean(bc.coeffs(x).real) for x in ms])
    if kind == "qpt":
        ks = ref.rand_kraus(d, int(rng.integers(1, 4)), rng) if where == "interior" else [ref.rand_unitary(d, rng)]
        f, g = ref.kraus_map(ks), depol(d)
        return clean(hs_of(bc, lambda X: lam * f(X) + (1 - lam) * g(X)))
    ranks = [int(rng.integers(1, 3)) for _ in range(m)] if where == "interior" else [1] * m
    sets = ref.rand_instrument(d, m, rng, ranks)
    g = depol(d)
    return np.array([clean(hs_of(bc, (lambda X, f=ref.kraus_map(ks): lam * f(X) + (1 - lam) * g(X) / m))) for ks in sets])


def hs_of(bc, fn):
    """matrix of a linear map: column b = coefficients of fn(B_b)   (definition used by ref.hs_of_map)"""
    return np.array([bc.coeffs(fn(b)) for b in bc.B]).T.real


def make_obj(Q, kind, c_sys, raw, flag):
    kw = dict(is_physicality_required=False, on_para_eq_constraint=flag)
    if kind == "qst":
        return Q.State(c_sys, np.ascontiguousarray(raw, dtype=np.float64), **kw)
    if kind == "povmt":
        return Q.Povm(c_sys, [np.ascontiguousarray(v, dtype=np.float64) for v in raw], **kw)
    if kind == "qpt":
        return Q.Gate(c_sys, np.ascontiguousarray(raw, dtype=np.float64), **kw)
    return Q.MProcess(c_sys, [np.ascontiguousarray(h, dtype=np.float64) for h in raw], **kw)


def self_test(ctx, meta, objs_raw, rng):
    """fast reference == qv.ref's dense textbook path"""
    R = meta.ref
    worst = 0.0
    for raw in objs_raw:
        fast = R.born_all(raw)
        for j in rng.choice(len(R.sched), size=min(4, len(R.sched)), replace=False):
            worst = max(worst, maxabs(R.slice(fast, int(j)).real, R.born_slow(raw, int(j))))
        worst = max(worst, float(np.max(np.abs(fast.imag))))
    if not worst <= 1e-12:
        ctx.mark_inconclusive(f"reference self-test failed: fast Born vs qv.ref dense path differ by {worst}")
    ctx.count("ref_self_test")


def judge_ic(ctx, mon, meta, cfg=None):
    """informational completeness from the testers' dense operators vs column rank of quara's A (as read at registration)"""
    R, nv, desc = meta.ref, meta.nvar, meta.desc
    rows, full = R.ic_rows()
    r_ic, dec_ic = rank_zones(rows)
    if rows.shape[0] < full:
        ic, dec_ic = False, True
    else:
        ic = r_ic == full
    r_A, dec_A = meta.rank_A_q
    if meta.A_q.shape[0] < nv:
        fullcol, dec_A = False, True
    else:
        fullcol = r_A == nv
    if dec_ic and dec_A and meta.A_q.ndim == 2 and meta.A_q.shape[1] == nv:
        ctx.truth("matA:full-column-rank-iff-IC", ic == fullcol,
                  key=f"matA:{mon.tag(meta)}:" + ("IC-but-rank-deficient" if ic else "not-IC-but-full-column-rank"),
                  info={"config": desc, "rank_A": r_A, "num_variables": nv, "rank_functionals": r_ic, "full": full})
        if cfg is not None:
            ctx.count("cfg:IC" if ic else "cfg:non-IC")
            intended = cfg["povm_design"] in ("ic", "pauli") and cfg["state_design"] in ("ic", "pauli") and cfg["sched_mode"] in ("all", "explicit", "perm", "rep")
            if intended and not ic:
                ctx.note(f"generator: design meant to be IC is not ({desc})")
    else:
        ctx.skip("matA:full-column-rank-iff-IC")


def judge_experiment(ctx, hs, mon, meta, exp, o, js, index_of=None):
    """Experiment.calc_prob_dist(j) of an experiment (derived from the tomography's) that holds the candidate o, against
    the model and the Born rule of schedule index_of(j) of the tomography (identity unless the experiment's schedule
    list was replaced)."""
    R, desc = meta.ref, meta.desc
    with hs.paused():
        model = mon.model(meta, o)
        born = R.born_all(raw_of(o))
    for j in js:
        jr = j if index_of is None else index_of(j)
        ok, ps = ctx.attempt(exp.calc_prob_dist, j)
        if not ok:
            ctx.violation(f"experiment.calc_prob_dist:{meta.cls}:" + ctx.exc_key(ps), {"config": desc})
            break
        want = dist_expected(R.slice(born, jr))
        if want is None:
            ctx.skip("experiment.calc_prob_dist:vs-model")
            continue
        got = np.asarray(ps, dtype=float).reshape(-1)
        mj = R.slice(model, jr) if model is not None else want
        err = max(maxabs(got, mj), maxabs(got, want))
        ctx.num("experiment.calc_prob_dist:vs-model", err, TOL_PASS, TOL_FAIL,
                key=f"forward-model:{mon.tag(meta)}:model-differs-from-circuit" if maxabs(got, mj) >= maxabs(got, want)
                else f"experiment.calc_prob_dist:{meta.cls}:circuit-differs-from-born",
                info={"schedule": j, "config": desc})


def draw_opts(rng, p):
    """non-default values of the constructor options the forward model must not depend on"""
    o = {}
    if rng.random() < p:
        o["is_estimation_object"] = True
    if rng.random() < p:
        o["eps_proj_physical"] = float(10.0 ** int(rng.integers(-12, -6)))
    if rng.random() < p:
        o["eps_truncate_imaginary_part"] = float(10.0 ** int(rng.integers(-12, -6)))
    if rng.random() < p:
        o["seed_data"] = int(rng.integers(0, 2 ** 31 - 1))
    return o


def sched_arg(kind, lst):
    mid = {"qpt": "gate", "qmpt": "mprocess"}.get(kind)
    if mid:
        return [[("state", int(i)), (mid, 0), ("povm", int(j))] for (i, j) in lst]
    return [[("state", int(i)), ("povm", int(j))] for (i, j) in lst]


def run_history(ctx, hs, mon, ph, Q, meta, case, hrng):
    """History / combination steps of one case (see the module docstring).  Everything is asked through the hooked
    public methods, so the ordinary oracles judge every answer against the reference model of the tomography asked."""
    from quara.protocol.qtomography.standard.linear_estimator import LinearEstimator

    kind, flag, bc, c_sys, m = case.kind, case.flag, case.bc, case.c_sys, case.m
    tomo, R, objs, cand = meta.tomo, meta.ref, case.objs, case.cand
    if not objs or not cand:
        return
    meta.step = "interleaved-with-sibling"

    # cost control: is_fullrank_matA is an SVD inside the library, a circuit pass is one composition chain per schedule
    big = meta.A_q.size > 2.5e5

    def some_js(mt, k=3):
        n = len(mt.ref.sched)
        return sorted(set([0, n - 1, int(hrng.integers(0, n))][3 - k:]))

    def stepname(mt, step):
        # a sibling / clone is always named by what it is; the first tomography by the step that asks it
        return mt.step if mt is not meta else (step or mt.step)

    def ask_model(mt, full=False, step=None, rank=True):
        t = mt.tomo
        with ph.step(stepname(mt, step)):
            ctx.attempt(lambda: t.num_variables)
            for j in (range(len(mt.ref.sched) - 1, -1, -1) if full else some_js(mt)):
                ctx.attempt(t.num_outcomes, j)
            ctx.attempt(t.calc_vecB)
            ctx.attempt(t.calc_matA)
            if rank:
                ctx.attempt(t.is_fullrank_matA)

    def ask_dists(mt, o, seq=False, step=None, k=1):
        t = mt.tomo
        with ph.step(stepname(mt, step)):
            ctx.attempt(t.calc_prob_dists, o)
            for j in some_js(mt, k):
                ctx.attempt(t.calc_prob_dist, o, j)
            if seq:
                ctx.attempt(t.generate_prob_dists_sequence, o)

    # ---- (a) second call: the same tomography, the same objects, other order
    ask_model(meta, full=True, step="second-call", rank=not big)
    for o in (cand[-1], cand[0], cand[len(cand) // 2]):
        ask_dists(meta, o, step="second-call", k=3)
    ask_dists(meta, objs[0], seq=True, step="second-call")  # the very first object the circuit was asked about
    ctx.count("hist:second-call")

    # ---- (a'') near neighbours: a candidate, then candidates within relative 3e-6 / 1e-8 of it in variable space (what a
    # line search or a finite-difference quotient asks); each answer belongs to the object asked, not to its neighbour
    # an object whose outcome probabilities are all well above the truncation thresholds, so that every row of its
    # neighbours' distributions is judged (the hooks leave rows with entries in (1e-12, 1e-6) unjudged)
    inner = [x for x in list(objs) + list(cand) if float(np.min(np.real(R.born_all(raw_of(x))))) >= 1e-3]
    o = inner[int(hrng.integers(0, len(inner)))] if inner else objs[int(hrng.integers(0, len(objs)))]
    okv, v = ctx.attempt(o.to_var)
    pool = [x for x in list(objs) + list(cand) if x is not o]
    okw, w = ctx.attempt(pool[int(hrng.integers(0, len(pool)))].to_var) if pool else (False, None)
    if okv and okw and np.shape(v) == np.shape(w):
        v, w = np.asarray(v, dtype=np.float64), np.asarray(w, dtype=np.float64)
        ask_dists(meta, o, step="near-neighbour")
        for rel in (3e-6, 1e-8):
            # a step towards another object of the case: stays normalised under both parametrisations
            okn, o2 = ctx.attempt(o.generate_from_var, v + rel * (w - v) / max(1e-12, float(np.max(np.abs(w - v)))) * max(1.0, float(np.max(np.abs(v)))))
            if okn:
                ask_dists(meta, o2, step="near-neighbour", k=3)
        if flag:
            # with the equality constraint built in every variable vector is normalised: a purely relative change
            okn, o2 = ctx.attempt(o.generate_from_var, v * (1.0 + 3e-6))
            if okn:
                ask_dists(meta, o2, step="near-neighbour", k=3)
        ask_dists(meta, o, step="near-neighbour")
        ctx.count("hist:near-neighbour")

    # ---- (a') the library's consumers of the model run, then the model is asked again (results of the consumers: not judged)
    o = objs[0]
    nS = len(R.sched)
    small = nS <= 40
    fullcol = meta.A_q.ndim == 2 and meta.A_q.shape[0] >= meta.nvar and meta.rank_A_q[1] and meta.rank_A_q[0] == meta.nvar

    def consume(name, fn, *a):
        ok, val = ctx.attempt(fn, *a)
        ctx.count(f"hist:consumer:{name}:" + ("returned" if ok else f"raised:{'mixed' if R.mixed else 'uniform'}-outcome-counts"))
        return ok, val

    with ph.step("after-consumer"), np.errstate(all="ignore"):
        ok, pd = ctx.attempt(tomo.calc_prob_dists, o)
        if ok and fullcol:
            empi = [(1000, np.array(q, dtype=float)) for q in pd]
            consume("LinearEstimator", LinearEstimator().calc_estimate, tomo, empi, True)
        ok, var = ctx.attempt(mon.var_of, meta, o)
        if ok:
            for j in some_js(meta):
                consume("calc_fisher_matrix", tomo.calc_fisher_matrix, j, var)
        consume("calc_covariance_mat_single", tomo.calc_covariance_mat_single, o, nS - 1, 100)
        if small:
            consume("calc_mse_empi_dists_analytical", tomo.calc_mse_empi_dists_analytical, o, [100] * nS)
            if fullcol:
                consume("calc_mse_linear_analytical", tomo.calc_mse_linear_analytical, o, [100] * nS, "var")
        if not big:
            consume("generate_empi_dists", tomo.generate_empi_dists, o, 20, int(hrng.integers(0, 2 ** 31 - 1)))
    ask_model(meta, step="after-consumer", rank=not big)  # (LinearEstimator has just asked is_fullrank_matA itself)
    ask_dists(meta, o, seq=True, step="after-consumer")
    ask_dists(meta, cand[-1], step="after-consumer")
    ctx.count("hist:after-consumer")

    # ---- (c) sibling tomographies of the same class / flag / sizes, alive together with the first one
    def sibling(step, states, povms, state_vecs, povm_vecs, arg, sched, opts, rank=True):
        kw = dict(on_para_eq_constraint=flag, schedules=arg, **opts)
        if kind == "qst":
            ctor = lambda: case.cls(povms, **kw)  # noqa: E731
        elif kind == "povmt":
            ctor = lambda: case.cls(states, m, **kw)  # noqa: E731
        elif kind == "qpt":
            ctor = lambda: case.cls(states, povms, **kw)  # noqa: E731
        else:
            ctor = lambda: case.cls(states, povms, m, **kw)  # noqa: E731
        with ph.step(step):
            ok, t = ctx.attempt(ctor)
            if not ok:
                ctx.violation(f"ctor:{meta.cls}:" + ctx.exc_key(t), {"config": meta.desc, "ctor_options": sorted(opts)})
                return None
        mt = Meta()
        mt.tomo, mt.kind, mt.cls, mt.flag, mt.step = t, kind, meta.cls, flag, step
        mt.desc = dict(meta.desc, history_step=step, n_schedules=len(sched), ctor_options=sorted(opts))
        mt.ref = RefModel(kind, bc, state_vecs, povm_vecs, sched, m)
        mt.nvar = meta.nvar
        mt.A_ref = mt.b_ref = mt.rank_A_q = None
        with hs.paused():
            mt.A_q = np.asarray(t.calc_matA(), dtype=float)
            mt.b_q = np.asarray(t.calc_vecB(), dtype=float).reshape(-1)
        if case.all_raws is not None:
            base = mt.ref.born_all(case.all_raws[0]).real
            mt.A_ref = np.array([mt.ref.born_all(r).real - base for r in case.all_raws[1:]]).T.reshape(mt.ref.total, mt.nvar)
            mt.b_ref = base
        mt.ask_rank = rank
        mon.reg[id(t)] = mt
        if rank:
            mt.rank_A_q = rank_zones(mt.A_q) if mt.A_q.ndim == 2 else (0, False)
            with ph.step(step):
                judge_ic(ctx, mon, mt)
        return mt

    sibs = []
    # twin: the first tomography's testers rotated by one random unitary (same counts, same ranks, same IC-ness, other arrays)
    U = ref.rand_unitary(bc.d, hrng)
    rot = lambda X: ref.herm_part(U @ X @ ref.dag(U))  # noqa: E731
    t_state_vecs = [clean(bc.coeffs(rot(X)).real) for X in R.state_ops]
    t_povm_vecs = [[clean(bc.coeffs(rot(M)).real) for M in ms] for ms in R.povm_ops]

    def mk_twin_testers(req):
        st = [Q.State(c_sys, v.copy(), is_physicality_required=req) for v in t_state_vecs]
        pv = [Q.Povm(c_sys, [v.copy() for v in vs], is_physicality_required=req) for vs in t_povm_vecs]
        return st, pv

    ok, val = ctx.attempt(mk_twin_testers, True)
    if not ok:
        ok, val = ctx.attempt(mk_twin_testers, False)
    if ok:
        t_states, t_povms = val
        # every second tester reaches the constructor through copy()
        ok, val = ctx.attempt(lambda: ([x.copy() if k % 2 else x for k, x in enumerate(t_states)],
                                       [x.copy() if k % 2 == 0 else x for k, x in enumerate(t_povms)]))
        if ok:
            t_states, t_povms = val
        t_opts = draw_opts(hrng, 0.5)
        # custom schedules: the list as the first tomography's experiment returns it
        t_arg = case.arg if isinstance(case.arg, str) else tomo.experiment.schedules
        mt = sibling("twin-tomography" + ("+ctor-options" if t_opts else ""), t_states, t_povms, t_state_vecs, t_povm_vecs,
                     t_arg, list(R.sched), t_opts)
        if mt is not None:
            sibs.append(mt)
            ctx.count("hist:twin-tomography")
    # the very same tester objects (and list objects) with another schedule list
    lst = list(R.sched)[::-1]
    if len(lst) > 2 and hrng.random() < 0.7:
        del lst[int(hrng.integers(0, len(lst)))]
    mt = sibling("re-used-testers", case.states, case.povms, case.state_vecs, case.povm_vecs, sched_arg(kind, lst), lst, {},
                 rank=not big)
    if mt is not None:
        sibs.append(mt)
        ctx.count("hist:re-used-testers")
    if sibs:
        shared = [objs[0], cand[-1]]
        for k, o in enumerate(shared):
            for pos, mt in enumerate([meta] + sibs + [meta]):
                # circuit passes: every sibling once and the first tomography once after them; big configurations: first sibling only
                ask_dists(mt, o, seq=k == 0 and pos > 0 and (mt is sibs[0] or not big))
        for pos, mt in enumerate(sibs + [meta] + sibs[::-1]):
            ask_model(mt, full=mt is not meta, rank=(pos < len(sibs) and mt.ask_rank) or (mt is meta and not big))

    # ---- (b) the tomography and two candidates after a pickle round trip
    ok, val = ctx.attempt(lambda: pickle.loads(pickle.dumps((tomo, [objs[0], cand[-1]]))))
    if ok:
        clone, (o1, o2) = val
        mc = copy.copy(meta)
        mc.tomo, mc.step = clone, "via-pickle"
        mc.desc = dict(meta.desc, history_step="via-pickle")
        mon.reg[id(clone)] = mc
        ask_model(mc, full=True, rank=not big)
        ask_dists(mc, o1, seq=True)
        ask_dists(mc, o2, k=3)
        ask_dists(meta, objs[0], step="second-call")
        ctx.count("hist:via-pickle")
    else:
        ctx.count("hist:pickle-round-trip-failed")  # not this property's business

    # ---- (b) candidates that are not constructor-made
    o = objs[min(1, len(objs) - 1)]
    ok, var = ctx.attempt(mon.var_of, meta, o)
    makers = [("candidate-via-copy", lambda: o.copy())]
    if ok:
        makers += [("candidate-via-generate_from_var", lambda: o.generate_from_var(np.array(var))),
                   ("candidate-via-convert_var_to_qoperation", lambda: tomo.convert_var_to_qoperation(np.array(var)))]
    for step, mk in makers:
        ok, dobj = ctx.attempt(mk)
        if not ok:
            ctx.count("hist:candidate-maker-raised")  # C03 territory
            continue
        circuit_too = step == "candidate-via-copy" or (not big and step == "candidate-via-convert_var_to_qoperation")
        ask_dists(meta, dobj, seq=circuit_too, step=step)
        for mt in sibs[:1]:
            ask_dists(mt, dobj, step=step)
        ctx.count("hist:candidate-provenance")

    # ---- (a) ONE experiment copy re-used for several objects through the public setters
    exp = tomo.experiment.copy()
    seq = [objs[-1], objs[0], objs[-1]]
    alive = True
    for k, o in enumerate(seq):
        ok, e = ctx.attempt(setattr, exp, case.attr, [o])
        if not ok:
            ctx.count("hist:experiment-setter-raised")  # setters are C20's business
            alive = False
            break
        with ph.step("experiment:after-setter" if k else "experiment:via-setter"):
            judge_experiment(ctx, hs, mon, meta, exp, o, some_js(meta) if k else range(min(nS, 12)))
    if alive and nS > 1:
        k = int(hrng.integers(1, nS))
        old = list(exp.schedules)
        ok, e = ctx.attempt(setattr, exp, "schedules", old[k:] + old[:k])
        if ok:
            with ph.step("experiment:after-schedules-setter"):
                judge_experiment(ctx, hs, mon, meta, exp, seq[-1], sorted(set([0, nS - 1, nS - k, max(0, nS - k - 1)])),
                                 index_of=lambda j: (j + k) % nS)
        else:
            ctx.count("hist:experiment-setter-raised")
    if alive:
        ctx.count("hist:experiment-setters")

    # ---- candidates created, asked and dropped one after the other (same id() again), tomographies alternating
    pool = [meta] + sibs
    for t in range(4):
        raw = rand_candidate(kind, bc, m, hrng, "interior")
        ok, o = ctx.attempt(make_obj, Q, kind, c_sys, raw, flag)
        if not ok:
            continue
        mt = pool[t % len(pool)]
        with ph.step(stepname(mt, "transient-candidate")):
            ctx.attempt(mt.tomo.calc_prob_dists, o)
        del o
    ctx.count("hist:transient-candidate")


# ------------------------------------------------------------------ driver

PHYS_CAP = {"quick": {"S1": 10**6, "S3": 10**6, "S2": 70}, "thorough": {"S1": 10**6, "S3": 10**6, "S2": 10**6}}


def pick_config(kind, shape, rng, case):
    dims = gen.SHAPES[shape]
    qubits = all(x == 2 for x in dims)
    cfg = {"basis": str(rng.choice(["std", "nggm"]))}
    cfg["mixed_req"] = bool(rng.random() < 0.65)
    r = rng.random()
    pd = sd = "ic"
    if kind in ("qst", "qpt", "qmpt"):
        pd = "ic" if r < 0.55 else str(rng.choice(["few", "diag", "commuting", "hyperplane"] + (["pauli"] if qubits else [])))
    if kind in ("povmt", "qpt", "qmpt"):
        r2 = rng.random()
        if kind == "povmt":
            sd = "ic" if r2 < 0.55 else str(rng.choice(["few", "real", "hyperplane"] + (["pauli"] if qubits else [])))
        else:
            sd = "ic" if (r2 < 0.7 or pd not in ("ic", "pauli")) else str(rng.choice(["few", "real", "hyperplane"] + (["pauli"] if qubits else [])))
    if case == 0 and qubits:  # the upstream textbook example is always present once per shard
        pd = sd = "pauli"
        cfg["sched_mode"] = "all"
    else:
        cfg["sched_mode"] = str(rng.choice(["all", "explicit", "perm", "subset", "rep", "mix"]))
    cfg["povm_design"], cfg["state_design"] = pd, sd
    cfg["m"] = int(rng.integers(2, 5)) if kind in ("povmt", "qmpt") else 0
    if kind == "qmpt" and shape == "S2":
        cfg["m"] = int(rng.integers(2, 4))
    return cfg


def run_shard(ctx):
    p = ctx.params
    kind, shape, flag = p["kind"], p["shape"], bool(p["flag"])
    dims = gen.SHAPES[shape]
    Q = gen.q()
    from quara.objects.operators import compose_qoperations

    hs, mon, classes = install(ctx)
    ph = PhaseKeys(ctx)
    cls = classes[kind]
    csys_cache = {}
    tested_ref = False
    try:
        for i in ctx.cases(p["n"], start=p.get("part", 0) * p["n"]):
            rng = ctx.rng()
            hrng = ctx.rng(1)  # history steps and constructor options: own stream, the ordinary workload is unchanged
            ph.new_case()
            cfg = pick_config(kind, shape, rng, i)
            opts = {} if i == 0 else draw_opts(hrng, 1.0 / 3.0)
            if cfg["basis"] not in csys_cache:
                c = gen.make_csys(dims, kind=cfg["basis"])
                csys_cache[cfg["basis"]] = (c, BasisCtx(gen.basis_of(c)))
            c_sys, bc = csys_cache[cfg["basis"]]
            d = c_sys.dim
            # ---------------- testers (raw arrays are the ground truth handed to both sides)
            state_vecs, povm_vecs = [], []
            if kind != "qst":
                state_vecs = [clean(bc.coeffs(r).real) for r in design_states(dims, rng, cfg["state_design"], bc)]
            if kind != "povmt":
                povm_vecs = [[clean(bc.coeffs(M).real) for M in ms] for ms in design_povms(dims, rng, cfg["povm_design"], cfg["mixed_req"], bc)]
            arg, sched, custom = schedule_list(kind, len(state_vecs), len(povm_vecs), rng, cfg["sched_mode"])
            m = cfg["m"]

            def mk_testers(req):
                st = [Q.State(c_sys, v.copy(), is_physicality_required=req) for v in state_vecs]
                pv = [Q.Povm(c_sys, [v.copy() for v in vs], is_physicality_required=req) for vs in povm_vecs]
                return st, pv

            ok, val = ctx.attempt(mk_testers, True)
            if not ok:
                ctx.count("tester_rejected_as_unphysical")
                ok, val = ctx.attempt(mk_testers, False)
            if not ok:
                ctx.violation("tester-ctor:" + ctx.exc_key(val), {"config": cfg})
                continue
            states, povms = val
            kw = dict(on_para_eq_constraint=flag, schedules=arg, **opts)
            if kind == "qst":
                ctor = lambda: cls(povms, **kw)  # noqa: E731
            elif kind == "povmt":
                ctor = lambda: cls(states, m, **kw)  # noqa: E731
            elif kind == "qpt":
                ctor = lambda: cls(states, povms, **kw)  # noqa: E731
            else:
                ctor = lambda: cls(states, povms, m, **kw)  # noqa: E731
            ok, tomo = ctx.attempt(ctor)
            desc = {"class": CLS[kind], "shape": shape, "flag": flag, "basis": cfg["basis"], "povm_design": cfg["povm_design"],
                    "state_design": cfg["state_design"], "schedule_mode": cfg["sched_mode"], "m_unknown": m,
                    "povm_outcome_counts": [len(v) for v in povm_vecs][:16], "n_states": len(state_vecs), "n_schedules": len(sched),
                    "ctor_options": sorted(opts)}
            if opts:
                ctx.count("cfg:non-default-ctor-options")
            if not ok:
                ctx.violation(f"ctor:{CLS[kind]}:" + ctx.exc_key(tomo), {"config": desc})
                continue
            # ---------------- registration: reference model and reference affine map
            meta = Meta()
            meta.tomo, meta.kind, meta.cls, meta.flag, meta.desc = tomo, kind, CLS[kind], flag, desc
            meta.ref = RefModel(kind, bc, state_vecs, povm_vecs, sched, m)
            meta.nvar = meta.ref.nvar(flag)
            meta.A_ref = meta.b_ref = meta.rank_A_q = None
            R = meta.ref
            with hs.paused():
                meta.A_q = np.asarray(tomo.calc_matA(), dtype=float)
                meta.b_q = np.asarray(tomo.calc_vecB(), dtype=float).reshape(-1)
            mon.reg[id(tomo)] = meta
            ctx.count(f"cfg:{'mixed' if R.mixed else 'uniform'}-counts")
            ctx.count(f"cfg:schedule:{cfg['sched_mode']}")
            trivial = cfg["povm_design"] in ("pauli",) and cfg["state_design"] in ("pauli", "ic") and kind != "povmt" and not custom \
                or (kind == "povmt" and cfg["state_design"] == "pauli" and not custom)
            if not trivial:
                ctx.nontrivial(kind, shape, flag, cfg["basis"], [list(s) for s in sched], m,
                               np.hstack([np.ravel(v) for v in state_vecs] + [np.ravel(v) for vs in povm_vecs for v in vs]))
            if i < 3:
                ctx.sample(dict(desc, schedules=[list(s) for s in sched][:8], first_tester=(povm_vecs[0] if povm_vecs else state_vecs[0])))

            # unit vectors of variable space -> reference affine map
            nv = meta.nvar
            cols = np.zeros((R.total, nv))
            base = None
            roundtrip_bad = 0.0
            unit_raws = []
            all_raws = []  # raw arrays of var=0 and of every unit vector (re-used for the sibling tomographies of the history steps)
            build_ok = True
            with hs.paused():
                for k in range(-1, nv):
                    v = np.zeros(nv)
                    if k >= 0:
                        v[k] = 1.0
                    ok, o = ctx.attempt(tomo.convert_var_to_qoperation, v)
                    if not ok:
                        build_ok = False
                        ctx.note(f"convert_var_to_qoperation raised {type(o).__name__}: reference affine map not built (C03 territory)")
                        break
                    ok2, back = ctx.attempt(mon.var_of, meta, o)
                    if not ok2 or np.shape(back) != (nv,):
                        build_ok = False
                        break
                    roundtrip_bad = max(roundtrip_bad, maxabs(back, v))
                    raw = raw_of(o)
                    pb = R.born_all(raw)
                    all_raws.append(raw)
                    if k < 4:
                        unit_raws.append(raw)
                    if k < 0:
                        base = pb.real
                    else:
                        cols[:, k] = pb.real - base
            if build_ok and roundtrip_bad <= 1e-13:
                meta.A_ref, meta.b_ref = cols, base
                ctx.count("affine_basis_objects", nv + 1)
            else:
                ctx.skip("calc_matA:vs-born")
                ctx.note(f"unit-vector objects not usable (var round trip error {roundtrip_bad}); C03 territory")
            if not tested_ref or i % 7 == 0:
                self_test(ctx, meta, unit_raws, rng)
                tested_ref = True

            # ---------------- contracts on the model itself
            ctx.attempt(lambda: tomo.num_variables)
            for j in range(len(sched)):
                ctx.attempt(tomo.num_outcomes, j)
            ctx.attempt(tomo.calc_matA)
            ctx.attempt(tomo.calc_vecB)
            meta.rank_A_q = rank_zones(meta.A_q)
            ctx.attempt(tomo.is_fullrank_matA)

            # informational completeness from dense operators vs column rank of quara's A
            judge_ic(ctx, mon, meta, cfg)

            # ---------------- circuit on an affine basis of the physical affine hull
            hull_dim = R.nvar(True)
            n_need = hull_dim + 1
            n_phys = min(n_need, PHYS_CAP[ctx.tier][shape])
            raws = []
            for t in range(n_phys):
                raws.append(rand_candidate(kind, bc, m, rng, "interior"))
            if n_phys == n_need:
                Mx = np.array([np.ravel(r) for r in raws])
                r_aff, dec_aff = rank_zones(Mx[1:] - Mx[0])
                if dec_aff and r_aff == hull_dim:
                    ctx.count("circuit_affine_basis_complete")
                else:
                    ctx.note("random physical objects not affinely independent (generator)")
            else:
                ctx.count("circuit_affine_basis_sampled")
            objs = []
            for raw in raws:
                ok, o = ctx.attempt(make_obj, Q, kind, c_sys, raw, flag)
                if not ok:
                    ctx.violation("candidate-ctor:" + ctx.exc_key(o), {"config": desc})
                    continue
                objs.append(o)
                ctx.attempt(tomo.generate_prob_dists_sequence, o)
            # the same through a copy of the experiment filled by the driver (not by generate_prob_dists_sequence)
            attr = {"qst": "states", "povmt": "povms", "qpt": "gates", "qmpt": "mprocesses"}[kind]
            for o in objs[:3]:
                exp = tomo.experiment.copy()
                getattr(exp, attr)[0] = o
                judge_experiment(ctx, hs, mon, meta, exp, o, range(len(sched)))
            # QMPT: order of (unknown outcome, tester outcome) against the shape the circuit reports
            if kind == "qmpt" and objs:
                o = objs[0]
                born = R.born_all(raw_of(o))
                js = [j for j in range(len(sched)) if R.n_povm[sched[j][1]] != m][:3] or [0]
                for j in js:
                    si, pj = sched[j]
                    with hs.paused():
                        ok, dist = ctx.attempt(compose_qoperations, povms[pj], o, states[si])
                    if not ok:
                        ctx.violation("compose_qoperations:Povm*MProcess*State:" + ctx.exc_key(dist), {"config": desc})
                        continue
                    shp = tuple(int(s) for s in dist.shape)
                    mp = R.n_povm[pj]
                    P = R.slice(born, j).real.reshape(m, mp)  # [unknown outcome x, tester outcome y]
                    ps = np.asarray(dist.ps, dtype=float)
                    if shp == (m, mp):
                        want = P
                    elif shp == (mp, m):
                        want = P.T
                    else:
                        ctx.truth("qmpt:circuit-outcome-order", False, key="qmpt:circuit-shape:neither-(m,m_povm)-nor-(m_povm,m)", info={"shape": list(shp)})
                        continue
                    if ps.size != m * mp or dist_expected(P.reshape(-1)) is None:
                        ctx.skip("qmpt:circuit-outcome-order")
                        continue
                    e_c = maxabs(ps.reshape(shp), want)
                    with hs.paused():
                        model = mon.model(meta, o)
                        no = tomo.num_outcomes(j)
                    if model is None:
                        ctx.skip("qmpt:circuit-outcome-order")
                        continue
                    mj = R.slice(model, j)
                    e_m = maxabs(mj.reshape(shp), want)
                    ctx.num("qmpt:circuit-outcome-order", e_c, TOL_PASS, TOL_FAIL, key="qmpt:circuit:outcome-order-contradicts-reported-shape",
                            info={"shape": list(shp), "m": m, "m_povm": mp})
                    ctx.num("qmpt:model-outcome-order", e_m, TOL_PASS, TOL_FAIL, key=f"forward-model:{mon.tag(meta)}:outcome-order-contradicts-circuit-shape",
                            info={"shape": list(shp), "m": m, "m_povm": mp})
                    ctx.truth("num_outcomes", no == int(np.prod(shp)), key="num_outcomes:StandardQmpt:differs-from-circuit-shape")

            # off the constraint surface (unconstrained parametrisation): circuit normalises, model does not
            if not flag and kind in ("qst", "povmt", "qpt") and raws:
                for t in range(2):
                    raw = np.array(raws[t], dtype=float)
                    if kind == "qst":
                        raw[0] *= 1.0 + 0.2 * (t + 1)
                    elif kind == "povmt":
                        raw = raw * (1.0 + 0.15 * np.arange(1, raw.shape[0] + 1))[:, None]
                    else:
                        raw[0, :] += 0.05 * rng.standard_normal(raw.shape[1]) * raw[0, 0]
                    ok, o = ctx.attempt(make_obj, Q, kind, c_sys, raw, flag)
                    if not ok:
                        continue
                    with hs.paused():
                        model = mon.model(meta, o)
                        ok, seq = ctx.attempt(tomo.generate_prob_dists_sequence, o)
                    if not ok or model is None:
                        ctx.skip("circuit:off-constraint:normalised")
                        continue
                    for j in range(len(sched)):
                        want = normalised(R.slice(model, j))
                        if want is None:
                            ctx.skip("circuit:off-constraint:normalised")
                            continue
                        ctx.num("circuit:off-constraint:normalised", maxabs(np.asarray(seq[j], dtype=float).reshape(-1), want), TOL_PASS, TOL_FAIL,
                                key=f"forward-model:{mon.tag(meta)}:normalised-model-differs-from-circuit-off-constraint", info={"schedule": j, "config": desc})

            # ---------------- calc_prob_dists / calc_prob_dist on random physical objects (interior and boundary)
            cand = list(objs[:4])
            for t in range(8):
                raw = rand_candidate(kind, bc, m, rng, "boundary" if t % 2 else "interior")
                ok, o = ctx.attempt(make_obj, Q, kind, c_sys, raw, flag)
                if ok:
                    cand.append(o)
            for o in cand:
                ctx.attempt(tomo.calc_prob_dists, o)
                for j in sorted(set([0, len(sched) - 1, int(rng.integers(0, len(sched)))])):
                    ctx.attempt(tomo.calc_prob_dist, o, j)

            # ---------------- history / combination steps on the same objects
            case = Meta()
            case.kind, case.flag, case.cls, case.c_sys, case.bc, case.m, case.cfg = kind, flag, cls, c_sys, bc, m, cfg
            case.arg, case.sched, case.states, case.povms = arg, sched, states, povms
            case.objs, case.cand, case.attr, case.state_vecs, case.povm_vecs = objs, cand, attr, state_vecs, povm_vecs
            case.all_raws = all_raws if meta.A_ref is not None else None
            try:
                run_history(ctx, hs, mon, ph, Q, meta, case, hrng)
            finally:
                ph.cur = None
                for key in [k for k, mt in mon.reg.items() if mt is not meta]:
                    del mon.reg[key]
            del mon.reg[id(tomo)]
    finally:
        hs.uninstall()
        ph.restore()
    ctx.extra["hook_counts"] = hs.counts
    hs.require([f"{CLS[kind]}.{n}" for n in HOOKED])


def finalize(merged, ctx):
    c = merged["counters"]
    for need in ("cfg:mixed-counts", "cfg:uniform-counts", "cfg:IC", "cfg:non-IC", "circuit_affine_basis_complete", "ref_self_test",
                 "cfg:non-default-ctor-options", "hist:second-call", "hist:after-consumer", "hist:consumer:LinearEstimator:returned",
                 "hist:twin-tomography", "hist:re-used-testers", "hist:via-pickle", "hist:candidate-provenance",
                 "hist:experiment-setters", "hist:transient-candidate"):
        if c.get(need, 0) == 0:
            ctx.mark_inconclusive(f"workload never produced: {need}")
