"""C12  Loss values, derivatives and fast paths agree; every weighting mode takes effect.

Monitors (post-conditions on the real quara functions, evaluated on every call):

* ``value`` / ``gradient`` / ``hessian`` of WeightedProbabilityBasedSquaredError (SE),
  WeightedRelativeEntropy (RE), their StandardQTomographyBased... fast variants (FSE, FRE)
  and SimpleQuadraticLossFunction;
* ``relative_entropy(_vector)``, ``gradient_relative_entropy_2nd(_vector)``,
  ``hessian_relative_entropy_2nd``; ``replace_prob_dist``; ``calc_covariance_mat``.

Oracles (the reference formulas live in this module, plain numpy, never calling quara;
``A = qt.calc_matA()``, ``b = qt.calc_vecB()`` are *read* from the tomography object,
the forward model itself is C08's business):

O1 config     after a loss has been configured (estimator path
              ``set_from_standard_qtomography_option_data``, constructor, or public setter)
              the monitor-visible weights (``weight_matrices`` / ``weights``) are the ones
              that were asked for: identity -> none; custom -> the given list; inverse
              covariance modes -> see "weight definition" below; symmetric, PSD.
O2 formula    value / gradient / Hessian = defining formula on p = A var + b, the data q and
              the *visible* weights:  SE  sum_j (p_j-q_j)^T W_j (p_j-q_j);
              RE  sum_j w_j sum_{x: q_jx>0} q_jx log(q_jx/p_jx)  (0 log 0 = 0).
              O1 + O2 together are "value = formula on the weights the option asked for".
O3 derivative gradient = derivative of the *reported* value: central differences of ``value``
              along 2 n_var unit directions (coordinate and random; 8 at the further points of the same
              loss object); for the quadratic losses the identity
              f(x+hd)-f(x-hd) = 2h g.d is exact (1e-11 / 1e-8); for the entropy losses a
              three level Romberg table with its own error estimate (1e-6 pass / 1e-3 fail
              relative to |g|; no verdict when the estimate is not 10x below the pass
              tolerance).  Hessian = the same on ``gradient``, and symmetric.
O4 fast       fast == generic for the same (qtomography, option / weights, data), value and
              gradient, 1e-11 / 1e-8 relative.
O5 effect     every mode string the option constructor accepts changes ``value`` relative to
              "identity" whenever the reference weights differ from identity.

Weight definition used for the inverse covariance modes.  The docstrings say:
"inverse_sample_covariance: uses inverse matrices of Sample Covariance Matrices",
"inverse_unbiased_covariance: ... of Unbiased Covariance Matrices", and
``calc_covariance_mat``: "(diag(q) - q q^T)/n".  That matrix is singular on the all-ones
vector, so "inverse" only fixes the quadratic form on differences that sum to zero, where every
generalised inverse (reduced (m-1)-block inverse, pseudo inverse, ...) gives
n * sum_x v_x^2 / q~_x  (n-1 for the unbiased variant) with q~ the regularised data
(entries < 1e-8 raised to 1e-8, the others lowered uniformly so that the sum is kept:
``replace_prob_dist``).  The implementation additionally adds an *undocumented* ridge
I/n^{3/2} to the reduced covariance block before inverting.  Because the documentation neither
mentions nor excludes it, O1 accepts either candidate (textbook without ridge; ridge as
implemented) and compares only on the sum-zero subspace; everything else about those modes is
judged through what is unambiguous: value consistent with the visible weights (O2), weights
symmetric PSD (O1), fast == generic (O4), mode has an effect (O5).
``"unbiased_inverse_covariance"`` is accepted by the option constructor but not documented; it
is judged only by O5 / "weights are set at all" (assumption: it is meant as an alias of
``inverse_unbiased_covariance``, used only to decide that the reference weights differ from
identity).

Every configuration is first evaluated on a freshly constructed loss object (O1..O5 above).

History / combination steps (same oracles, objects with a past; everything is a public operation, and each case
carries its whole history so that a replay reproduces it).  Per case and loss family one *veteran* V and one *rival*
R of the same class are driven through the same plan for the generic and the fast class:

 1 V fresh (option or constructor path)          2 R fresh: other tomography of the SAME shape, other data / mode
 3 V and R asked again, interleaved, other order of value / gradient                      (":second-call")
 4 V re-set by ``set_from_standard_qtomography_option_data`` with the same tomography and the same option OBJECT
   and the next dataset - what ``calc_estimate_sequence`` does with one loss object       (":re-used-object")
 5 ``set_prob_dists_q(new data)``   6/7 ``set_weight_matrices`` / ``set_weights`` (other custom weights, None; either
   order)   8 the model setters (``set_func_*prob_dists`` resp. ``..._from_standard_qt``) with a third tomography
   of the same shape, weights kept                                                          (":after-setter")
 9 re-set with another tomography of the same shape, 10 of ANOTHER shape (other parametrisation / number of
   outcomes; sometimes ``is_gradient_required=False`` and value only), 11 back to the first tomography with new
   data and another mode; 12 R re-set with V's option object and data list                 (":re-used-object")

After every step the Judge is told what the object was given last, O1 is judged where weights were (re)configured,
the hooks judge every value / gradient (/ Hessian at 1, 9, 11) by O2 / O3 against the model, data and visible weights
now in force, and the veteran's FIRST point is asked again wherever the shape allows (a memo keyed by the argument
alone only shows on the same argument).  ``H O4``: fast == generic step by step.  ``H returned arrays unchanged``:
every array a loss / entropy / matrix_util function returned is kept and must be unchanged at the end of the case
(same object compared with a copy: no rounding involved).  Not demanded: that ``set_prob_dists_q`` recomputes
inverse-covariance weights (O1 is not re-judged there), bit-equality of repeated calls, ``num_var`` of the fast
classes.  Functions shard: every entropy function is called again with exactly one argument changed and then with
the first arguments; ``calc_covariance_mat`` / ``replace_prob_dist`` likewise; a second SimpleQuadraticLossFunction of
the same size is built and asked before the first one is asked again (":second-call", ":rival-of-same-size").

Violation keys: ``<class or family>:<mode>:<mechanism>[:second-call | :after-setter | :re-used-object]``; keys that
carry such a suffix can only come from a history step.
"""
import numpy as np

from qv import gen, ref
from qv.monitor import HookSet

ID = "C12"
RULE = ("per case: one random tomography (QST / POVMT / QPT / QMPT on a qubit, m in 2..5 outcomes per schedule, both "
        "on_para_eq_constraint flags; plus qutrit QST/POVMT), random testers, empirical distributions from multinomial "
        "counts (n in 20..10000, zero entries forced in ~half of the cases) or exact probabilities; every loss class x "
        "weighting configuration (identity, custom SPD matrices / positive vectors through option, constructor and "
        "setter, all inverse-covariance mode strings) on a fresh loss object, evaluated at points inside and outside the "
        "physical set (entropy losses: p >= 1e-4 wherever q > 0).  A case is distinct by (tomography, m, flag, class, "
        "mode, path, rounded var, rounded data, rounded weights) and non-trivial when value > 0 and at least one of: "
        "m >= 3, non-identity weights, a zero entry in the data, a non-physical point.  History steps per case and family "
        "(generic and fast class alike): a veteran and a rival loss object of the same class and shape are asked again "
        "interleaved, re-set through set_from_standard_qtomography_option_data (same option object + next dataset; other "
        "tomography of the same shape; of another shape; back), changed through set_prob_dists_q / set_weight_matrices / "
        "set_weights / the model setters, and judged by the same oracles after every step; returned arrays must stay "
        "unchanged by later calls; pure functions are called again with one argument changed")
_LF = "quara/loss_function/"
ANCHORS = [
    _LF + "weighted_probability_based_squared_error.py:WeightedProbabilityBasedSquaredError.value",
    _LF + "weighted_probability_based_squared_error.py:WeightedProbabilityBasedSquaredError.gradient",
    _LF + "weighted_probability_based_squared_error.py:WeightedProbabilityBasedSquaredError.hessian",
    _LF + "weighted_probability_based_squared_error.py:WeightedProbabilityBasedSquaredError._set_weights_by_mode",
    _LF + "weighted_relative_entropy.py:WeightedRelativeEntropy.value",
    _LF + "weighted_relative_entropy.py:WeightedRelativeEntropy.gradient",
    _LF + "weighted_relative_entropy.py:WeightedRelativeEntropy.hessian",
    _LF + "standard_qtomography_based_weighted_probability_based_squared_error.py:StandardQTomographyBasedWeightedProbabilityBasedSquaredError.value",
    _LF + "standard_qtomography_based_weighted_probability_based_squared_error.py:StandardQTomographyBasedWeightedProbabilityBasedSquaredError.gradient",
    _LF + "standard_qtomography_based_weighted_relative_entropy.py:StandardQTomographyBasedWeightedRelativeEntropy.value",
    _LF + "standard_qtomography_based_weighted_relative_entropy.py:StandardQTomographyBasedWeightedRelativeEntropy.gradient",
    _LF + "probability_based_loss_function.py:ProbabilityBasedLossFunction.set_from_standard_qtomography_option_data",
    _LF + "simple_quadratic_loss_function.py:SimpleQuadraticLossFunction.value",
    _LF + "simple_quadratic_loss_function.py:SimpleQuadraticLossFunction.gradient",
    _LF + "simple_quadratic_loss_function.py:SimpleQuadraticLossFunction.hessian",
    "quara/math/entropy.py:relative_entropy", "quara/math/entropy.py:relative_entropy_vector",
    "quara/math/entropy.py:gradient_relative_entropy_2nd", "quara/math/entropy.py:gradient_relative_entropy_2nd_vector",
    "quara/math/entropy.py:hessian_relative_entropy_2nd",
    "quara/utils/matrix_util.py:replace_prob_dist", "quara/utils/matrix_util.py:calc_covariance_mat",
]
REQUIRED_REACH = ANCHORS
REQUIRED_ORACLES = ["O1 configured weights == requested", "O2 value == formula(visible weights)",
                    "O2 gradient == formula(visible weights)", "O2 hessian == formula(visible weights)",
                    "O3 gradient == d(value) quadratic-exact", "O3 gradient == d(value) romberg",
                    "O3 hessian == d(gradient) quadratic-exact", "O3 hessian == d(gradient) romberg",
                    "O3 hessian symmetric", "O4 fast == generic value", "O4 fast == generic gradient",
                    "O5 mode changes value", "H history step succeeds", "H O4 fast == generic value (objects with a history)",
                    "H O4 fast == generic gradient (objects with a history)", "H returned arrays unchanged by later calls",
                    "relative_entropy == formula", "relative_entropy_vector == formula",
                    "gradient_relative_entropy_2nd == formula", "gradient_relative_entropy_2nd_vector == formula",
                    "hessian_relative_entropy_2nd == formula", "calc_covariance_mat == (diag(q)-qq^T)/n",
                    "replace_prob_dist contract", "SimpleQuadratic value == |var-ref|^2"]
MIN_EVALS = {"quick": 5000, "thorough": 50000}
WATCHDOG = {"quick": 900, "thorough": 3600}
ASSUMPTIONS = [
    "p = A var + b with A, b read from the tomography object (forward model is C08's subject)",
    "inverse-covariance weights: textbook reduced inverse OR the implemented ridge I/n^1.5 variant accepted, compared on "
    "the sum-zero subspace (documentation does not fix a generalised inverse / regularisation)",
    "'unbiased_inverse_covariance' is judged only for having an effect (undocumented alias)",
]

P_MIN = 1e-6          # documented clipping thresholds are 1e-10; the property quantifies over p, q >= 1e-6
EPS_REPLACE = 1e-8
SE_MODES = ["identity", "custom", "inverse_sample_covariance", "inverse_unbiased_covariance", "unbiased_inverse_covariance"]
DECOY_MODES = ["inverse_covariance", "Identity", "sample_covariance", "", "none", "weighted"]


# ============================================================ lazy quara names


def L():
    import types

    import quara.math.entropy as entropy
    import quara.utils.matrix_util as mutil
    from quara.loss_function.simple_quadratic_loss_function import SimpleQuadraticLossFunction as SQ
    from quara.loss_function.standard_qtomography_based_weighted_probability_based_squared_error import (
        StandardQTomographyBasedWeightedProbabilityBasedSquaredError as FSE,
        StandardQTomographyBasedWeightedProbabilityBasedSquaredErrorOption as FSEOpt)
    from quara.loss_function.standard_qtomography_based_weighted_relative_entropy import (
        StandardQTomographyBasedWeightedRelativeEntropy as FRE, StandardQTomographyBasedWeightedRelativeEntropyOption as FREOpt)
    from quara.loss_function.weighted_probability_based_squared_error import (
        WeightedProbabilityBasedSquaredError as SE, WeightedProbabilityBasedSquaredErrorOption as SEOpt)
    from quara.loss_function.weighted_relative_entropy import WeightedRelativeEntropy as RE, WeightedRelativeEntropyOption as REOpt
    from quara.protocol.qtomography.standard.standard_povmt import StandardPovmt
    from quara.protocol.qtomography.standard.standard_qmpt import StandardQmpt
    from quara.protocol.qtomography.standard.standard_qpt import StandardQpt
    from quara.protocol.qtomography.standard.standard_qst import StandardQst

    return types.SimpleNamespace(**locals())


# ======================================================= reference (no quara)


class Model:
    """p_j(var) = A_j var + b_j ;  data (n_j, q_j) ;  K schedules with m outcomes each."""

    def __init__(self, A, b, m, ns, qs):
        self.A = np.array(A, dtype=np.float64)
        self.b = np.array(b, dtype=np.float64).reshape(-1)
        self.m = int(m)
        self.K = self.A.shape[0] // self.m
        self.nvar = self.A.shape[1]
        self.ns = [int(n) for n in ns]
        self.qs = [np.array(q, dtype=np.float64) for q in qs]
        self.Aj = [self.A[j * self.m:(j + 1) * self.m] for j in range(self.K)]

    def ps(self, var):
        return (self.A @ np.asarray(var, dtype=np.float64) + self.b).reshape(self.K, self.m)


def se_ref(model, Ws, var, what):
    """(reference, scale) of the weighted squared error; Ws None = identity."""
    ps = model.ps(var)
    n = model.nvar
    if what == "value":
        out, sc = 0.0, 0.0
    elif what == "gradient":
        out, sc = np.zeros(n), np.zeros(n)
    else:
        out, sc = np.zeros((n, n)), np.zeros((n, n))
    for j in range(model.K):
        v = ps[j] - model.qs[j]
        W = np.eye(model.m) if Ws is None else np.asarray(Ws[j], dtype=np.float64)
        Aj = model.Aj[j]
        if what == "value":
            out += v @ W @ v
            sc += np.abs(v) @ np.abs(W) @ np.abs(v)
        elif what == "gradient":
            out += Aj.T @ ((W + W.T) @ v)
            sc += np.abs(Aj).T @ ((np.abs(W) + np.abs(W.T)) @ np.abs(v))
        else:
            out += Aj.T @ (W + W.T) @ Aj
            sc += np.abs(Aj).T @ (np.abs(W) + np.abs(W.T)) @ np.abs(Aj)
    return out, float(np.max(sc)) if np.ndim(sc) else float(sc)


def re_judgeable(model, var):
    """entropy formulas are judged only away from the clipping thresholds"""
    ps = model.ps(var)
    for j in range(model.K):
        q, p = model.qs[j], ps[j]
        pos = q > 0
        if np.any(q < 0) or np.any(q[pos] < P_MIN) or np.any(p[pos] < P_MIN):
            return False
        if np.any(q[pos] / p[pos] < 1e-8):
            return False
    return True


def re_ref(model, ws, var, what):
    ps = model.ps(var)
    n = model.nvar
    if what == "value":
        out, sc = 0.0, 0.0
    elif what == "gradient":
        out, sc = np.zeros(n), np.zeros(n)
    else:
        out, sc = np.zeros((n, n)), np.zeros((n, n))
    for j in range(model.K):
        q, p = model.qs[j], ps[j]
        w = 1.0 if ws is None else float(ws[j])
        pos = q > 0
        qq, pp, Aj = q[pos], p[pos], model.Aj[j][pos]
        if what == "value":
            t = qq * np.log(qq / pp)
            out += w * np.sum(t)
            sc += abs(w) * np.sum(np.abs(t))
        elif what == "gradient":
            c = -qq / pp
            out += w * (c @ Aj)
            sc += abs(w) * (np.abs(c) @ np.abs(Aj))
        else:
            c = qq / pp ** 2
            out += w * (Aj.T * c) @ Aj
            sc += abs(w) * (np.abs(Aj).T * c) @ np.abs(Aj)
    return out, float(np.max(sc)) if np.ndim(sc) else float(sc)


def ref_replace(q, eps=EPS_REPLACE):
    q = np.asarray(q, dtype=np.float64)
    small = q < eps
    k = int(np.sum(small))
    out = np.where(small, eps, q)
    if 0 < k < q.size:
        out = np.where(small, eps, q - eps * k / (q.size - k))
    return out


def ref_cov(q, n):
    q = np.asarray(q, dtype=np.float64)
    return (np.diag(q) - np.outer(q, q)) / n


def inv_cov_candidates(q, n, unbiased):
    """candidate weight matrices of one schedule: textbook reduced inverse and the ridge variant"""
    m = len(q)
    qt = ref_replace(q)
    S = ref_cov(qt, (n - 1) if unbiased else n)[:m - 1, :m - 1]
    out = []
    for name, ridge in (("textbook", 0.0), ("ridge", 1.0 / n ** 1.5)):
        W = np.zeros((m, m))
        try:
            W[:m - 1, :m - 1] = np.linalg.inv(S + ridge * np.eye(m - 1))
        except np.linalg.LinAlgError:
            continue
        out.append((name, W))
    return out


def sum_zero_basis(m):
    """orthonormal basis (m x (m-1)) of the vectors whose entries sum to zero"""
    M = np.eye(m) - np.ones((m, m)) / m
    u, s, _ = np.linalg.svd(M)
    return u[:, :m - 1]


def romberg(f, x, d, h):
    """three-level Romberg estimate of d/dt f(x + t d) at 0 and an error estimate"""
    def D(hh):
        fp, fm = f(x + hh * d), f(x - hh * d)
        return (np.asarray(fp, dtype=np.float64) - np.asarray(fm, dtype=np.float64)) / (2 * hh), max(float(np.max(np.abs(fp))), float(np.max(np.abs(fm))))
    d0, s0 = D(h)
    d1, s1 = D(h / 2)
    d2, s2 = D(h / 4)
    r1a = (4 * d1 - d0) / 3
    r1b = (4 * d2 - d1) / 3
    r2 = (16 * r1b - r1a) / 15
    est = float(np.max(np.abs(r2 - r1b))) + 50 * 2.3e-16 * max(s0, s1, s2) / (h / 4)
    return r2, est


# ===================================================================== judge


def _vis_weights(loss, fam):
    w = loss.weight_matrices if fam == "SE" else loss.weights
    if w is None:
        return None
    try:
        if len(w) == 0:
            return None
    except TypeError:
        pass
    return w


def _relerr(a, b, scale):
    a = np.asarray(a, dtype=np.float64)
    b = np.asarray(b, dtype=np.float64)
    if a.shape != b.shape:
        return float("inf")
    if not np.all(np.isfinite(a)):
        return float("nan")
    return float(np.max(np.abs(a - b))) / max(scale, 1e-300)


class Judge:
    def __init__(self, ctx):
        self.ctx = ctx
        self.reg = {}      # id(loss) -> meta (holds the loss: no id reuse)
        self.dir_rng = None
        self.max_dirs_hess = 8

    # -------------------------------------------------------------- registry
    def register(self, loss, fam, cls, model, mode, path, expected, quadratic, suffix="", history=None, max_dirs=None):
        """(re-)registers a loss object: `model`, `expected` describe the configuration it has been given last.
        suffix: appended to every violation key judged in this state (history steps: ":second-call",
        ":after-setter", ":re-used-object"); history: the supported public operations the object went through."""
        meta = {"loss": loss, "fam": fam, "cls": cls, "model": model, "mode": mode, "path": path,
                "expected": expected, "quadratic": quadratic, "fail_keys": [], "suffix": suffix,
                "history": list(history or []), "max_dirs": max_dirs}
        if max_dirs is not None:
            meta["grad_checks"] = 1
        self.reg[id(loss)] = meta
        return meta

    def meta_of(self, loss):
        m = self.reg.get(id(loss))
        if m is None or m["loss"] is not loss:
            return None
        return m

    def _fail(self, meta, key):
        if key not in meta["fail_keys"]:
            meta["fail_keys"].append(key)

    def _info(self, meta, **kw):
        mo = meta["model"]
        d = {"class": meta["cls"], "mode": meta["mode"], "path": meta["path"], "m": mo.m, "schedules": mo.K, "n_var": mo.nvar,
             "n_data": mo.ns[:4], "q0": mo.qs[0]}
        if meta.get("history"):
            d["history"] = " -> ".join(meta["history"])
        d.update(kw)
        return d

    # ------------------------------------------------------------ O1 config
    def judge_config(self, meta):
        """visible weights after configuration vs the weights that were asked for"""
        ctx = self.ctx
        fam, mode, model = meta["fam"], meta["mode"], meta["model"]
        family = "WeightedProbabilityBasedSquaredError" if fam == "SE" else "WeightedRelativeEntropy"
        vis = _vis_weights(meta["loss"], fam)
        exp = meta["expected"]
        sfx = meta.get("suffix", "")
        name = "O1 configured weights == requested"
        if exp["kind"] == "identity":
            ok = vis is None
            if not ok:
                # explicit identity weights would be fine too
                if fam == "SE":
                    ok = all(np.array_equal(np.asarray(W), np.eye(model.m)) for W in vis)
                else:
                    ok = all(float(w) == 1.0 for w in vis)
            key = f"{family}:identity:previous-weights-kept{sfx}"
            if not ok:
                self._fail(meta, key)
            ctx.truth(name, ok, key=key, info=self._info(meta, visible=vis[0] if vis is not None else None))
            return
        if exp["kind"] == "custom":
            want = exp["weights"]
            if vis is None:
                key = f"{family}:{mode}:option-weights-never-set{sfx}"
                self._fail(meta, key)
                ctx.truth(name, False, key=key, info=self._info(meta, visible=None, requested=want[0]))
                return
            ok = len(vis) == len(want) and all(np.array_equal(np.asarray(a, dtype=np.float64), np.asarray(b, dtype=np.float64)) for a, b in zip(vis, want))
            key = f"{family}:{mode}:configured-weights!=requested{sfx}"
            if not ok:
                self._fail(meta, key)
            ctx.truth(name, ok, key=key, info=self._info(meta, visible=vis[0], requested=want[0]))
            return
        # inverse covariance family
        if vis is None:
            key = f"{family}:{mode}:option-weights-never-set{sfx}"
            self._fail(meta, key)
            ctx.truth(name, False, key=key, info=self._info(meta, visible=None))
            return
        # structural: shape, symmetric, PSD
        okshape = len(vis) == model.K and all(np.asarray(W).shape == (model.m, model.m) for W in vis)
        if not okshape:
            key = f"{family}:{mode}:weights-wrong-shape{sfx}"
            self._fail(meta, key)
            ctx.truth("O1 inverse-covariance weights symmetric PSD", False, key=key, info=self._info(meta))
            return
        worst_sym, worst_psd = 0.0, 0.0
        for W in vis:
            W = np.asarray(W, dtype=np.float64)
            s = max(float(np.max(np.abs(W))), 1e-300)
            worst_sym = max(worst_sym, float(np.max(np.abs(W - W.T))) / s)
            worst_psd = max(worst_psd, max(0.0, -float(np.linalg.eigvalsh((W + W.T) / 2)[0])) / s)
        key = f"{family}:{mode}:weights-not-symmetric-psd{sfx}"
        r = ctx.num("O1 inverse-covariance weights symmetric PSD", max(worst_sym, worst_psd), 1e-12, 1e-9, key=key, info=self._info(meta))
        if r == "fail":
            self._fail(meta, key)
        if exp["kind"] == "alias":
            # undocumented alias: only "weights are set and are not identity"
            nonid = any(not np.allclose(np.asarray(W), np.eye(model.m), rtol=1e-6, atol=0) for W in vis)
            key = f"{family}:{mode}:weights-are-identity{sfx}"
            if not nonid:
                self._fail(meta, key)
            ctx.truth(name, nonid, key=key, info=self._info(meta))
            return
        T = sum_zero_basis(model.m)
        worst = 0.0
        which = {}
        for j, W in enumerate(vis):
            W = np.asarray(W, dtype=np.float64)
            R = T.T @ W @ T
            best = float("inf")
            for cname, Wc in exp["cands"][j]:
                Rc = T.T @ Wc @ T
                e = float(np.max(np.abs(R - Rc))) / max(float(np.max(np.abs(Rc))), 1e-300)
                if e < best:
                    best, bn = e, cname
            which[bn] = which.get(bn, 0) + 1
            worst = max(worst, best)
        for k, v in which.items():
            ctx.count(f"inverse-covariance weights match candidate '{k}'", v)
        key = f"{family}:{mode}:weights!=documented-definition{sfx}"
        r = ctx.num(name, worst, 1e-9, 1e-6, key=key, info=self._info(meta, visible=vis[0], candidates=[c[1] for c in exp["cands"][0]]))
        if r == "fail":
            self._fail(meta, key)

    # ------------------------------------------------------ O2 formula
    def judge_formula(self, meta, var, result, what):
        ctx = self.ctx
        fam, model, cls = meta["fam"], meta["model"], meta["cls"]
        var = np.asarray(var, dtype=np.float64)
        name = f"O2 {what} == formula(visible weights)"
        if var.shape != (model.nvar,):
            ctx.skip(name)
            return
        refn = se_ref if fam == "SE" else re_ref
        if fam == "RE" and not re_judgeable(model, var):
            ctx.skip(name)
            return
        vis = _vis_weights(meta["loss"], fam)
        try:
            want, scale = refn(model, vis, var, what)
        except Exception:
            ctx.skip(name)   # visible weights of a shape the formula cannot use: O1's business
            return
        err = _relerr(result, want, scale)
        sfx = meta.get("suffix", "")
        key = f"{cls}:{what}!=formula{sfx}"
        if not (err <= 1e-8):
            if vis is not None:
                unw, usc = refn(model, None, var, what)
                if _relerr(result, unw, usc) <= 1e-9:
                    key = f"{cls}:visible-weights-not-applied{sfx}"
        r = ctx.num(name, err, 1e-11, 1e-8, key=key, info=self._info(meta, what=what, got=np.asarray(result), want=np.asarray(want), var=var))
        if r == "fail":
            self._fail(meta, key)

    # --------------------------------------------------- O3 derivatives
    def _step_limit(self, meta, x, d):
        """largest step keeping p (where q>0) well above the clipping threshold"""
        model = meta["model"]
        ps = model.ps(x)
        Ad = (model.A @ d).reshape(model.K, model.m)
        lim = np.inf
        for j in range(model.K):
            pos = model.qs[j] > 0
            if np.any(pos):
                a = np.abs(Ad[j][pos])
                with np.errstate(divide="ignore"):
                    lim = min(lim, float(np.min(np.where(a > 0, ps[j][pos] / np.maximum(a, 1e-300), np.inf))))
        return lim

    def judge_derivative(self, meta, fn, x, got, what, ndirs):
        """got = reported derivative (gradient vector / Hessian matrix) of fn at x"""
        ctx = self.ctx
        cls = meta["cls"]
        x = np.asarray(x, dtype=np.float64)
        n = x.size
        got = np.asarray(got, dtype=np.float64)
        quad = meta["quadratic"]
        kind = "quadratic-exact" if quad else "romberg"
        lhs = "gradient == d(value)" if what == "gradient" else "hessian == d(gradient)"
        name = f"O3 {lhs} {kind}"
        sfx = meta.get("suffix", "")
        key = f"{cls}:{what}!=d({'value' if what == 'gradient' else 'gradient'}){sfx}"
        if got.shape != ((n,) if what == "gradient" else (n, n)) or not np.all(np.isfinite(got)):
            ctx.truth(name, False, key=f"{cls}:{what}:bad-shape-or-non-finite{sfx}", info=self._info(meta, shape=list(got.shape)))
            self._fail(meta, f"{cls}:{what}:bad-shape-or-non-finite{sfx}")
            return
        if meta["fam"] == "RE" and not re_judgeable(meta["model"], x):
            ctx.skip(name)
            return
        gnorm = float(np.linalg.norm(got, 2)) if got.ndim == 2 else float(np.linalg.norm(got))
        rng = self.dir_rng
        worst, worst_info, decided = 0.0, None, 0
        for k in range(ndirs):
            if k % 2 == 0:
                d = np.zeros(n)          # coordinate directions interleaved with random ones
                d[int(rng.integers(0, n))] = 1.0
            else:
                d = rng.standard_normal(n)
                d /= np.linalg.norm(d)
            lhs_val = got @ d
            if quad:
                h = 0.5 * max(1.0, float(np.linalg.norm(x)))
                fp, fm = np.asarray(fn(x + h * d), dtype=np.float64), np.asarray(fn(x - h * d), dtype=np.float64)
                D = (fp - fm) / (2 * h)
                rough = (float(np.max(np.abs(fp))) + float(np.max(np.abs(fm)))) / (2 * h)
                scale = max(gnorm, rough, 1e-300)
                e = float(np.max(np.abs(D - lhs_val))) / scale
                decided += 1
            else:
                lim = self._step_limit(meta, x, d)
                h = min(0.02 * lim, 1e-2 * max(1.0, float(np.linalg.norm(x))))
                if not np.isfinite(h) or h <= 0:
                    continue
                D, est = romberg(fn, x, d, h)
                scale = max(gnorm, 1e-6)
                if not (est <= 1e-7 * scale):
                    ctx.count(f"O3 {what}: direction skipped (FD error estimate too large)")
                    continue
                e = float(np.max(np.abs(D - lhs_val))) / scale
                decided += 1
            if e > worst or worst_info is None:
                worst, worst_info = e, {"direction": d, "fd": D, "reported": lhs_val}
        if decided == 0:
            ctx.skip(name)
            return
        ctx.count(f"O3 {what} directions decided", decided)
        tp, tf = (1e-11, 1e-8) if quad else (1e-6, 1e-3)
        r = ctx.num(name, worst, tp, tf, key=key, info=self._info(meta, var=x, **(worst_info or {})))
        if r == "fail":
            self._fail(meta, key)

    def judge_symmetric(self, meta, H):
        H = np.asarray(H, dtype=np.float64)
        if H.ndim != 2 or H.shape[0] != H.shape[1]:
            return
        s = max(float(np.max(np.abs(H))), 1e-300)
        key = f"{meta['cls']}:hessian-not-symmetric{meta.get('suffix', '')}"
        r = self.ctx.num("O3 hessian symmetric", float(np.max(np.abs(H - H.T))) / s, 1e-12, 1e-9, key=key, info=self._info(meta))
        if r == "fail":
            self._fail(meta, key)


# ===================================================================== hooks


def install(ctx):
    Q = L()
    hs = HookSet(ctx)
    J = Judge(ctx)
    J.max_dirs_hess = 8 if ctx.tier == "quick" else 16

    def mk_value(cls):
        def post(result, snap, self, var, *a, **kw):
            meta = J.meta_of(self)
            if meta is None:
                ctx.skip(f"{cls.__name__}.value unregistered")
                return
            J.judge_formula(meta, var, result, "value")
        return post

    def mk_gradient(cls):
        def post(result, snap, self, var, *a, **kw):
            meta = J.meta_of(self)
            if meta is None:
                ctx.skip(f"{cls.__name__}.gradient unregistered")
                return
            J.judge_formula(meta, var, result, "gradient")
            # 2 n_var directions at the first point of every loss object, 8 at the further points
            nv = meta["model"].nvar
            nd = 2 * nv if meta.get("grad_checks", 0) == 0 else min(2 * nv, 8)
            if meta.get("max_dirs"):
                nd = min(nd, meta["max_dirs"])      # history steps: O2 is the deciding oracle, O3 only samples
            meta["grad_checks"] = meta.get("grad_checks", 0) + 1
            J.judge_derivative(meta, self.value, var, result, "gradient", nd)
        return post

    def mk_hessian(cls):
        def post(result, snap, self, var, *a, **kw):
            meta = J.meta_of(self)
            if meta is None:
                ctx.skip(f"{cls.__name__}.hessian unregistered")
                return
            J.judge_formula(meta, var, result, "hessian")
            J.judge_symmetric(meta, result)
            J.judge_derivative(meta, self.gradient, var, result, "hessian", min(2 * meta["model"].nvar, meta.get("max_dirs") or J.max_dirs_hess))
        return post

    for cls in (Q.SE, Q.RE, Q.FSE, Q.FRE):
        hs.method(cls, "value", post=mk_value(cls))
        hs.method(cls, "gradient", post=mk_gradient(cls))
    for cls in (Q.SE, Q.RE):
        hs.method(cls, "hessian", post=mk_hessian(cls))

    # ---- SimpleQuadraticLossFunction: documented formulas |var-ref|^2, 2(var-ref), 2I
    def sq_meta(self):
        return J.meta_of(self)

    def post_sq_value(result, snap, self, var, *a, **kw):
        m = sq_meta(self)
        if m is None:
            ctx.skip("SimpleQuadratic unregistered")
            return
        r = m["var_ref"]
        v = np.asarray(var, dtype=np.float64)
        want = float(np.sum((v - r) ** 2))
        ctx.num("SimpleQuadratic value == |var-ref|^2", abs(float(result) - want) / max(want, 1e-300), 1e-13, 1e-9,
                key="SimpleQuadraticLossFunction:value!=formula" + m.get("suffix", ""), info={"n": v.size, "got": float(result), "want": want})

    def post_sq_gradient(result, snap, self, var, *a, **kw):
        m = sq_meta(self)
        if m is None:
            ctx.skip("SimpleQuadratic unregistered")
            return
        r = m["var_ref"]
        v = np.asarray(var, dtype=np.float64)
        want = 2 * (v - r)
        ctx.num("SimpleQuadratic gradient == 2(var-ref)", _relerr(result, want, float(np.max(np.abs(want))) if want.size else 1.0), 1e-13, 1e-9,
                key="SimpleQuadraticLossFunction:gradient!=formula" + m.get("suffix", ""), info={"n": v.size})
        J.judge_derivative(m, self.value, v, result, "gradient", min(2 * v.size, m.get("max_dirs") or 2 * v.size))

    def post_sq_hessian(result, snap, self, var, *a, **kw):
        m = sq_meta(self)
        if m is None:
            ctx.skip("SimpleQuadratic unregistered")
            return
        v = np.asarray(var, dtype=np.float64)
        want = 2 * np.eye(v.size)
        ctx.num("SimpleQuadratic hessian == 2I", _relerr(result, want, 2.0), 1e-13, 1e-9,
                key="SimpleQuadraticLossFunction:hessian!=formula" + m.get("suffix", ""), info={"n": v.size})
        J.judge_symmetric(m, result)
        J.judge_derivative(m, self.gradient, v, result, "hessian", min(2 * v.size, m.get("max_dirs") or J.max_dirs_hess))

    hs.method(Q.SQ, "value", post=post_sq_value)
    hs.method(Q.SQ, "gradient", post=post_sq_gradient)
    hs.method(Q.SQ, "hessian", post=post_sq_hessian)

    # ---- entropy functions (judged away from the clipping thresholds, default eps only)
    def ent_args(q, p, eps_q, eps_p):
        q = np.asarray(q, dtype=np.float64)
        p = np.asarray(p, dtype=np.float64)
        if q.shape != p.shape or q.ndim != 1:
            return None
        for e in (eps_q, eps_p):
            if e is not None and not (0 <= e <= 1e-9):
                return None
        pos = q > 0
        if np.any(q < 0) or np.any(q[pos] < P_MIN) or np.any(p[pos] < P_MIN) or np.any(q[pos] / p[pos] < 1e-8):
            return None
        return q, p, pos

    def getargs(a, kw, names):
        out = []
        for i, nme in enumerate(names):
            out.append(kw.get(nme, a[i] if i < len(a) else None))
        return out

    def post_relent(result, snap, q, p, *a, **kw):
        eq, ep = getargs(a, kw, ["eps_q", "eps_p"])
        t = ent_args(q, p, eq, ep)
        name = "relative_entropy == formula"
        if t is None:
            ctx.skip(name)
            return
        q, p, pos = t
        terms = q[pos] * np.log(q[pos] / p[pos])
        ctx.num(name, abs(float(result) - float(np.sum(terms))) / max(float(np.sum(np.abs(terms))), 1e-300), 1e-12, 1e-9,
                key="entropy.relative_entropy:value!=sum q log(q/p)", info={"q": q, "p": p, "got": float(result)})

    def post_relent_vec(result, snap, q, p, *a, **kw):
        eq, ep = getargs(a, kw, ["eps_q", "eps_p"])
        t = ent_args(q, p, eq, ep)
        name = "relative_entropy_vector == formula"
        if t is None:
            ctx.skip(name)
            return
        q, p, pos = t
        want = np.zeros(q.size)
        want[pos] = q[pos] * np.log(q[pos] / p[pos])
        ctx.num(name, _relerr(result, want, max(float(np.max(np.abs(want))), 1e-300)), 1e-12, 1e-9,
                key="entropy.relative_entropy_vector:value!=q log(q/p)", info={"q": q, "p": p, "got": np.asarray(result)})

    def post_grad_relent(result, snap, q, p, gps, *a, **kw):
        eq, ep = getargs(a, kw, ["eps_q", "eps_p"])
        t = ent_args(q, p, eq, ep)
        name = "gradient_relative_entropy_2nd == formula"
        G = np.asarray(gps, dtype=np.float64)
        if t is None or G.ndim != 2 or G.shape[0] != len(t[0]):
            ctx.skip(name)
            return
        q, p, pos = t
        c = -q[pos] / p[pos]
        want = c @ G[pos]
        sc = np.abs(c) @ np.abs(G[pos])
        ctx.num(name, _relerr(result, want, max(float(np.max(sc)), 1e-300)), 1e-12, 1e-9,
                key="entropy.gradient_relative_entropy_2nd:!=-sum (q/p) grad p", info={"q": q, "p": p})

    def post_grad_relent_vec(result, snap, q, p, gps, *a, **kw):
        eq, ep = getargs(a, kw, ["eps_q", "eps_p"])
        t = ent_args(q, p, eq, ep)
        name = "gradient_relative_entropy_2nd_vector == formula"
        G = np.asarray(gps, dtype=np.float64)
        if t is None or G.ndim != 2 or G.shape[0] != len(t[0]):
            ctx.skip(name)
            return
        q, p, pos = t
        want = np.zeros(G.shape)
        want[pos] = (-q[pos] / p[pos])[:, None] * G[pos]
        ctx.num(name, _relerr(result, want, max(float(np.max(np.abs(want))), 1e-300)), 1e-12, 1e-9,
                key="entropy.gradient_relative_entropy_2nd_vector:!=-(q/p) grad p", info={"q": q, "p": p})

    def post_hess_relent(result, snap, q, p, gps, hps, *a, **kw):
        eq, ep = getargs(a, kw, ["eps_q", "eps_p"])
        t = ent_args(q, p, eq, ep)
        name = "hessian_relative_entropy_2nd == formula"
        G = np.asarray(gps, dtype=np.float64)
        Hp = np.asarray(hps, dtype=np.float64)
        if t is None or G.ndim != 2 or Hp.ndim != 3 or G.shape[0] != len(t[0]) or Hp.shape[0] != len(t[0]) or not np.any(t[2]):
            ctx.skip(name)
            return
        q, p, pos = t
        n = G.shape[1]
        want = np.zeros((n, n))
        sc = np.zeros((n, n))
        for x in np.where(pos)[0]:
            want += -q[x] / p[x] * Hp[x] + q[x] / p[x] ** 2 * np.outer(G[x], G[x])
            sc += q[x] / p[x] * np.abs(Hp[x]) + q[x] / p[x] ** 2 * np.abs(np.outer(G[x], G[x]))
        ctx.num(name, _relerr(result, want, max(float(np.max(sc)), 1e-300)), 1e-12, 1e-9,
                key="entropy.hessian_relative_entropy_2nd:!=sum -(q/p) hess p + (q/p^2) grad p grad p^T", info={"q": q, "p": p})

    hs.function(Q.entropy, "relative_entropy", post=post_relent)
    hs.function(Q.entropy, "relative_entropy_vector", post=post_relent_vec)
    hs.function(Q.entropy, "gradient_relative_entropy_2nd", post=post_grad_relent)
    hs.function(Q.entropy, "gradient_relative_entropy_2nd_vector", post=post_grad_relent_vec)
    hs.function(Q.entropy, "hessian_relative_entropy_2nd", post=post_hess_relent)

    # ---- matrix_util helpers behind the inverse-covariance weights
    def post_cov(result, snap, q, n, *a, **kw):
        qq = np.asarray(q, dtype=np.float64)
        name = "calc_covariance_mat == (diag(q)-qq^T)/n"
        if qq.ndim != 1 or not n:
            ctx.skip(name)
            return
        want = ref_cov(qq, n)
        sc = (np.max(np.abs(qq)) + np.max(np.abs(qq)) ** 2) / abs(n)
        ctx.num(name, _relerr(result, want, max(float(sc), 1e-300)), 1e-14, 1e-10,
                key="matrix_util.calc_covariance_mat:!=(diag(q)-qq^T)/n", info={"q": qq, "n": n})

    def post_replace(result, snap, prob_dist, eps=None, *a, **kw):
        q = np.asarray(prob_dist, dtype=np.float64)
        name = "replace_prob_dist contract"
        e = 1e-8 if eps is None else eps
        if q.ndim != 1 or not (0 < e < 1e-3) or np.any(q < 0) or not (abs(np.sum(q) - 1) < 1e-6):
            ctx.skip(name)
            return
        k = int(np.sum(q < e))
        if k == q.size:
            ctx.skip(name)
            return
        r = np.asarray(result, dtype=np.float64)
        # unambiguous requirements only: same shape & sum, small entries raised to eps, nothing below eps*(1-m*eps),
        # nothing moves by more than eps*m, identity when nothing is below eps
        bad = []
        if r.shape != q.shape:
            bad.append("shape")
        else:
            # (mass of entries in (0, eps) is dropped by the implementation; undocumented either way: allow k*eps)
            if abs(np.sum(r) - np.sum(q)) > e * k + 1e-14:
                bad.append("sum-changed")
            if np.any(np.abs(r[q < e] - e) > 1e-22):
                bad.append("small-entry-not-eps")
            if np.max(np.abs(r - q)) > e * q.size + 1e-18:
                bad.append("moved-too-far")
            if k == 0 and not np.array_equal(r, q):
                bad.append("changed-without-need")
            if np.min(q[q >= e]) > 2 * e * q.size and np.any(r < e * 0.999999):
                bad.append("entry-below-eps")
        ctx.truth(name, not bad, key="matrix_util.replace_prob_dist:" + "+".join(bad), info={"q": q, "got": r, "eps": e})

    hs.function(Q.mutil, "calc_covariance_mat", post=post_cov)
    hs.function(Q.mutil, "replace_prob_dist", post=post_replace)
    return Q, hs, J


# ================================================================== workload

QT_TYPES = ["qst", "povmt", "qpt", "qmpt"]


def shards(tier, seed):
    out = []
    n = {"quick": 5, "thorough": 100}[tier]
    for t in QT_TYPES:
        for flag in (True, False):
            for m in (2, 3, 4, 5):
                heavy = {"qst": 1, "povmt": 2, "qpt": 4, "qmpt": 6 + 2 * m}[t]
                k = n if t in ("qst", "povmt") else max(2, n * 2 // 3)
                out.append({"kind": "loss", "qt": t, "flag": flag, "m": m, "dim": 2, "n": k, "weight": heavy * k})
    # qutrit (QST, POVMT) and the 4-outcome QMPT built from a 2-outcome instrument and 2-outcome testers
    for t in ("qst", "povmt"):
        for flag in (True, False):
            out.append({"kind": "loss", "qt": t, "flag": flag, "m": 3 if flag else 4, "dim": 3, "n": max(2, n // 2), "weight": 6 * n})
    for flag in (True, False):
        out.append({"kind": "loss", "qt": "qmpt2x2", "flag": flag, "m": 4, "dim": 2, "n": max(2, n // 2), "weight": 14 * n})
    out.append({"kind": "functions", "n": {"quick": 150, "thorough": 3000}[tier], "weight": 5})
    out.append({"kind": "functions", "n": {"quick": 150, "thorough": 3000}[tier], "weight": 5, "second": True})
    return out


def build_qt(Q, p, rng, counts=None, counts_out=None):
    """random tomography of the shard's type; returns (qt, true object maker).
    counts = {"nst", "extra"}: the numbers of tester states / additional POVMs that the first tomography of the
    case drew; given for the second tomography, which is to have the SAME shape (schedules, outcomes, variables)"""
    dim, m, flag = p["dim"], p["m"], p["flag"]
    c = gen.make_csys([dim])
    d = c.dim
    nst = d * d + int(rng.integers(0, 2))
    if counts is not None:
        nst = counts["nst"]
    extra = 0
    states = [gen.make_state(c, 0.85 * ref.rand_density(d, rng) + 0.15 * np.eye(d) / d) for _ in range(nst)]
    t = p["qt"]
    if t == "qst":
        extra = int(rng.integers(0, 2))
        if counts is not None:
            extra = counts["extra"]
        npovm = max(2, int(np.ceil((d * d - 1) / (m - 1))) + extra)
        povms = [gen.rand_povm(c, m, rng) for _ in range(npovm)]
        qt = Q.StandardQst(povms, on_para_eq_constraint=flag)
        mk = lambda r: gen.rand_state(c, r, on_para_eq_constraint=flag)  # noqa: E731
    elif t == "povmt":
        qt = Q.StandardPovmt(states, m, on_para_eq_constraint=flag)
        mk = lambda r: gen.rand_povm(c, m, r, on_para_eq_constraint=flag)  # noqa: E731
    elif t == "qpt":
        npovm = max(2, int(np.ceil((d * d - 1) / (m - 1))))
        povms = [gen.rand_povm(c, m, rng) for _ in range(npovm)]
        qt = Q.StandardQpt(states, povms, on_para_eq_constraint=flag)
        mk = lambda r: gen.rand_gate(c, r, r=int(r.integers(1, 4)), on_para_eq_constraint=flag)  # noqa: E731
    elif t == "qmpt":
        # one-outcome tester: the instrument's m outcomes are the schedule's outcomes
        povms = [gen.make_povm(c, [np.eye(d)])]
        qt = Q.StandardQmpt(states, povms, num_outcomes=m, on_para_eq_constraint=flag)
        mk = lambda r: gen.rand_mprocess(c, m, r, on_para_eq_constraint=flag)  # noqa: E731
    elif t == "qmpt2x2":
        povms = [gen.rand_povm(c, 2, rng) for _ in range(3)]
        qt = Q.StandardQmpt(states, povms, num_outcomes=2, on_para_eq_constraint=flag)
        mk = lambda r: gen.rand_mprocess(c, 2, r, on_para_eq_constraint=flag)  # noqa: E731
    else:
        raise ValueError(t)
    if counts_out is not None:
        counts_out.update({"nst": nst, "extra": extra})
    return qt, mk


def make_data(rng, P, m):
    """empirical distributions (n_j, q_j): multinomial counts / n, zero entries forced in about half of the cases"""
    K = P.shape[0]
    style = str(rng.choice(["counts", "counts", "counts-zeros", "counts-zeros", "exact"]))
    n_all = int(rng.choice([20, 100, 1000, 10000]))
    same_n = rng.random() < 0.5
    ns, qs = [], []
    for j in range(K):
        n = n_all if same_n else int(rng.choice([20, 100, 1000, 10000]))
        pj = np.clip(P[j], 0, None)
        pj = pj / pj.sum()
        if style == "exact" and np.min(pj) >= 1e-4:
            q = pj.copy()
        else:
            cnt = rng.multinomial(n, pj).astype(np.float64)
            if style == "counts-zeros" and rng.random() < 0.6:
                z = int(rng.integers(0, m))
                o = (z + 1 + int(rng.integers(0, m - 1))) % m
                cnt[o] += cnt[z]
                cnt[z] = 0
                if m >= 4 and rng.random() < 0.3:
                    z2 = [i for i in range(m) if i not in (z, o)][0]
                    cnt[o] += cnt[z2]
                    cnt[z2] = 0
            q = cnt / n
        ns.append(n)
        qs.append(np.array(q, dtype=np.float64))
    return ns, qs, style


def rand_spd(rng, m):
    """random symmetric weight matrix: SPD (mostly), positive diagonal, or rank-deficient PSD"""
    kind = str(rng.choice(["spd", "spd", "spd", "diag", "psd-singular"]))
    G = rng.standard_normal((m, m))
    if kind == "diag":
        W = np.diag(rng.uniform(0.1, 3.0, size=m))
    elif kind == "psd-singular":
        G[:, -1] = 0.0
        W = G @ G.T / m
    else:
        W = G @ G.T / m + float(rng.choice([0.05, 0.5])) * np.eye(m)
    W = W * float(rng.choice([0.3, 1.0, 5.0]))
    W = (W + W.T) / 2
    return np.ascontiguousarray(W, dtype=np.float64)


def eval_points(rng, model, mk, need_positive):
    """points inside (a random physical object) and outside (perturbed) the physical set"""
    pts = []
    v_in = np.asarray(mk(rng).to_var(), dtype=np.float64)
    pts.append(("inside", v_in))
    for scale in (float(rng.choice([0.03, 0.1])), float(rng.choice([0.5, 1.5]))):
        u = rng.standard_normal(v_in.size)
        u *= scale * max(1.0, np.linalg.norm(v_in)) / np.linalg.norm(u)
        pts.append(("perturbed", v_in + u))
    if not need_positive:
        return pts
    out = []
    for kind, v in pts:
        u = v - v_in
        for _ in range(40):
            ps = model.ps(v_in + u)
            ok = all(np.all(ps[j][model.qs[j] > 0] >= 1e-4) for j in range(model.K))
            if ok:
                break
            u = u * 0.6
        else:
            continue
        out.append((kind, v_in + u))
    return out


def label_point(qt, var):
    """'inside' / 'outside' the physical set, by the reference violation sizes (labelling only)"""
    try:
        obj = qt.convert_var_to_qoperation(np.array(var, dtype=np.float64))
        v = gen.ref_violations(obj)
        return "outside" if max(v["eq"], v["ineq"]) > 1e-7 else "inside"
    except Exception:
        return "unknown"


def closures(model):
    """user-style model functions for the generic constructors"""
    def fp(j):
        return lambda var: model.Aj[j] @ var + model.b[j * model.m:(j + 1) * model.m]

    def fg(j):
        return lambda alpha, var: np.array(model.Aj[j][:, alpha], dtype=np.float64)

    def fh(j):
        return lambda alpha, beta, var: np.zeros(model.m, dtype=np.float64)
    return [fp(j) for j in range(model.K)], [fg(j) for j in range(model.K)], [fh(j) for j in range(model.K)]


def se_configs():
    return [("identity", "option"), ("custom", "option"), ("custom", "option-weights-only"), ("custom", "ctor"),
            ("custom", "setter-after-option"), ("identity", "option-after-ctor-weights"),
            ("inverse_sample_covariance", "option"), ("inverse_unbiased_covariance", "option"),
            ("unbiased_inverse_covariance", "option")]


def re_configs():
    return [("identity", "option"), ("custom", "option"), ("custom", "option-weights-only"), ("custom", "ctor"),
            ("custom", "setter-after-option"), ("identity", "option-after-ctor-weights")]


def expected_for(fam, mode, model, custom):
    if mode == "identity":
        return {"kind": "identity"}
    if mode == "custom":
        # pristine copies: the list handed to the library is a different one (the library keeps the caller's list)
        return {"kind": "custom", "weights": [np.array(w, dtype=np.float64) for w in custom] if fam == "SE" else [float(w) for w in custom]}
    unbiased = mode != "inverse_sample_covariance"
    cands = [inv_cov_candidates(model.qs[j], model.ns[j], unbiased) for j in range(model.K)]
    return {"kind": "alias" if mode == "unbiased_inverse_covariance" else "invcov", "cands": cands}


def configure(ctx, Q, J, qt, model, fam, fast, mode, path, custom, data, need_hessian):
    """fresh loss object configured along `path`; returns (loss, meta) or (None, None) after recording"""
    cls = {("SE", False): Q.SE, ("SE", True): Q.FSE, ("RE", False): Q.RE, ("RE", True): Q.FRE}[(fam, fast)]
    Opt = {("SE", False): Q.SEOpt, ("SE", True): Q.FSEOpt, ("RE", False): Q.REOpt, ("RE", True): Q.FREOpt}[(fam, fast)]
    family = "WeightedProbabilityBasedSquaredError" if fam == "SE" else "WeightedRelativeEntropy"
    cname = cls.__name__
    wkw = "weight_matrices" if fam == "SE" else "weights"
    mclass = "m=2" if model.m == 2 else "m>=3"

    def build():
        if path in ("option", "option-weights-only", "setter-after-option", "option-after-ctor-weights"):
            if path == "option-after-ctor-weights":
                loss = cls(**{wkw: custom}) if fast else cls(model.nvar, **{wkw: custom})
                opt = Opt(mode_weight="identity")
            elif path == "setter-after-option":
                loss = cls()
                opt = Opt(mode_weight="identity")
            elif path == "option-weights-only":
                loss = cls()
                opt = Opt(weights=custom)
            else:
                loss = cls()
                opt = Opt(mode_weight=mode, weights=custom if mode == "custom" else None)
            loss.set_from_standard_qtomography_option_data(qt, opt, data, True, need_hessian and not fast)
            if path == "setter-after-option":
                (loss.set_weight_matrices if fam == "SE" else loss.set_weights)(custom)
            return loss
        # constructor path
        if fast:
            loss = cls(model.nvar, [q.copy() for q in model.qs], custom)
            loss.set_func_prob_dists_from_standard_qt(qt)
            loss.set_func_gradient_prob_dists_from_standard_qt(qt)
            return loss
        fp, fg, fh = closures(model)
        return cls(model.nvar, fp, fg, fh, [q.copy() for q in model.qs], custom)

    ok, loss = ctx.attempt(build)
    if not ok:
        site = ctx.exc_key(loss)
        if mode in ("inverse_sample_covariance", "inverse_unbiased_covariance", "unbiased_inverse_covariance"):
            key = f"{family}:inverse-covariance-weights:{mclass}:{site}"
        else:
            key = f"{cname}:{mode}:{path}:{site}"
        ctx.truth("O1 configuration succeeds", False, key=key,
                  info={"class": cname, "mode": mode, "path": path, "m": model.m, "error": repr(loss)[:300]})
        return None, None
    ctx.truth("O1 configuration succeeds", True)
    meta = J.register(loss, fam, cname, model, mode, path, expected_for(fam, mode, model, custom), quadratic=(fam == "SE"))
    J.judge_config(meta)
    return loss, meta


def run_loss_case(ctx, Q, hs, J, p, case):
    import types

    rng = ctx.rng()
    J.dir_rng = ctx.rng(1)
    counts = {}
    qt, mk = build_qt(Q, p, rng, counts_out=counts)
    m = qt.num_outcomes(0)
    A, b = qt.calc_matA(), qt.calc_vecB()
    var_true = np.asarray(mk(rng).to_var(), dtype=np.float64)
    P = (np.asarray(A) @ var_true + np.asarray(b)).reshape(qt.num_schedules, m)
    ns, qs, style = make_data(rng, P, m)
    model = Model(A, b, m, ns, qs)
    data = [(n, q.copy()) for n, q in zip(ns, qs)]
    has_zero = any(np.any(q == 0) for q in qs)
    small = model.nvar <= 20
    hess_budget = {"SE": 2 if small else 1, "RE": 2 if small else 1}
    if model.nvar > 50 and ctx.tier == "quick":
        hess_budget = {"SE": 1, "RE": 0 if case % 2 else 1}

    W_custom = [rand_spd(rng, m) for _ in range(model.K)]
    w_custom = [float(x) for x in rng.choice([0.2, 0.5, 1.5, 3.0, 7.0], size=model.K) * rng.uniform(0.8, 1.25, size=model.K)]
    if model.K >= 2 and rng.random() < 0.4:
        # a schedule switched off by a weight of exactly 0.0 (a falsy value: "missing" and "zero" must not be confused;
        # missed seeded change C12-4); at least one weight stays positive
        w_custom[int(rng.integers(0, model.K))] = 0.0
    if model.K >= 2 and rng.random() < 0.25:
        W_custom[int(rng.integers(0, model.K))] = np.zeros((m, m))
    pts = {"SE": eval_points(rng, model, mk, False), "RE": eval_points(rng, model, mk, True)}
    labels = {fam: [label_point(qt, v) for _, v in pts[fam]] for fam in pts}
    if case < 2:
        ctx.sample({"tomography": p["qt"], "dim": p["dim"], "m": m, "on_para_eq_constraint": p["flag"], "n_var": model.nvar,
                    "schedules": model.K, "data_style": style, "n": ns[:3], "q0": qs[0], "zero_entries": has_zero,
                    "points_SE": labels["SE"], "points_RE": labels["RE"], "custom_W0": W_custom[0], "custom_w": w_custom[:3]})

    held = Held(ctx)
    for fam in ("SE", "RE"):
        cfgs = se_configs() if fam == "SE" else re_configs()
        custom = W_custom if fam == "SE" else w_custom
        refn = se_ref if fam == "SE" else re_ref
        # which configs get a hessian evaluation (generic only): identity + custom(option) first
        results = {}   # (mode, path, fast) -> dict(values=[...], grads=[...], meta=...)
        hess_left = hess_budget[fam]
        for (mode, path) in cfgs:
            for fast in (False, True):
                want_h = (not fast) and hess_left > 0 and (mode, path) in (("identity", "option"), ("custom", "ctor"))
                loss, meta = configure(ctx, Q, J, qt, model, fam, fast, mode, path, [np.array(w) for w in custom] if fam == "SE" else list(custom), data, True)
                if loss is None:
                    continue
                vals, grads = [], []
                for ip, (kind, v) in enumerate(pts[fam]):
                    validate = bool(rng.random() < 0.25)
                    kw = {"validate": True} if validate else {}
                    okv, val = ctx.attempt(loss.value, v.copy(), **kw)
                    if not okv:
                        key = f"{meta['cls']}:{mode}:{path}:evaluation-raises:{type(val).__name__}"
                        ctx.violation(key, {"error": repr(val)[:300], "m": m, "what": "value", "site": ctx.exc_key(val)})
                        J._fail(meta, key)
                        vals.append(None)
                    else:
                        vals.append(float(val))
                    okg, g = ctx.attempt(loss.gradient, v.copy(), **kw)
                    if not okg:
                        key = f"{meta['cls']}:{mode}:{path}:evaluation-raises:{type(g).__name__}"
                        ctx.violation(key, {"error": repr(g)[:300], "m": m, "what": "gradient", "site": ctx.exc_key(g)})
                        J._fail(meta, key)
                        grads.append(None)
                    else:
                        grads.append(np.asarray(g, dtype=np.float64))
                        held.keep(f"{meta['cls']}:gradient", g)
                    if want_h and ip in (0, len(pts[fam]) - 1):
                        okh, H = ctx.attempt(loss.hessian, v.copy())
                        if not okh:
                            key = f"{meta['cls']}:{mode}:{path}:evaluation-raises:{type(H).__name__}"
                            ctx.violation(key, {"error": repr(H)[:300], "m": m, "what": "hessian", "site": ctx.exc_key(H)})
                        else:
                            held.keep(f"{meta['cls']}:hessian", H)
                    # coverage accounting
                    nonid = mode != "identity"
                    lab = labels[fam][ip]
                    if okv and abs(float(val)) > 0 and (m >= 3 or nonid or has_zero or lab == "outside"):
                        ctx.nontrivial(p["qt"], p["dim"], m, p["flag"], meta["cls"], mode, path, v, np.hstack(qs), np.hstack([np.ravel(w) for w in custom]))
                    ctx.count(f"points {lab}")
                if want_h:
                    hess_left -= 1
                results[(mode, path, fast)] = {"vals": vals, "grads": grads, "meta": meta}

        # ---- O4 fast == generic (same qtomography, option / weights, data, point)
        for (mode, path) in cfgs:
            g_, f_ = results.get((mode, path, False)), results.get((mode, path, True))
            if g_ is None or f_ is None:
                continue
            prior = f_["meta"]["fail_keys"] + g_["meta"]["fail_keys"]
            for ip, (kind, v) in enumerate(pts[fam]):
                if fam == "RE" and not re_judgeable(model, v):
                    continue
                vis = _vis_weights(g_["meta"]["loss"], fam)
                for what, a, bb in (("value", g_["vals"][ip], f_["vals"][ip]), ("gradient", g_["grads"][ip], f_["grads"][ip])):
                    if a is None or bb is None:
                        continue
                    try:
                        _, sc = refn(model, vis, v, what)
                    except Exception:
                        sc = float(np.max(np.abs(a)))
                    key = prior[0] if prior else f"{f_['meta']['cls']}:{mode}:fast!=generic:{what}"
                    ctx.num(f"O4 fast == generic {what}", _relerr(bb, a, max(sc, 1e-300)), 1e-11, 1e-8, key=key,
                            info={"mode": mode, "path": path, "m": m, "generic": a, "fast": bb, "what": what})

        # ---- O5 every accepted mode changes the value relative to identity when the reference weights do
        base = {fast: results.get(("identity", "option", fast)) for fast in (False, True)}
        for (mode, path) in cfgs:
            if mode == "identity" or path != "option":
                continue
            for fast in (False, True):
                r, b0 = results.get((mode, path, fast)), base[fast]
                if r is None or b0 is None:
                    continue
                exp = r["meta"]["expected"]
                for ip, (kind, v) in enumerate(pts[fam]):
                    if r["vals"][ip] is None or b0["vals"][ip] is None:
                        continue
                    if fam == "RE" and not re_judgeable(model, v):
                        continue
                    ref_id, sc_id = refn(model, None, v, "value")
                    if exp["kind"] == "custom":
                        cand_vals = [refn(model, exp["weights"], v, "value")[0]]
                    else:
                        names = sorted({c[0] for cj in exp["cands"] for c in cj})
                        cand_vals = []
                        for nm in names:
                            Ws = []
                            for cj in exp["cands"]:
                                d = dict(cj)
                                if nm not in d:
                                    break
                                Ws.append(d[nm])
                            else:
                                cand_vals.append(refn(model, Ws, v, "value")[0])
                    should = bool(cand_vals) and all(abs(c - ref_id) > 1e-2 * max(abs(c), abs(ref_id)) for c in cand_vals) and abs(ref_id) > 0
                    if not should:
                        ctx.skip("O5 mode changes value")
                        continue
                    diff = abs(r["vals"][ip] - b0["vals"][ip]) / max(abs(r["vals"][ip]), abs(b0["vals"][ip]), 1e-300)
                    family = "WeightedProbabilityBasedSquaredError" if fam == "SE" else "WeightedRelativeEntropy"
                    prior = r["meta"]["fail_keys"]
                    key = prior[0] if prior else f"{family}:{mode}:no-effect-on-value"
                    ctx.truth("O5 mode changes value", diff > 1e-6, key=key,
                              info={"class": r["meta"]["cls"], "mode": mode, "value": r["vals"][ip], "identity_value": b0["vals"][ip],
                                    "reference_values": cand_vals, "reference_identity": ref_id})
        held.verify()
        J.reg.clear()

    # ---- history / combination steps: the same oracles on loss objects that have a past
    base = types.SimpleNamespace(qt=qt, mk=mk, m=m, A=np.asarray(A, dtype=np.float64), b=np.asarray(b, dtype=np.float64), P=P,
                                 model=model, data=data, counts=counts)
    run_loss_history(ctx, Q, J, p, case, base)
    J.reg.clear()


# ============================================== history / combination steps

class Held:
    """arrays the library returned, kept by the caller: a later library call must not change them (a result that
    aliases an internal buffer / cache would).  The very same array object is compared with a copy taken when it was
    returned, so no rounding is involved."""

    def __init__(self, ctx):
        self.ctx = ctx
        self.items = []

    def keep(self, label, arr):
        if isinstance(arr, np.ndarray):
            self.items.append((label, arr, arr.copy()))

    def verify(self):
        for label, arr, snap in self.items:
            same = arr.shape == snap.shape and bool(np.array_equal(arr, snap, equal_nan=True))
            self.ctx.truth("H returned arrays unchanged by later calls", same, key=f"{label}:result-modified-by-later-call",
                           info={"returned": snap, "now": arr})
        self.items = []


def make_setting(Q, p, rng, counts=None):
    """a further tomography with its own data (used by the history steps only)"""
    import types

    qt, mk = build_qt(Q, p, rng, counts=counts)
    m = qt.num_outcomes(0)
    A, b = np.asarray(qt.calc_matA(), dtype=np.float64), np.asarray(qt.calc_vecB(), dtype=np.float64)
    var_true = np.asarray(mk(rng).to_var(), dtype=np.float64)
    P = (A @ var_true + b).reshape(qt.num_schedules, m)
    ns, qs, _ = make_data(rng, P, m)
    model = Model(A, b, m, ns, qs)
    return types.SimpleNamespace(qt=qt, mk=mk, m=m, A=A, b=b, P=P, model=model, data=[(n, q.copy()) for n, q in zip(ns, qs)])


def other_shape_params(p):
    """parameters of a tomography of the same type but another shape (other parametrisation => other number of
    variables; other number of outcomes where that is cheap)"""
    q = dict(p)
    q["flag"] = not p["flag"]
    if p["qt"] in ("qst", "povmt", "qpt") and p["dim"] == 2:
        q["m"] = (p["m"] % 4) + 2           # 2->4, 3->5, 4->2, 5->3
    elif p["qt"] == "qmpt":
        q["m"] = 2 if p["m"] > 2 else 3
    return q


def fresh_data(rng, S):
    """new empirical distributions for the tomography of setting S: (model, data)"""
    ns, qs, _ = make_data(rng, S.P, S.m)
    return Model(S.A, S.b, S.m, ns, qs), [(n, q.copy()) for n, q in zip(ns, qs)]


def draw_custom(rng, fam, K, m):
    if fam == "SE":
        W = [rand_spd(rng, m) for _ in range(K)]
        if K >= 2 and rng.random() < 0.2:
            W[int(rng.integers(0, K))] = np.zeros((m, m))
        return W
    w = [float(x) for x in rng.choice([0.2, 0.5, 1.5, 3.0, 7.0], size=K) * rng.uniform(0.8, 1.25, size=K)]
    if K >= 2 and rng.random() < 0.3:
        w[int(rng.integers(0, K))] = 0.0
    return w


def copy_custom(fam, custom):
    if custom is None:
        return None
    return [np.array(w, dtype=np.float64) for w in custom] if fam == "SE" else [float(w) for w in custom]


def hist_points(rng, fam, model, mk, n):
    pts = [v for _, v in eval_points(rng, model, mk, fam == "RE")]
    return pts[:n]


def plan_history(rng, Q, p, base, fam):
    """the steps one veteran loss object V (and one rival R of the same class) go through; drawn once per family and
    applied to the generic and to the fast class alike (so that O4 can compare them step by step).  Every step is a
    public operation: constructor, set_from_standard_qtomography_option_data (what calc_estimate_sequence does with
    one loss object for every dataset), set_prob_dists_q, set_weight_matrices / set_weights, the model setters."""
    modes = SE_MODES if fam == "SE" else ["identity", "custom"]
    S1 = base
    S2 = make_setting(Q, p, rng, counts=base.counts)            # same type and SHAPE as S1, other testers and data
    S2b = make_setting(Q, p, rng, counts=base.counts)           # a third one of that shape
    S3 = make_setting(Q, other_shape_params(p), rng)            # other shape
    K1, m1 = S1.model.K, S1.m
    shape1 = (K1, m1, S1.model.nvar)

    def mode_custom(S):
        mode = str(rng.choice(modes))
        return mode, (draw_custom(rng, fam, S.model.K, S.m) if mode == "custom" else None)

    x0 = hist_points(rng, fam, S1.model, S1.mk, 2)

    def pts_for(model, mk):
        """one new point, and the veteran's first point again where the model has that shape (a memo keyed by the
        argument alone answers for the old data / model / weights only when it sees the same argument again)"""
        out = hist_points(rng, fam, model, mk, 1)
        if x0 and model.nvar == x0[0].size:
            ps = model.ps(x0[0])
            if fam == "SE" or all(np.all(ps[j][model.qs[j] > 0] >= 1e-4) for j in range(model.K)):
                out = [x0[0]] + out
        return out

    steps = []
    # 1 a fresh object (option or constructor path)
    start_path = "ctor" if rng.random() < 0.4 else "option"
    mode1, custom1 = ("custom", draw_custom(rng, fam, K1, m1)) if start_path == "ctor" else mode_custom(S1)
    steps.append({"who": "V", "kind": "create", "label": f"fresh({start_path},{mode1})", "path": start_path, "S": S1, "model": S1.model,
                  "data": S1.data, "mode": mode1, "custom": custom1, "suffix": "", "pts": x0, "keep_option": True, "hessian": "always"})
    # 2 a rival of the same class and the same shape, other tomography / data / mode
    mode, custom = mode_custom(S2)
    steps.append({"who": "R", "kind": "create", "label": f"rival fresh(option,{mode})", "path": "option", "S": S2, "model": S2.model,
                  "data": S2.data, "mode": mode, "custom": custom, "suffix": "", "pts": pts_for(S2.model, S2.mk)})
    # 3 ask both again (interleaved)
    steps.append({"who": "V", "kind": "requery", "label": "asked again after the rival", "suffix": ":second-call", "pts": list(reversed(x0))})
    steps.append({"who": "R", "kind": "requery", "label": "asked again after the veteran", "suffix": ":second-call", "pts": steps[1]["pts"]})
    # 4 the estimator's pattern: same tomography, same option OBJECT, next dataset
    mo, da = fresh_data(rng, S1)
    steps.append({"who": "V", "kind": "reuse", "label": f"re-set(same tomography, same option,{mode1}, next dataset)", "S": S1, "model": mo, "data": da,
                  "mode": mode1, "custom": custom1, "suffix": ":re-used-object", "use_kept_option": True, "keep_option": True,
                  "pts": pts_for(mo, S1.mk)})
    # 5 new data through the public setter
    mo, da = fresh_data(rng, S1)
    steps.append({"who": "V", "kind": "set_q", "label": "set_prob_dists_q(new data)", "model": mo, "suffix": ":after-setter",
                  "pts": pts_for(mo, S1.mk)})
    # 6, 7 weights through the public setter: other custom weights and None, in either order
    wsteps = [{"who": "V", "kind": "set_w", "label": "set weights(custom)", "custom": draw_custom(rng, fam, K1, m1), "suffix": ":after-setter",
               "pts": pts_for(mo, S1.mk)},
              {"who": "V", "kind": "set_w", "label": "set weights(None)", "custom": None, "suffix": ":after-setter", "pts": pts_for(mo, S1.mk)}]
    if rng.random() < 0.5:
        wsteps.reverse()
    steps += wsteps
    # 8 another model of the same shape through the public setters (weights stay)
    same_shape = [S for S in (S2, S2b) if (S.model.K, S.m, S.model.nvar) == shape1]
    if len(same_shape) == 2:
        mo2, da2 = fresh_data(rng, S2b)
        steps.append({"who": "V", "kind": "set_model", "label": "model setters(other tomography, same shape) + set_prob_dists_q", "S": S2b,
                      "model": mo2, "suffix": ":after-setter", "pts": pts_for(mo2, S2b.mk)})
        # 9 documented re-use: yet another tomography of the same shape
        mode, custom = mode_custom(S2)
        mo2, da2 = fresh_data(rng, S2)
        steps.append({"who": "V", "kind": "reuse", "label": f"re-set(other tomography of the same shape,{mode})", "S": S2, "model": mo2, "data": da2,
                      "mode": mode, "custom": custom, "suffix": ":re-used-object", "hessian": "always", "pts": pts_for(mo2, S2.mk)})
    # 10 documented re-use: other shape (sometimes value only: is_gradient_required=False)
    mode, custom = mode_custom(S3)
    steps.append({"who": "V", "kind": "reuse", "label": f"re-set(other shape,{mode})", "S": S3, "model": S3.model, "data": S3.data, "mode": mode,
                  "custom": custom, "suffix": ":re-used-object", "value_only": bool(rng.random() < 0.3),
                  "pts": pts_for(S3.model, S3.mk)})
    # 11 documented re-use: back to the first tomography, new data, other mode
    mo3, da3 = fresh_data(rng, S1)
    mode, custom = mode_custom(S1)
    steps.append({"who": "V", "kind": "reuse", "label": f"re-set(first tomography,{mode})", "S": S1, "model": mo3, "data": da3, "mode": mode,
                  "custom": custom, "suffix": ":re-used-object", "hessian": True, "keep_option": True, "pts": pts_for(mo3, S1.mk)})
    # 12 the rival is re-set with the veteran's option object and data list (objects that went through the library)
    steps.append({"who": "R", "kind": "reuse", "label": f"rival re-set(veteran's option and data,{mode})", "S": S1, "model": mo3, "data": da3,
                  "mode": mode, "custom": custom, "suffix": ":re-used-object", "use_kept_option": True, "pts": steps[-1]["pts"]})
    return steps


def run_loss_history(ctx, Q, J, p, case, base):
    rng = ctx.rng(2)          # own stream: the first part of the case is what it was before the history steps existed
    erng = ctx.rng(3)
    small = base.model.nvar <= 20
    for fam in ("SE", "RE"):
        steps = plan_history(rng, Q, p, base, fam)
        family = "WeightedProbabilityBasedSquaredError" if fam == "SE" else "WeightedRelativeEntropy"
        wkw = "weight_matrices" if fam == "SE" else "weights"
        results = {}
        held = Held(ctx)
        eseed = int(erng.integers(0, 2 ** 31))
        for fast in (False, True):
            cls = {("SE", False): Q.SE, ("SE", True): Q.FSE, ("RE", False): Q.RE, ("RE", True): Q.FRE}[(fam, fast)]
            Opt = {("SE", False): Q.SEOpt, ("SE", True): Q.FSEOpt, ("RE", False): Q.REOpt, ("RE", True): Q.FREOpt}[(fam, fast)]
            cname = cls.__name__
            er = np.random.default_rng(eseed)        # same call order / validate flags for generic and fast
            objs, metas, kept = {}, {}, {}
            last_pt = {}
            dead = set()
            for st in steps:
                who, kind = st["who"], st["kind"]
                if who in dead or (kind != "create" and who not in objs) or (st.get("use_kept_option") and who == "R" and "data" not in kept):
                    continue
                loss, old = objs.get(who), metas.get(who)
                hist = (old["history"] if old else []) + [st["label"]]
                need_h = not fast

                def act():
                    if kind == "create":
                        custom = copy_custom(fam, st["custom"])
                        if st["path"] == "ctor":
                            mo = st["model"]
                            if fast:
                                lo = cls(mo.nvar, [q.copy() for q in mo.qs], custom)
                                lo.set_func_prob_dists_from_standard_qt(st["S"].qt)
                                lo.set_func_gradient_prob_dists_from_standard_qt(st["S"].qt)
                                return lo
                            fp, fg, fh = closures(mo)
                            return cls(mo.nvar, fp, fg, fh, [q.copy() for q in mo.qs], custom)
                        lo = cls()
                        opt = Opt(mode_weight=st["mode"], weights=custom)
                        if st.get("keep_option"):
                            kept["opt"] = opt
                        lo.set_from_standard_qtomography_option_data(st["S"].qt, opt, st["data"], True, need_h)
                        return lo
                    if kind == "requery":
                        return loss
                    if kind == "set_q":
                        loss.set_prob_dists_q([q.copy() for q in st["model"].qs])
                        return loss
                    if kind == "set_w":
                        (loss.set_weight_matrices if fam == "SE" else loss.set_weights)(copy_custom(fam, st["custom"]))
                        return loss
                    if kind == "set_model":
                        mo = st["model"]
                        if fast:
                            loss.set_func_prob_dists_from_standard_qt(st["S"].qt)
                            loss.set_func_gradient_prob_dists_from_standard_qt(st["S"].qt)
                        else:
                            fp, fg, fh = closures(mo)
                            loss.set_func_prob_dists(fp)
                            loss.set_func_gradient_prob_dists(fg)
                            loss.set_func_hessian_prob_dists(fh)
                        loss.set_prob_dists_q([q.copy() for q in mo.qs])
                        return loss
                    if kind == "reuse":
                        if st.get("use_kept_option") and who == "R":
                            opt, data = kept["opt"], kept["data"]
                        elif st.get("use_kept_option") and "opt" in kept:
                            opt, data = kept["opt"], st["data"]
                        else:
                            opt = Opt(mode_weight=st["mode"], weights=copy_custom(fam, st["custom"]), weight_name="w" if st.get("keep_option") else None)
                            data = st["data"]
                        if st.get("keep_option"):
                            kept["opt"], kept["data"] = opt, data
                        loss.set_from_standard_qtomography_option_data(st["S"].qt, opt, data, not st.get("value_only", False), need_h)
                        return loss
                    raise ValueError(kind)

                ok, res = ctx.attempt(act)
                sfx = st["suffix"]
                if not ok:
                    key = f"{cname}:history:{kind}:{ctx.exc_key(res)}{sfx}"
                    ctx.truth("H history step succeeds", False, key=key, info={"class": cname, "history": " -> ".join(hist), "error": repr(res)[:300]})
                    dead.add(who)     # the object is in an undefined state now: nothing further is asked of it
                    continue
                ctx.truth("H history step succeeds", True)
                ctx.count(f"history step: {kind}{' (rival)' if who == 'R' else ''}")
                loss = objs[who] = res
                # what the object has been given last
                if kind in ("create", "reuse"):
                    model, mode, path = st["model"], st["mode"], (st["path"] if kind == "create" else "re-set")
                    expected = expected_for(fam, mode, model, st["custom"] if mode == "custom" else None)
                elif kind == "requery":
                    model, mode, path, expected = old["model"], old["mode"], old["path"], old["expected"]
                elif kind in ("set_q", "set_model"):
                    model, mode, path, expected = st["model"], old["mode"], old["path"], old["expected"]
                else:
                    model, path = old["model"], "setter"
                    mode = "custom" if st["custom"] is not None else "identity"
                    expected = expected_for(fam, mode, model, st["custom"])
                meta = J.register(loss, fam, cname, model, mode, path, expected, quadratic=(fam == "SE"), suffix=sfx, history=hist,
                                  max_dirs=2 if sfx else 4)
                metas[who] = meta
                if kind in ("create", "reuse", "set_w"):
                    J.judge_config(meta)          # set_q / set_model do not touch the weights; O2 judges on the visible ones
                try:
                    meta["weights_at_step"] = copy_custom(fam, _vis_weights(loss, fam))
                except Exception:
                    meta["weights_at_step"] = None
                # ---- ask (value and gradient in either order; hooks judge every call)
                out = []
                # the point this object evaluated LAST before the step comes first (a memo of "the last evaluated
                # point" answers for the old data / weights / model exactly then); the hooks judge these calls
                lp = last_pt.get((fast, who))
                if lp is not None and kind not in ("create", "requery") and lp.size == model.nvar and (fam == "SE" or re_judgeable(model, lp)):
                    for what in (["value"] if st.get("value_only") else ["value", "gradient"]):
                        okc, val = ctx.attempt(getattr(loss, what), lp.copy())
                        if not okc:
                            key = f"{cname}:history:{kind}:evaluation-raises:{type(val).__name__}{sfx}"
                            ctx.violation(key, {"error": repr(val)[:300], "what": what, "site": ctx.exc_key(val), "history": " -> ".join(hist)})
                    ctx.count("history step: previous last point asked first")
                if st["pts"]:
                    last_pt[(fast, who)] = st["pts"][-1]
                for v in st["pts"]:
                    r = {"value": None, "gradient": None}
                    whats = ["value", "gradient"]
                    if er.random() < 0.5:
                        whats.reverse()
                    if st.get("value_only"):
                        whats = ["value"]
                    for what in whats:
                        kw = {"validate": True} if er.random() < 0.2 else {}
                        okc, val = ctx.attempt(getattr(loss, what), v.copy(), **kw)
                        if not okc:
                            key = f"{cname}:history:{kind}:evaluation-raises:{type(val).__name__}{sfx}"
                            ctx.violation(key, {"error": repr(val)[:300], "what": what, "site": ctx.exc_key(val), "history": " -> ".join(hist)})
                            J._fail(meta, key)
                        elif what == "value":
                            r["value"] = float(val)
                            if abs(float(val)) > 0:
                                ctx.nontrivial(p["qt"], p["dim"], model.m, p["flag"], cname, "history", st["label"], v, np.hstack(model.qs))
                        else:
                            r["gradient"] = np.asarray(val, dtype=np.float64)
                            held.keep(f"{cname}:gradient", val)
                    out.append(r)
                # Hessians of the history: steps 1, 9 (and 11 for small models); the quick tier leaves the squared-error
                # Hessian of the largest models (n_var > 50, ~1 s per call) to the thorough tier
                want_h = small or ctx.tier != "quick" or (st.get("hessian") == "always" and (fam == "RE" or base.model.nvar <= 50))
                if st.get("hessian") and not fast and st["pts"] and want_h:
                    okh, H = ctx.attempt(loss.hessian, st["pts"][0].copy())
                    if not okh:
                        key = f"{cname}:history:{kind}:evaluation-raises:{type(H).__name__}{sfx}"
                        ctx.violation(key, {"error": repr(H)[:300], "what": "hessian", "site": ctx.exc_key(H), "history": " -> ".join(hist)})
                    else:
                        held.keep(f"{cname}:hessian", H)
                results[(fast, id(st))] = {"out": out, "meta": meta}

        # ---- O4 fast == generic, step by step (same tomography, option / weights, data, point, history)
        refn = se_ref if fam == "SE" else re_ref
        for st in steps:
            g_, f_ = results.get((False, id(st))), results.get((True, id(st)))
            if g_ is None or f_ is None:
                continue
            prior = f_["meta"]["fail_keys"] + g_["meta"]["fail_keys"]
            model = g_["meta"]["model"]
            for ip, v in enumerate(st["pts"]):
                if fam == "RE" and not re_judgeable(model, v):
                    continue
                for what in ("value", "gradient"):
                    a, bb = g_["out"][ip][what], f_["out"][ip][what]
                    if a is None or bb is None:
                        continue
                    sc = _hist_scale(refn, model, g_["meta"], v, what, a)
                    key = prior[0] if prior else f"{f_['meta']['cls']}:fast!=generic:{what}{st['suffix'] or ':history-fresh'}"
                    ctx.num(f"H O4 fast == generic {what} (objects with a history)", _relerr(bb, a, max(sc, 1e-300)), 1e-11, 1e-8, key=key,
                            info={"history": " -> ".join(g_["meta"]["history"]), "generic": a, "fast": bb, "what": what, "family": family})
        held.verify()
        J.reg.clear()


def _hist_scale(refn, model, meta, v, what, a):
    """magnitude of the terms summed in `what` with the weights in force at that step (for the relative error)"""
    w = meta.get("weights_at_step")
    try:
        _, sc = refn(model, w, v, what)
        return sc
    except Exception:
        return float(np.max(np.abs(a)))


def option_modes(ctx, Q):
    """which mode strings do the option constructors accept?  documented ones must be accepted, decoys rejected"""
    for Opt, documented in ((Q.SEOpt, ["identity", "custom", "inverse_sample_covariance", "inverse_unbiased_covariance"]),
                            (Q.FSEOpt, ["identity", "custom"]), (Q.REOpt, ["identity", "custom"]), (Q.FREOpt, ["identity", "custom"])):
        for mode in documented:
            ok, v = ctx.attempt(Opt, mode_weight=mode)
            ctx.truth("option accepts documented mode", ok, key=f"{Opt.__name__}:rejects-documented-mode:{mode}")
        for mode in DECOY_MODES + [None]:
            ok, v = ctx.attempt(Opt, mode_weight=mode)
            ctx.truth("option rejects unsupported mode with ValueError", (not ok) and isinstance(v, ValueError),
                      key=f"{Opt.__name__}:accepts-unsupported-mode:{mode!r}")
    for Opt in (Q.REOpt, Q.FREOpt):
        for mode in ("inverse_sample_covariance", "inverse_unbiased_covariance", "unbiased_inverse_covariance"):
            ok, v = ctx.attempt(Opt, mode_weight=mode)
            if ok:
                # accepted although undocumented for the entropy loss: then it has to do something (not judged further here)
                ctx.count(f"{Opt.__name__} accepts {mode}")
            ctx.truth("option rejects unsupported mode with ValueError", (not ok) and isinstance(v, ValueError),
                      key=f"{Opt.__name__}:accepts-undocumented-mode:{mode}")


def run_functions_case(ctx, Q, hs, J, case, second):
    rng = ctx.rng()
    J.dir_rng = ctx.rng(1)
    ent, mu = Q.entropy, Q.mutil
    m = int(rng.integers(2, 6))
    # --- probability vectors: q with exact zeros, p possibly unnormalised / > 1, all >= 1e-6 where it matters
    q = rng.dirichlet(np.ones(m) * float(rng.choice([0.3, 1.0, 5.0])))
    q = np.where(q < 1e-5, 0.0, q)
    if rng.random() < 0.5:
        q[int(rng.integers(0, m))] = 0.0
    if q.sum() == 0:
        q[0] = 1.0
    q = q / q.sum()
    q = np.where((q > 0) & (q < 1e-5), 1e-5, q)
    pk = str(rng.choice(["dist", "unnormalised", "small", "negative-where-q0"]))
    pvec = rng.dirichlet(np.ones(m))
    pvec = np.maximum(pvec, 1e-5)
    if pk == "unnormalised":
        pvec = pvec * float(rng.choice([0.5, 3.0]))
    elif pk == "small":
        pvec[int(rng.integers(0, m))] = float(rng.choice([2e-6, 1e-5, 1e-4]))
    elif pk == "negative-where-q0":
        for i in np.where(q == 0)[0]:
            pvec[i] = -float(rng.uniform(0.01, 0.3))
    nvar = int(rng.integers(1, 7))
    G = rng.standard_normal((m, nvar))
    Hp = rng.standard_normal((m, nvar, nvar))
    Hp = Hp + Hp.transpose(0, 2, 1)
    calls = [
        ("relative_entropy", lambda: ent.relative_entropy(q, pvec, is_valid_required=False)),
        ("relative_entropy_vector", lambda: ent.relative_entropy_vector(q, pvec, is_valid_required=False)),
        ("gradient_relative_entropy_2nd", lambda: ent.gradient_relative_entropy_2nd(q, pvec, G, is_valid_required=False)),
        ("gradient_relative_entropy_2nd_vector", lambda: ent.gradient_relative_entropy_2nd_vector(q, pvec, G, is_valid_required=False)),
        ("hessian_relative_entropy_2nd", lambda: ent.hessian_relative_entropy_2nd(q, pvec, G, Hp, is_valid_required=False)),
    ]
    if pk != "negative-where-q0":
        calls += [("relative_entropy", lambda: ent.relative_entropy(q, pvec)),
                  ("relative_entropy_vector", lambda: ent.relative_entropy_vector(q, pvec)),
                  ("gradient_relative_entropy_2nd", lambda: ent.gradient_relative_entropy_2nd(q, pvec, G))]
    res = {}
    held = Held(ctx)
    for nme, call in calls:
        ok, v = ctx.attempt(call)
        if not ok:
            ctx.violation(f"entropy.{nme}:" + ctx.exc_key(v), {"q": q, "p": pvec, "p_kind": pk})
        else:
            res.setdefault(nme, v)
            held.keep(f"entropy.{nme}", v)
    # history: the same functions with ONE argument changed (a memo keyed by too little would answer for the first
    # arguments), then the first arguments again; the hooks judge every call against the formula
    hr = ctx.rng(2)
    q_b = hr.dirichlet(np.ones(m))
    q_b = np.where(q_b < 1e-5, 1e-5, q_b)
    q_b = q_b / q_b.sum()
    p_b = np.maximum(hr.dirichlet(np.ones(m)), 1e-5) * float(hr.choice([1.0, 1.0, 2.0]))
    G_b = hr.standard_normal((m, nvar))
    Hp_b = hr.standard_normal((m, nvar, nvar))
    Hp_b = Hp_b + Hp_b.transpose(0, 2, 1)
    variants = [("p", q, p_b, G, Hp), ("q", q_b, np.abs(pvec) + 1e-5, G, Hp), ("grad", q, p_b, G_b, Hp), ("hess", q, p_b, G, Hp_b),
                ("first-again", q, pvec, G, Hp)]
    for tag, qq, pp, GG, HH in variants:
        vcalls = [("relative_entropy", lambda: ent.relative_entropy(qq, pp, is_valid_required=False)),
                  ("relative_entropy_vector", lambda: ent.relative_entropy_vector(qq, pp, is_valid_required=False)),
                  ("gradient_relative_entropy_2nd", lambda: ent.gradient_relative_entropy_2nd(qq, pp, GG, is_valid_required=False)),
                  ("gradient_relative_entropy_2nd_vector", lambda: ent.gradient_relative_entropy_2nd_vector(qq, pp, GG, is_valid_required=False)),
                  ("hessian_relative_entropy_2nd", lambda: ent.hessian_relative_entropy_2nd(qq, pp, GG, HH, is_valid_required=False))]
        if tag in ("p", "q", "first-again"):
            vcalls = vcalls[:4] if tag != "first-again" else vcalls
        for nme, call in vcalls:
            ok, v = ctx.attempt(call)
            if not ok:
                ctx.violation(f"entropy.{nme}:" + ctx.exc_key(v) + ":second-call", {"q": qq, "p": pp, "changed": tag})
            else:
                held.keep(f"entropy.{nme}", v)
            ctx.count("history: entropy function called again with one argument changed")
    held.verify()
    # scalar and vector forms agree
    if "relative_entropy" in res and "relative_entropy_vector" in res:
        s = float(np.sum(np.abs(res["relative_entropy_vector"])))
        ctx.num("entropy scalar == sum(vector)", abs(float(res["relative_entropy"]) - float(np.sum(res["relative_entropy_vector"]))) / max(s, 1e-300),
                1e-12, 1e-9, key="entropy:relative_entropy!=sum(relative_entropy_vector)", info={"q": q, "p": pvec})
    if "gradient_relative_entropy_2nd" in res and "gradient_relative_entropy_2nd_vector" in res:
        V = np.asarray(res["gradient_relative_entropy_2nd_vector"])
        s = float(np.max(np.sum(np.abs(V), axis=0)))
        ctx.num("entropy gradient scalar == sum(vector)", _relerr(res["gradient_relative_entropy_2nd"], V.sum(axis=0), max(s, 1e-300)),
                1e-12, 1e-9, key="entropy:gradient_relative_entropy_2nd!=sum(vector form)", info={"q": q, "p": pvec})
    ctx.nontrivial("entropy", q, pvec, G)

    # --- covariance and regularisation helpers
    n = int(rng.choice([2, 10, 100, 1000, 12345]))
    ok, v = ctx.attempt(mu.calc_covariance_mat, q, n)
    if not ok:
        ctx.violation("matrix_util.calc_covariance_mat:" + ctx.exc_key(v), {"q": q, "n": n})
    ok, v = ctx.attempt(mu.replace_prob_dist, q)
    if not ok:
        ctx.violation("matrix_util.replace_prob_dist:" + ctx.exc_key(v), {"q": q})
    q2 = q.copy()
    nz = np.where(q2 > 1e-3)[0]
    if len(nz) >= 2 and rng.random() < 0.7:
        # tiny positive entries (below the regularisation threshold)
        i, j = nz[0], nz[-1]
        t = float(rng.choice([1e-12, 3e-9, 9.9e-9]))
        q2[i] -= t
        zs = np.where(q2 == 0)[0]
        if len(zs):
            q2[zs[0]] = t
        else:
            q2[i] += t
    ok, v = ctx.attempt(mu.replace_prob_dist, q2, float(rng.choice([1e-8, 1e-6]))) if rng.random() < 0.5 else ctx.attempt(mu.replace_prob_dist, q2)
    if not ok:
        ctx.violation("matrix_util.replace_prob_dist:" + ctx.exc_key(v), {"q": q2})
    ctx.nontrivial("matrix_util", q, q2, n)
    # history: same q with another n, another q with the same n, the first arguments again; results kept by the caller
    n_b = int(hr.choice([3, 50, 999]))
    for args in ((q, n_b), (q_b, n), (q, n)):
        ok, v = ctx.attempt(mu.calc_covariance_mat, *args)
        if not ok:
            ctx.violation("matrix_util.calc_covariance_mat:" + ctx.exc_key(v) + ":second-call", {"q": args[0], "n": args[1]})
        else:
            held.keep("matrix_util.calc_covariance_mat", v)
    for args in ((q,), (q2, 1e-6), (q_b,), (q,), (q2,)):
        ok, v = ctx.attempt(mu.replace_prob_dist, *args)
        if not ok:
            ctx.violation("matrix_util.replace_prob_dist:" + ctx.exc_key(v) + ":second-call", {"q": args[0]})
        else:
            held.keep("matrix_util.replace_prob_dist", v)
    held.verify()

    # --- SimpleQuadraticLossFunction
    k = int(rng.integers(1, 13)) if not second else int(rng.choice([1, 16, 40]))
    var_ref = rng.standard_normal(k) * float(rng.choice([0.1, 1.0, 10.0]))
    ok, loss = ctx.attempt(Q.SQ, var_ref.copy())
    if not ok:
        ctx.violation("SimpleQuadraticLossFunction.ctor:" + ctx.exc_key(loss), {"n": k})
        return
    mo = Model(np.eye(k), -var_ref, k, [1], [np.zeros(k)])
    meta = J.register(loss, "SQ", "SimpleQuadraticLossFunction", mo, "none", "ctor", {"kind": "identity"}, quadratic=True)
    meta["var_ref"] = var_ref.copy()
    xs = (var_ref + rng.standard_normal(k), var_ref.copy(), rng.standard_normal(k) * 30)
    for x in xs:
        for nme in ("value", "gradient", "hessian"):
            ok, v = ctx.attempt(getattr(loss, nme), x.copy())
            if not ok:
                ctx.violation(f"SimpleQuadraticLossFunction.{nme}:" + ctx.exc_key(v), {"n": k})
            else:
                held.keep(f"SimpleQuadraticLossFunction:{nme}", v)
        ctx.nontrivial("SQ", var_ref, x)
    ok, v = ctx.attempt(loss.value, np.zeros(k + 1))
    ctx.truth("SimpleQuadratic rejects wrong shape", (not ok) and isinstance(v, ValueError), key="SimpleQuadraticLossFunction:accepts-wrong-shape")
    # history: a rival of the same size with another reference point is built and asked, then the first object again
    var_ref_b = hr.standard_normal(k) * float(hr.choice([0.1, 1.0, 10.0]))
    ok, rival = ctx.attempt(Q.SQ, var_ref_b.copy())
    if ok:
        mo_b = Model(np.eye(k), -var_ref_b, k, [1], [np.zeros(k)])
        meta_b = J.register(rival, "SQ", "SimpleQuadraticLossFunction", mo_b, "none", "ctor", {"kind": "identity"}, quadratic=True,
                            suffix=":rival-of-same-size", max_dirs=4)
        meta_b["var_ref"] = var_ref_b.copy()
        meta["suffix"], meta["max_dirs"] = ":second-call", 4
        for lo, x in ((rival, xs[0]), (loss, xs[0]), (rival, xs[2]), (loss, xs[2])):
            for nme in ("gradient", "value", "hessian"):
                ok, v = ctx.attempt(getattr(lo, nme), x.copy())
                if not ok:
                    ctx.violation(f"SimpleQuadraticLossFunction.{nme}:" + ctx.exc_key(v) + ":second-call", {"n": k})
                else:
                    held.keep(f"SimpleQuadraticLossFunction:{nme}", v)
    else:
        ctx.violation("SimpleQuadraticLossFunction.ctor:" + ctx.exc_key(rival) + ":second-call", {"n": k})
    held.verify()
    J.reg.clear()


def run_shard(ctx):
    import time

    t_cpu = time.process_time()
    p = ctx.params
    Q, hs, J = install(ctx)
    try:
        if p["kind"] == "functions":
            if ctx.only_case is None:
                option_modes(ctx, Q)
            for i in ctx.cases(p["n"]):
                run_functions_case(ctx, Q, hs, J, i, bool(p.get("second")))
        else:
            for i in ctx.cases(p["n"]):
                run_loss_case(ctx, Q, hs, J, p, i)
    finally:
        hs.uninstall()
    ctx.extra["hook_counts"] = hs.counts
    ctx.extra["cpu_s"] = round(time.process_time() - t_cpu, 2)
    if p["kind"] == "functions":
        hs.require(["SimpleQuadraticLossFunction.value", "SimpleQuadraticLossFunction.gradient", "SimpleQuadraticLossFunction.hessian",
                    "entropy.relative_entropy", "entropy.relative_entropy_vector", "entropy.gradient_relative_entropy_2nd",
                    "entropy.gradient_relative_entropy_2nd_vector", "entropy.hessian_relative_entropy_2nd",
                    "matrix_util.replace_prob_dist", "matrix_util.calc_covariance_mat"])
    else:
        hs.require(["WeightedProbabilityBasedSquaredError.value", "WeightedProbabilityBasedSquaredError.gradient",
                    "WeightedRelativeEntropy.value", "WeightedRelativeEntropy.gradient",
                    "StandardQTomographyBasedWeightedProbabilityBasedSquaredError.value",
                    "StandardQTomographyBasedWeightedProbabilityBasedSquaredError.gradient",
                    "StandardQTomographyBasedWeightedRelativeEntropy.value", "StandardQTomographyBasedWeightedRelativeEntropy.gradient"])


def finalize(merged, ctx):
    """cost accounting only (CPU seconds per shard are independent of the machine's load)"""
    cpu = [float((e.get("extra") or {}).get("cpu_s", 0.0)) for e in merged["extra"]]
    if cpu:
        ctx.count("cpu_s_total", round(sum(cpu), 1))
        ctx.count("cpu_s_max_shard", round(max(cpu), 1))
