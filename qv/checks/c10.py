"""C10  Constrained estimators return physical, consistent estimates.

Hooks on `ProjectedLinearEstimator.calc_estimate_sequence`,
`LossMinimizationEstimator.calc_estimate_sequence` and on `optimize` of the three
projected-gradient algorithms (always driven with the iterate history on) judge
every execution with the reference geometry of the physical sets
(`refopt.violations` on the stacked vector the estimate denotes):

(a) every returned estimate satisfies the constraints that are switched on, to
    the accuracy of the projection's stopping threshold (sigma = sqrt(eps_proj_physical));
(b) every recorded iterate x_k (momentum / FISTA: projection outputs; backtracking:
    convex combinations of feasible points) is feasible to the same accuracy when
    the run starts from the default (origin) or from a physical start point;
(c) the projected-linear estimate is the output of calc_proj_physical (run by the
    monitor with the estimator's order on the captured linear estimate) and is the
    nearest physical point (reference Dykstra / Clarabel SDP) to that accuracy;
(d) exact data of a physical object: projected-linear returns it; backtracking
    returns it to stopping accuracy (only runs that stopped by their criterion);
(e) with one of on_algo_eq_constraint / on_algo_ineq_constraint off exactly the
    enabled constraint is required.

History / combination steps (same oracles; nothing beyond the statement is asked).  The statement holds for every call,
whatever the objects did before, so the workload no longer builds fresh objects for every estimate:
  * re-use: the estimator objects (one projected-linear estimator per order, one loss-minimisation estimator), one loss
    object per loss class and one algorithm object per algorithm serve ALL estimates of a case (the library documents
    that calc_estimate updates the loss and algorithm it is handed), on two cases of three even all cases of the shard
    (other tomography of the same shape, other data, other number of POVM / measurement-process outcomes);
  * sibling tomography: a second tomography object of the same type, shape and flag with other testers and the other
    projection threshold (POVM / measurement-process tomography: in half of the cases another number of outcomes) is
    estimated with the same estimator / loss / backtracking objects between the calls for the case's own tomography
    (a cache keyed by class / shape / size would hand one the other's model or projection): its exact data must be
    recovered, and so must the case's own exact data afterwards;
  * dataset sequences: loss minimisation is also driven through calc_estimate_sequence with two exact datasets of
    different objects in one call (loss / algorithm state left by the first dataset; a result aliasing a work array);
  * second calls: after the sibling and after bystander calls on the tomography object (reset_seed, calc_prob_dists,
    generate_empi_dists) the projected-linear estimators are asked again through the default path (no timing / history):
    as many datasets as in the first call in another order (the exact data at another position, one dataset replaced
    by the one the tomography's own sampler returned), then two single calls in a row with different exact data (a
    memo keyed by tomography and number of datasets, or a memo of the last call, would answer for other data); at the
    end of the case one core configuration is estimated again with the very same loss / option / algorithm objects
    through the default path (no iterate history, no detailed results) and right after it the squared-error recovery
    run is repeated as the last action;
  * held results: the result objects of the first projected-linear calls and of the squared-error recovery are read
    again after everything else (the estimate a caller holds must still be that estimate, to 1e-9 relative, still denote
    its variables and still be physical);
  * provenance: testers reached through copy() (half of the cases), the physical start point read back from a library
    object (generate_from_var(...).to_var()), non-default step options (mu, gamma / r / delta) on feasibility-only runs.
Keys of verdicts taken in such steps end in ":re-used-object", ":second-call", ":dataset-sequence" or ":result-re-read"
(in the two long backtracking recovery keys the tag stands after the loss family / the parametrisation tag, because
replay files are named by the first 120 characters of a key; the relative-entropy recovery and exception keys, which
name known findings, stay as they are).
"""
import contextlib
import io
import math

import numpy as np

from qv import gen, ref, refopt
from qv.monitor import HookSet

ID = "C10"
RULE = ("tomography instances of 4 types (QST, POVMT, QPT, QMPT) x on_para_eq_constraint in {F,T} x shapes S1, S3 (S2 QST "
        "thorough) with randomly rotated, randomly depolarised mutually-unbiased tester sets (equal outcome counts) and "
        "eps_proj_physical in {default 1e-14, 1e-10}; per instance 8 datasets: exact data (reference Born rule) of an "
        "interior / boundary (rank-deficient, pure, unitary, projective) object, few-shot samples with N = 1, 2, 5, 10 "
        "(empty outcomes), random simplex points, deterministic outcomes; estimators: projected-linear (both orders) and "
        "loss minimisation with 3 algorithms x {generic, fast} x {squared error, relative entropy} x weight options x both "
        "orders x constraint-option matrix x default / physical start; a case is distinct by (type, shape, flag, m, "
        "estimator configuration, data class, rounded data) and non-trivial when the linear estimate of the data is not "
        "physical (the constraint has to act) or the data are exact data of a boundary object; history steps: estimator / "
        "loss / algorithm objects re-used for all estimates of a case (of the shard on 2 cases of 3), a sibling tomography "
        "(other testers, other projection threshold, for POVMT / QMPT in half of the cases another outcome number) estimated "
        "in between with the same objects, two-dataset sequences, second calls (same number of datasets in another order, "
        "consecutive single calls, default no-history path, library-sampled data) after bystander calls on the "
        "tomography object, held results read again at the end, testers through copy(), start point read back from a "
        "library object, non-default step options")
_PGD = "quara/minimization_algorithm/"
ANCHORS = [
    "quara/protocol/qtomography/standard/projected_linear_estimator.py:ProjectedLinearEstimator.calc_estimate_sequence",
    "quara/protocol/qtomography/standard/projected_linear_estimator.py:ProjectedLinearEstimator.calc_estimate",
    "quara/protocol/qtomography/standard/loss_minimization_estimator.py:LossMinimizationEstimator.calc_estimate_sequence",
    _PGD + "projected_gradient_descent.py:ProjectedGradientDescent.set_constraint_from_standard_qt_and_option",
    _PGD + "projected_gradient_descent_backtracking.py:ProjectedGradientDescentBacktracking.optimize",
    _PGD + "projected_gradient_descent_with_momentum.py:ProjectedGradientDescentWithMomentum.optimize",
    _PGD + "projected_fast_iterative_shrinkage_thresholding_algorithm.py:ProjectedFastIterativeShrinkageThresholdingAlgorithm.optimize",
    "quara/objects/qoperation.py:QOperation.calc_proj_physical",
    "quara/objects/qoperation.py:QOperation.calc_proj_physical_with_var",
    "quara/objects/qoperation.py:QOperation.func_calc_proj_physical_with_var.<locals>._func_proj",
    "quara/objects/qoperation.py:QOperation.func_calc_proj_eq_constraint_with_var.<locals>._func_proj",
    "quara/objects/qoperation.py:QOperation.func_calc_proj_ineq_constraint_with_var.<locals>._func_proj",
]
REQUIRED_REACH = ANCHORS
REQUIRED_ORACLES = [
    "estimate:feasible:eq", "estimate:feasible:ineq", "estimate:feasible:eq-built-in",
    "iterates:feasible:eq", "iterates:feasible:ineq", "iterates:start=origin",
    "projected-linear:is-calc_proj_physical-of-linear-estimate", "projected-linear:nearest-physical-point",
    "exact-data:projected-linear-recovers", "exact-data:backtracking-recovers",
    "options:eq-only:eq-holds", "options:ineq-only:ineq-holds",
]
MIN_EVALS = {"quick": 10000, "thorough": 100000}
WATCHDOG = {"quick": 900, "thorough": 3600}
ASSUMPTIONS = [
    "testers use identity-first orthonormal Hermitian bases (normalised Pauli / Gell-Mann and tensor products); exact "
    "data come from the reference Born rule on operator matrices and are cross-checked against A v + b of the "
    "tomography object (a mismatch is C08's business: the recovery oracles are then not evaluated)",
    "estimator, loss and algorithm objects are re-used across estimates only in the way calc_estimate documents (it "
    "re-sets the loss and the algorithm it is handed); a loss object is re-used only with tomography objects of the same "
    "number of variables (the fast losses do not re-read num_var)",
    "history steps draw from their own random stream (case stream + 1), so the base workload of a case is the one of "
    "the earlier versions of this check",
    "feasibility after a physical projection that ran into its own iteration limit (projected-linear uses the default "
    "1000) is not promised: such estimates are grey and counted",
]

TOMO_TYPE = {"qst": "State", "povmt": "Povm", "qpt": "Gate", "qmpt": "MProcess"}
ALGOS = ["pgdb", "pgdm", "fista"]
LOSSES = ["se", "fse", "re", "fre"]
KAPPA_REC = 8.0        # exact-data recovery runs only on tester sets at most this ill-conditioned (cost ~ cond^2 iterations)
MAX_IT_RECOVERY = 20000
MAX_IT_PROJ = 5000         # inner physical projection (library default 100000); a hit prints a warning => run is grey


# ----------------------------------------------------------------- shards


def shards(tier, seed):
    out = []
    # (shape, tomo) -> (cases per flag, parts per flag, cost of one case in cpu-seconds (measured, rough))
    if tier == "quick":
        plan = {("S1", "qst"): (16, 4, 2.5), ("S1", "povmt"): (6, 6, 14.0), ("S1", "qpt"): (6, 6, 10.0), ("S1", "qmpt"): (4, 4, 30.0),
                ("S3", "qst"): (6, 3, 4.0)}
    else:
        plan = {("S1", "qst"): (120, 4, 2.5), ("S1", "povmt"): (40, 5, 14.0), ("S1", "qpt"): (40, 5, 10.0), ("S1", "qmpt"): (24, 8, 30.0),
                ("S3", "qst"): (32, 4, 10.0), ("S3", "povmt"): (12, 4, 40.0), ("S3", "qpt"): (4, 4, 150.0), ("S3", "qmpt"): (2, 2, 300.0),
                ("S2", "qst"): (12, 3, 20.0)}
    for (shape, tomo), (n, parts, cost) in plan.items():
        per = int(math.ceil(n / parts))
        for flag in (False, True):
            for part in range(parts):
                out.append({"tomo": tomo, "shape": shape, "flag": flag, "n": per, "start": part * per, "weight": cost * per})
    if tier == "quick":
        # one qutrit process-tomography case per flag without the (2500-iteration) recovery run: keeps the
        # dim > 2 branches of the variable-level gate projections inside the quick tier (seeded change C10-2)
        for flag in (False, True):
            out.append({"tomo": "qpt", "shape": "S3", "flag": flag, "n": 1, "start": 0, "weight": 80.0, "lite": True})
    return out


# ------------------------------------------------------------- tolerances


def tol(eps, a_norm):
    """Same derivation as C05: the physical projection stops when the *squared* change of the Dykstra increments
    drops below eps_proj_physical, so its accuracy scale is sigma = sqrt(eps); measured there: feasibility error
    <= 1.3 sigma, distance to the nearest point <= 13 sigma, independent of the input norm; 1e-12 relative floor."""
    sigma = np.sqrt(eps)
    floor = 1e-12 * (1.0 + a_norm)
    return 30 * sigma + floor, 3000 * sigma + 100 * floor


def tol_direct(a_norm):
    """closed-form steps (built-in equality constraint, a single eq / ineq projection): round-off only"""
    return 1e-12 * (1.0 + a_norm), 1e-9 * (1.0 + a_norm)


def tol_recover(smin):
    """Backtracking stops when one step lowers the loss by <= eps (1e-14).  With the Armijo rule the decrease is
    >= gamma*alpha*mu*|y|^2 (y the projected-gradient step), so at the stop |grad| ~ sqrt(eps*mu/(gamma*alpha)) ~ 5e-7
    and the distance to the minimiser is ~ |grad| / lambda_min(Hessian), lambda_min >= sigma_min(A)^2 (relative entropy)
    or 2 sigma_min(A)^2 (squared error): ~1e-6 for the tester sets used here (sigma_min 0.55..0.8).  Measured on the
    pinned tree over 1122 criterion-terminated runs of the thorough tier: squared error (both flags, interior and
    boundary) and relative entropy with the equality constraint built in, interior: <= 6e-6, median 5e-8; 1-qubit QST
    with tester sets of cond 1.7..59: 3e-8 / sigma_min^2.  tol_fail is DESIGN's 1e-3 (semantic breaks give >= 1e-2);
    tol_pass = 1e-5; both grow as 1/sigma_min^2 for sigma_min^2 < 1/9."""
    tp = 1e-5 * max(1.0, 1.0 / (9.0 * smin * smin))
    return tp, 1e2 * tp


# --------------------------------------------------- fast geometry (scan only)


class Fast:
    """vectorised violation sizes used to *scan* long iterate histories for the worst iterates; the verdicts are taken
    with refopt.violations on the selected iterates (and the two are compared there)."""

    def __init__(self, t, B, d, m):
        self.t, self.d, self.m = t, d, m
        self.n = d * d
        self.Bs = np.array(B)
        self.BsC = self.Bs.conj()

    def ops(self, s):
        t, n, m = self.t, self.n, self.m
        if t == "State":
            return np.einsum("a,aij->ij", s, self.Bs)[None]
        if t == "Povm":
            return np.einsum("xa,aij->xij", s.reshape(m, n), self.Bs)
        hs = s.reshape(-1, n, n)
        D = self.d * self.d
        return np.einsum("xab,aij,bkl->xikjl", hs, self.Bs, self.BsC).reshape(hs.shape[0], D, D)

    def ineq(self, s):
        o = self.ops(np.asarray(s, dtype=np.float64))
        h = (o + np.conj(np.transpose(o, (0, 2, 1)))) / 2
        w = np.linalg.eigvalsh(h)
        return float(max(0.0, -w.min()))

    def eq(self, s):
        s = np.asarray(s, dtype=np.float64)
        return float(np.max(np.abs(s - refopt.proj_eq(self.t, self.d, self.m, s))))


# ----------------------------------------------------------------- monitor


def algo_name(a):
    n = type(a).__name__
    return {"ProjectedGradientDescentBacktracking": "pgdb", "ProjectedGradientDescentWithMomentum": "pgdm",
            "ProjectedFastIterativeShrinkageThresholdingAlgorithm": "fista"}.get(n, n)


def loss_name(l):
    n = type(l).__name__
    return {"WeightedProbabilityBasedSquaredError": "se", "WeightedRelativeEntropy": "re",
            "StandardQTomographyBasedWeightedProbabilityBasedSquaredError": "fse",
            "StandardQTomographyBasedWeightedRelativeEntropy": "fre"}.get(n, n)


def opts_class(eq_on, ineq_on):
    return "eq+ineq" if eq_on and ineq_on else "eq-only" if eq_on else "ineq-only" if ineq_on else "none"


def ref_origin(t, d, m):
    """stacked vector of the origin object (maximally mixed state, I/m, completely depolarising map, its m-th part)"""
    n = d * d
    if t == "State":
        s = np.zeros(n)
        s[0] = 1 / np.sqrt(d)
        return s
    if t == "Povm":
        s = np.zeros((m, n))
        s[:, 0] = np.sqrt(d) / m
        return s.reshape(-1)
    if t == "Gate":
        s = np.zeros((n, n))
        s[0, 0] = 1.0
        return s.reshape(-1)
    s = np.zeros((m, n, n))
    s[:, 0, 0] = 1.0 / m
    return s.reshape(-1)


class Mon:
    def __init__(self, ctx):
        self.ctx = ctx
        self.data = {}       # id(dataset) -> (dataset, meta)
        self.infos = {}      # id(qt) -> (qt, info)
        self.fast = {}
        self.geo = {}
        self.worst = {}
        self.cur = {}        # state of the estimator call being executed
        self.buf = None      # captured stdout of the running estimator call
        self.phys_starts = []  # var vectors the driver vouches to be physical start points
        self.hist = ""       # key suffix naming the history step the driver is in ("" = first call on fresh objects)
        self.last = None     # what the last hooked estimator call returned: {"vars": copies, "judged": [bool]} (for the re-read step)

    def K(self, key):
        """mechanism key of a verdict taken during a history step"""
        return key + self.hist

    # -- bookkeeping
    def num(self, oracle, err, tp, tf, key=None, info=None):
        try:
            r = float(err) / tp if tp > 0 else 0.0
            if math.isfinite(r):
                self.worst[oracle] = max(self.worst.get(oracle, 0.0), r)
        except Exception:  # noqa: BLE001
            pass
        return self.ctx.num(oracle, err, tp, tf, key=key, info=info)

    def meta_of(self, ds):
        c = self.data.get(id(ds))
        return c[1] if c is not None and c[0] is ds else {"cls": "unlabelled", "truth": None}

    def info(self, qt):
        c = self.infos.get(id(qt))
        if c is not None and c[0] is qt:
            return c[1]
        obj = qt.generate_empty_estimation_obj_with_setting_info()
        t = gen.type_of(obj)
        c_sys = obj.composite_system
        d = int(c_sys.dim)
        m = len(obj.vecs) if t == "Povm" else len(obj.hss) if t == "MProcess" else 0
        A = np.asarray(qt.calc_matA(), dtype=np.float64)
        sv = np.linalg.svd(A, compute_uv=False)
        ti = {"t": t, "d": d, "m": m, "flag": bool(obj.on_para_eq_constraint), "eps": float(obj.eps_proj_physical),
              "B": gen.basis_of(c_sys), "smax": float(sv[0]), "smin": float(sv[min(A.shape) - 1]), "tomo": type(qt).__name__,
              "nvar": int(qt.num_variables)}
        ti["kappa"] = ti["smax"] / ti["smin"] if ti["smin"] > 0 else float("inf")
        ti["tag"] = f"{t}:para_eq={'T' if ti['flag'] else 'F'}"
        if len(self.infos) > 8:
            self.infos.clear()
        self.infos[id(qt)] = (qt, ti)
        return ti

    def fast_of(self, ti):
        k = (ti["t"], ti["d"], ti["m"])
        if k not in self.fast:
            self.fast[k] = Fast(ti["t"], ti["B"], ti["d"], ti["m"])
        return self.fast[k]

    def geo_of(self, ti):
        k = (ti["t"], ti["d"], ti["m"])
        if k not in self.geo:
            self.geo[k] = refopt.Geometry(ti["t"], ti["B"], ti["d"], ti["m"])
        return self.geo[k]

    def stack(self, ti, var):
        return refopt.stack_from_var(ti["t"], ti["d"], ti["m"], np.asarray(var, dtype=np.float64), ti["flag"])

    def viol(self, ti, s):
        return refopt.violations(ti["t"], ti["B"], ti["d"], ti["m"], s)

    def proj_limit_printed(self):
        return self.buf is not None and "projection iterations exceeds the limit" in self.buf.getvalue()

    # -- oracle (a)/(b)/(e): constraints that are switched on hold
    def judge_point(self, who, what, ti, s, eq_on, ineq_on, info, oracle_pref):
        """what: 'estimate' | 'iterate';  who: mechanism prefix of the key"""
        t, flag = ti["t"], ti["flag"]
        K = self.K
        s = np.asarray(s, dtype=np.float64)
        if s.shape[0] != refopt.n_stack(t, ti["d"], ti["m"]) or not np.all(np.isfinite(s)):
            self.ctx.truth(f"{oracle_pref}:well-formed", False, key=K(f"{who}:{ti['tag']}:{what}-not-finite-or-wrong-size"), info=info)
            return None
        self.ctx.truth(f"{oracle_pref}:well-formed", True)
        eq, ineq = self.viol(ti, s)
        an = float(np.linalg.norm(s))
        both = eq_on and ineq_on
        tag = ti["tag"]
        info = dict(info, eq=eq, ineq=ineq, norm=an, eps_proj_physical=ti["eps"])
        if flag:
            # the equality constraint is part of the parametrisation: exact whatever the options are
            tp, tf = tol_direct(an)
            self.num(f"{oracle_pref}:feasible:eq-built-in", eq, tp, tf, key=K(f"{who}:{tag}:{what}-violates-built-in-eq"), info=info)
        elif eq_on:
            tp, tf = tol(ti["eps"], an) if both else tol_direct(an)
            name = f"{oracle_pref}:feasible:eq" if both else "options:eq-only:eq-holds"
            self.num(name, eq, tp, tf, key=K(f"{who}:{tag}:opts={opts_class(eq_on, ineq_on)}:{what}-violates-eq"), info=info)
        if ineq_on:
            if both:
                tp, tf = tol(ti["eps"], an)
                self.num(f"{oracle_pref}:feasible:ineq", ineq, tp, tf, key=K(f"{who}:{tag}:opts=eq+ineq:{what}-violates-ineq"), info=info)
            elif not flag:
                tp, tf = tol_direct(an)
                self.num("options:ineq-only:ineq-holds", ineq, tp, tf, key=K(f"{who}:{tag}:opts=ineq-only:{what}-violates-ineq"), info=info)
            else:
                # ineq-only with the equality constraint built in: the projected operator is re-normalised by the
                # parametrisation afterwards; the statement promises nothing here (recorded, not judged)
                self.ctx.skip("options:ineq-only:para_eq=T:recorded-not-judged")
                self.ctx.count("recorded:ineq-only:para_eq=T:" + ("psd" if ineq <= 1e-9 else "not-psd"))
        if not eq_on and not ineq_on:
            self.ctx.count("recorded:opts=none:estimate-unconstrained")
        return eq, ineq


    # -- history: a result object the caller still holds is read again after later calls
    def reread(self, who, who_point, res, first, qt, seq, eq_on=True, ineq_on=True, info=None):
        """the estimate a caller holds must still be that estimate (first: copies taken when the call returned), still
        denote its variables (estimated_qoperation_sequence is rebuilt from the template at every access) and still
        satisfy the constraints"""
        ti = self.info(qt)
        tag = ti["tag"]
        K = self.K
        info0 = dict(info or {}, tomo=ti["tomo"], tag=tag)
        try:
            vs = [np.array(v, dtype=np.float64, copy=True) for v in res.estimated_var_sequence]
            objs = res.estimated_qoperation_sequence
        except Exception as ex:  # noqa: BLE001
            self.ctx.violation(K(f"{who}:{tag}:held-result-cannot-be-read:{type(ex).__name__}"), info0)
            return
        if not self.ctx.truth("held-result:one-estimate-per-dataset", len(vs) == len(seq) == len(first["vars"]) == len(objs),
                              key=K(f"{who}:{tag}:wrong-number-of-estimates"), info=info0):
            return
        for k, ds in enumerate(seq):
            inf = dict(info0, data=self.meta_of(ds)["cls"])
            v0 = first["vars"][k]
            an = float(np.linalg.norm(v0))
            e = float(np.max(np.abs(vs[k] - v0))) / (1 + an) if vs[k].shape == v0.shape else float("inf")
            if not math.isfinite(e):
                e = float("inf")
            self.num("held-result:estimate-unchanged-by-later-calls", e, 1e-12, 1e-9,
                     key=K(f"{who}:{tag}:estimate-held-by-caller-changed"), info=inf)
            if not first["judged"][k] or vs[k].shape != (ti["nvar"],) or not np.all(np.isfinite(vs[k])):
                continue
            s = self.stack(ti, vs[k])
            so = gen.stacked(objs[k])
            e = float(np.max(np.abs(so - s))) / (1 + float(np.linalg.norm(s))) if so.shape == s.shape else float("inf")
            self.num("estimated_qoperation:denotes-estimated_var", e,
                     1e-12, 1e-9, key=K(f"{who}:{tag}:estimated_qoperation-differs-from-estimated_var"), info=inf)
            self.judge_point(who_point, "estimate", ti, so, eq_on, ineq_on, inf, "estimate")


def install(ctx):
    from quara.minimization_algorithm.projected_fast_iterative_shrinkage_thresholding_algorithm import \
        ProjectedFastIterativeShrinkageThresholdingAlgorithm
    from quara.minimization_algorithm.projected_gradient_descent_backtracking import ProjectedGradientDescentBacktracking
    from quara.minimization_algorithm.projected_gradient_descent_with_momentum import ProjectedGradientDescentWithMomentum
    from quara.objects.qoperation import QOperation
    from quara.protocol.qtomography.standard.linear_estimator import LinearEstimator
    from quara.protocol.qtomography.standard.loss_minimization_estimator import LossMinimizationEstimator
    from quara.protocol.qtomography.standard.projected_linear_estimator import ProjectedLinearEstimator

    hs = HookSet(ctx)
    M = Mon(ctx)
    K = M.K

    # ------------------------------------------------ nested observers (no verdicts of their own)
    def post_lin(result, snap, est, qt, seq, *a, **kw):
        if M.cur.get("ple") is not None:
            M.cur["ple"]["lin"] = [np.array(v, dtype=np.float64, copy=True) for v in result.estimated_var_sequence]

    def post_proj(result, snap, self, max_iteration=1000, is_iteration_history=False):
        c = M.cur.get("ple")
        if c is None:
            return
        if is_iteration_history:
            ev = result[1]["error_value"]
            n_it = len(ev)
            last = ev[-1] if ev else None
            hit = n_it >= max_iteration and not (last is not None and last < self.eps_proj_physical)
            c["proj"].append({"n_it": n_it, "hit": bool(hit), "order": self.mode_proj_order})
        else:
            c["proj"].append({"n_it": None, "hit": None, "order": self.mode_proj_order})

    hs.method(LinearEstimator, "calc_estimate_sequence", post=post_lin, label="LinearEstimator.calc_estimate_sequence(nested)")
    hs.method(QOperation, "calc_proj_physical", post=post_proj, label="QOperation.calc_proj_physical(nested)")

    # ------------------------------------------------ projected linear estimator
    def pre_ple(est, qt, seq, *a, **kw):
        M.cur["ple"] = {"lin": None, "proj": []}
        return None

    def exc_ple(exc, snap, est, qt, seq, *a, **kw):
        M.cur["ple"] = None

    def post_ple(result, snap, est, qt, seq, is_computation_time_required=False):
        c = M.cur.get("ple") or {"lin": None, "proj": []}
        M.cur["ple"] = None
        M.last = None
        # on the path without iteration history the only sign of a projection that ran into its iteration limit is the
        # warning it prints (read before the monitor's own projections below can print theirs)
        warned = M.proj_limit_printed()
        ti = M.info(qt)
        t, d, m, B, flag, tag = ti["t"], ti["d"], ti["m"], ti["B"], ti["flag"], ti["tag"]
        order = est.mode_proj_order
        who = "ProjectedLinearEstimator"
        vs = [np.array(v, dtype=np.float64, copy=True) for v in result.estimated_var_sequence]
        info0 = {"tomo": ti["tomo"], "tag": tag, "order": order, "kappa": ti["kappa"], "n_datasets": len(seq)}
        if not ctx.truth("projected-linear:one-estimate-per-dataset", len(vs) == len(seq),
                         key=K(f"{who}:{tag}:wrong-number-of-estimates"), info=info0):
            return
        objs = result.estimated_qoperation_sequence
        lin = c["lin"]
        projs = c["proj"]
        # the estimator must have run the physical projection with *its* order, once per dataset
        ctx.truth("projected-linear:projection-runs-with-estimator-order",
                  len(projs) == len(seq) and all(p["order"] == order for p in projs),
                  key=K(f"{who}:{tag}:projection-not-run-with-estimator-order"),
                  info=dict(info0, seen=[p["order"] for p in projs][:4]))
        template = qt.generate_empty_estimation_obj_with_setting_info()
        M.last = {"vars": vs, "judged": [False] * len(seq)}
        for k, ds in enumerate(seq):
            meta = M.meta_of(ds)
            info = dict(info0, data=meta["cls"], position="first" if k == 0 else "later")
            s = M.stack(ti, vs[k])
            so = gen.stacked(objs[k])
            an = float(np.linalg.norm(s))
            M.num("estimated_qoperation:denotes-estimated_var", float(np.max(np.abs(so - s))) / (1 + an), 1e-12, 1e-9,
                  key=K(f"{who}:{tag}:estimated_qoperation-differs-from-estimated_var"), info=info)
            hit = projs[k]["hit"] if k < len(projs) else None
            if hit is None and warned:
                hit = True
            M.last["judged"][k] = not hit
            if hit:
                ctx.count("projected-linear:projection-iteration-limit-hit")
                ctx.skip("estimate:feasible:ineq")
                ctx.skip("estimate:feasible:eq")
            else:
                M.judge_point(who + f":order={order}", "estimate", ti, so, True, True, info, "estimate")
            # (c1) precisely the physical projection of the linear estimate
            if lin is not None and k < len(lin):
                a_var = lin[k]
                a = M.stack(ti, a_var)
                a_norm = float(np.linalg.norm(a))
                try:
                    obj = template.generate_from_var(a_var)
                    obj.set_mode_proj_order(order)
                    pm = obj.calc_proj_physical()
                    pm_var = np.asarray(pm.to_var(), dtype=np.float64)
                    e = float(np.max(np.abs(pm_var - vs[k]))) / (1 + a_norm) if pm_var.shape == vs[k].shape else float("inf")
                    M.num("projected-linear:is-calc_proj_physical-of-linear-estimate", e, 1e-12, 1e-9,
                          key=K(f"{who}:{tag}:order={order}:estimate-is-not-calc_proj_physical-of-linear-estimate"), info=info)
                except Exception as ex:  # noqa: BLE001
                    ctx.violation(K(f"{who}:{tag}:monitor-projection-raises:{type(ex).__name__}"), info)
                # (c2) nearest physical point by the reference
                a_eq, a_ineq = M.viol(ti, a)
                nontriv = max(a_eq, a_ineq) > 1e-9
                meta.setdefault("lin_viol", max(a_eq, a_ineq))
                tp, tf = tol(ti["eps"], a_norm)
                if hit or not meta.get("want_nearest", True):
                    ctx.skip("projected-linear:nearest-physical-point")
                elif not nontriv:
                    M.num("projected-linear:nearest-physical-point", float(np.linalg.norm(so - a)), tp, tf,
                          key=K(f"{who}:{tag}:order={order}:moves-physical-linear-estimate"), info=info)
                else:
                    # the reference's nearest point of this dataset's linear estimate is kept with the dataset (it does not
                    # depend on the order); it serves again only for the very same point a (the projection is 1-Lipschitz)
                    memo = meta.get("near_memo")
                    if memo is not None and memo[0].shape == a.shape and float(np.max(np.abs(memo[0] - a))) <= 1e-13 * (1 + a_norm):
                        x, refname = memo[1], memo[2]
                    elif refopt.n_stack(t, d, m) <= 300:
                        x, its, conv = M.geo_of(ti).dykstra(a, tol=1e-26, max_iter=40000)
                        x, refname = (x if conv else None), "dykstra"
                    else:
                        x, status = refopt.nearest_physical_sdp(t, B, d, m, a)
                        refname = "sdp"
                    if x is None:
                        ctx.skip("projected-linear:nearest-physical-point")
                    else:
                        meta["near_memo"] = (np.array(a, copy=True), x, refname)
                        # the interior-point reference is itself accurate to ~5e-7 relative only (see C05)
                        xp, xf = (0.0, 0.0) if refname == "dykstra" else (2e-5 * (1 + a_norm), 2e-3 * (1 + a_norm))
                        M.num("projected-linear:nearest-physical-point", float(np.linalg.norm(so - x)), tp + xp, tf + xf,
                              key=K(f"{who}:{tag}:order={order}:estimate-is-not-nearest-physical-point"),
                              info=dict(info, a_norm=a_norm, reference=refname))
            else:
                ctx.skip("projected-linear:is-calc_proj_physical-of-linear-estimate")
            # (d) exact data => the object itself
            if meta.get("truth") is not None:
                kap = max(1.0, ti["kappa"])
                e = float(np.linalg.norm(so - meta["truth"]))
                M.num("exact-data:projected-linear-recovers", e, 1e-9 * max(1.0, kap * kap / 100.0), 1e-6 * max(1.0, kap * kap / 100.0),
                      key=K(f"{who}:{tag}:order={order}:exact-data-not-recovered:{meta['kind']}"), info=info)

    hs.method(ProjectedLinearEstimator, "calc_estimate_sequence", pre=pre_ple, post=post_ple, on_exc=exc_ple)

    # ------------------------------------------------ the three algorithms
    def post_opt(result, snap, algo, loss_function, loss_function_option, algorithm_option, on_iteration_history=False):
        qt = M.cur.get("qt")
        if qt is None:
            qt = getattr(algo, "_qt", None)
        if qt is None:
            return
        ti = M.info(qt)
        an, ln = algo_name(algo), loss_name(loss_function)
        eq_on, ineq_on = bool(algorithm_option.on_algo_eq_constraint), bool(algorithm_option.on_algo_ineq_constraint)
        who = f"optimize:{an}:{ln}"
        tag = ti["tag"]
        info0 = {"tomo": ti["tomo"], "tag": tag, "algo": an, "loss": ln, "opts": opts_class(eq_on, ineq_on),
                 "order": algorithm_option.mode_proj_order, "data": M.cur.get("data_cls"), "k": getattr(result, "k", None)}
        if M.proj_limit_printed():
            ctx.count("optimize:inner-projection-iteration-limit-hit")
            return
        val = np.asarray(result.value, dtype=np.float64)
        if val.shape != (ti["nvar"],):
            ctx.truth("optimize:value-shape", False, key=K(f"{who}:{tag}:value-has-wrong-shape"), info=dict(info0, shape=list(val.shape)))
            return
        r0 = M.judge_point(who, "value", ti, M.stack(ti, val), eq_on, ineq_on, info0, "estimate")
        if r0 is not None and eq_on and ineq_on and not ti["flag"] and an in ("pgdm", "fista") and algorithm_option.mode_proj_order == "ineq_eq":
            # recorded, not judged (the statement asks for physicality only): with the order "ineq_eq" the last Dykstra
            # step is the closed-form equality projection, so a projection output has an equality error at round-off
            # level; an error at the sqrt(eps_proj_physical) level tells that the option did not reach the projection
            ctx.count("recorded:algorithm-option-mode_proj_order=ineq_eq:" + ("effective" if r0[0] <= 1e-11 else "without-effect"))
        if not on_iteration_history or result.x is None:
            return
        xs = result.x
        k = int(result.k)
        ctx.truth("iterates:history-length", len(xs) == k + 1 and len(result.fx) == k + 1 and len(result.error_values) == k,
                  key=K(f"{who}:{tag}:history-length-inconsistent-with-k"), info=dict(info0, n_x=len(xs)))
        ctx.count("optimize:iterations", k)
        var_start = algorithm_option.var_start
        if var_start is None:
            o = refopt.var_from_stack(ti["t"], ti["d"], ti["m"], ref_origin(ti["t"], ti["d"], ti["m"]), ti["flag"])
            x0 = np.asarray(xs[0], dtype=np.float64)
            e = float(np.max(np.abs(x0 - o))) if x0.shape == o.shape else float("inf")
            M.num("iterates:start=origin", e, 1e-12, 1e-9, key=K(f"{who}:{tag}:default-start-is-not-the-origin-object"), info=info0)
        elif not any(v is var_start for v in M.phys_starts):
            ctx.skip("iterates:feasible:eq")  # start point not known to be physical: iterates are not promised feasible
            return
        # ---- (b) every recorded iterate is feasible
        S = np.array([M.stack(ti, x) for x in xs])
        F = M.fast_of(ti)
        sel = set(range(min(3, len(S)))) | set(range(max(0, len(S) - 3), len(S)))
        sel |= set(int(i) for i in np.linspace(0, len(S) - 1, num=min(len(S), 6)))
        f_eq = np.array([F.eq(s) for s in S]) if (eq_on and not ti["flag"]) else np.zeros(len(S))
        f_in = np.array([F.ineq(s) for s in S]) if ineq_on else np.zeros(len(S))
        if not (np.all(np.isfinite(f_eq)) and np.all(np.isfinite(f_in))):
            ctx.truth("iterates:finite", False, key=K(f"{who}:{tag}:iterate-not-finite"), info=info0)
            return
        sel |= {int(np.argmax(f_eq)), int(np.argmax(f_in))}
        for i in sorted(sel):
            pos = "start" if i == 0 else "last" if i == len(S) - 1 else "inner"
            r = M.judge_point(who, "iterate", ti, S[i], eq_on, ineq_on, dict(info0, iterate=pos, n_iterates=len(S)), "iterates")
            if r is not None and ineq_on:
                # the scan measure must agree with the reference on the judged iterates (else the scan is blind)
                if abs(f_in[i] - r[1]) > 1e-9 * (1 + float(np.linalg.norm(S[i]))):
                    ctx.mark_inconclusive(f"fast scan disagrees with refopt.violations: {f_in[i]} vs {r[1]} ({ti['t']})")

    for cls in (ProjectedGradientDescentBacktracking, ProjectedGradientDescentWithMomentum,
                ProjectedFastIterativeShrinkageThresholdingAlgorithm):
        hs.method(cls, "optimize", post=post_opt)

    # ------------------------------------------------ loss minimisation estimator
    def pre_lme(est, qt, seq, *a, **kw):
        M.cur["qt"] = qt
        M.cur["data_cls"] = M.meta_of(seq[0])["cls"] if len(seq) else None
        return None

    def exc_lme(exc, snap, est, qt, seq, *a, **kw):
        M.cur["qt"] = None

    def post_lme(result, snap, est, qt, seq, loss, loss_option, algo, algo_option,
                 is_computation_time_required=False, is_detailed_results_required=False):
        M.cur["qt"] = None
        M.last = None
        ti = M.info(qt)
        tag = ti["tag"]
        an, ln = algo_name(algo), loss_name(loss)
        eq_on, ineq_on = bool(algo_option.on_algo_eq_constraint), bool(algo_option.on_algo_ineq_constraint)
        oc = opts_class(eq_on, ineq_on)
        who = f"LossMinimizationEstimator:{an}:{ln}"
        info0 = {"tomo": ti["tomo"], "tag": tag, "algo": an, "loss": ln, "opts": oc, "order": algo_option.mode_proj_order,
                 "weights": getattr(loss_option, "mode_weight", None), "kappa": ti["kappa"],
                 "max_iteration_optimization": algo_option.max_iteration_optimization}
        vs = [np.array(v, dtype=np.float64, copy=True) for v in result.estimated_var_sequence]
        if not ctx.truth("loss-minimisation:one-estimate-per-dataset", len(vs) == len(seq),
                         key=K(f"{who}:{tag}:wrong-number-of-estimates"), info=info0):
            return
        if M.proj_limit_printed():
            ctx.count("loss-minimisation:inner-projection-iteration-limit-hit")
            return
        objs = result.estimated_qoperation_sequence
        drs = result.detailed_results
        M.last = {"vars": vs, "judged": [True] * len(seq)}
        for k, ds in enumerate(seq):
            meta = M.meta_of(ds)
            info = dict(info0, data=meta["cls"], position="first" if k == 0 else "later", n_datasets=len(seq))
            if vs[k].shape != (ti["nvar"],) or not np.all(np.isfinite(vs[k])):
                M.last["judged"][k] = False
                ctx.truth("estimate:well-formed", False, key=K(f"{who}:{tag}:opts={oc}:estimate-not-finite-or-wrong-size"), info=info)
                continue
            s = M.stack(ti, vs[k])
            so = gen.stacked(objs[k])
            M.num("estimated_qoperation:denotes-estimated_var", float(np.max(np.abs(so - s))) / (1 + float(np.linalg.norm(s))),
                  1e-12, 1e-9, key=K(f"{who}:{tag}:estimated_qoperation-differs-from-estimated_var"), info=info)
            M.judge_point(who, "estimate", ti, so, eq_on, ineq_on, info, "estimate")
            dr = drs[k] if drs is not None and k < len(drs) else None
            if dr is not None:
                same = np.asarray(dr.value).shape == vs[k].shape and np.array_equal(np.asarray(dr.value, dtype=np.float64), vs[k])
                ctx.truth("loss-minimisation:estimate-is-algorithm-value", same,
                          key=K(f"{who}:{tag}:estimated_var-is-not-the-value-returned-by-optimize"), info=info)
            # (d) exact data => backtracking returns the object, when it stopped by its criterion
            if meta.get("truth") is None or an != "pgdb" or not (eq_on and ineq_on):
                continue
            if dr is None or dr.error_values is None:
                ctx.skip("exact-data:backtracking-recovers")
                continue
            h = int(algo_option.num_history_stopping_criterion_gradient_descent)
            stopped = float(np.sum(dr.error_values[-h:])) <= algo_option.eps
            if not stopped and int(dr.k) >= int(algo_option.max_iteration_optimization):
                ctx.count("backtracking:exact-data:iteration-limit-hit(grey)")
                ctx.skip("exact-data:backtracking-recovers")
                continue
            ctx.count("backtracking:exact-data:terminated-by-criterion" if stopped else "backtracking:exact-data:ended-without-criterion-or-limit")
            if algo_option.var_start is not None and not any(v is algo_option.var_start for v in M.phys_starts):
                ctx.skip("exact-data:backtracking-recovers")
                continue
            tp, tf = tol_recover(ti["smin"])
            e = float(np.linalg.norm(so - meta["truth"]))
            fam = "squared-error" if ln in ("se", "fse") else "relative-entropy"
            fx_end = float(dr.fx[-1]) if dr.fx is not None else float("nan")
            # mechanism class of a miss.  The loss of the true object is 0 and both loss families are non-negative on
            # normalised distributions: a negative final loss tells that the model distributions were not normalised
            # (equality constraint met only to sqrt(eps_proj_physical)); otherwise a last step length < 2^-10 tells
            # that the Armijo line search collapsed (the criterion fired on a vanishing step, not on a small gradient)
            last_alpha = float(dr.alpha[-1]) if dr.alpha else float("nan")
            mech = ("ended-without-criterion-or-limit" if not stopped else "final-loss-negative" if fx_end < -1e-12
                    else "line-search-collapsed" if last_alpha < 2.0 ** -10 else "small-decrease-with-regular-step")
            pe = "T" if ti["flag"] else "F"
            ctx.count(f"recovery-distance:{fam}:para_eq={pe}:{meta['kind']}:<=1e{int(math.ceil(math.log10(max(e, 1e-16))))}")
            M.num("exact-data:backtracking-recovers", e, tp, tf,
                  # mechanism key: loss family + diagnosed mechanism (flag and kind of truth are in the witness info)
                  # (the history tag stands after the loss family: the key is long and replay files are named by its first
                  # 120 characters; the relative-entropy keys name known findings and never carry a tag)
                  key=f"LossMinimizationEstimator:pgdb:{fam}{M.hist if fam == 'squared-error' else ''}:exact-data-not-recovered-at-criterion-stop:{mech}",
                  info=dict(info, para_eq=pe, truth_kind=meta['kind'], k=int(dr.k), fx_end=fx_end, smin=ti["smin"], last_alpha=last_alpha,
                            last_errors=[float(x) for x in dr.error_values[-3:]]))
            if fam == "squared-error" and getattr(loss_option, "mode_weight", None) == "identity":
                # loss = |A (v - v_true)|^2 <= smax^2 dist^2 ; the truth has loss 0
                sc = max(1.0, ti["smax"] ** 2)
                M.num("exact-data:backtracking-loss-at-estimate", max(fx_end, 0.0) / sc, 1e-10, 1e-8,
                      key=f"{who}:{tag}{M.hist}:exact-data-loss-not-minimal-at-criterion-stop:{meta['kind']}", info=dict(info, fx_end=fx_end))

    hs.method(LossMinimizationEstimator, "calc_estimate_sequence", pre=pre_lme, post=post_lme, on_exc=exc_lme)
    return hs, M


# ---------------------------------------------------------------- workload


def mub_unitaries(d):
    """unitaries whose columns form mutually unbiased bases (d = 2, 3) / the 9 local Pauli product bases (d = 4)"""
    if d == 2:
        r = 1 / np.sqrt(2)
        return [np.eye(2, dtype=complex), r * np.array([[1, 1], [1, -1]], dtype=complex), r * np.array([[1, 1], [1j, -1j]], dtype=complex)]
    if d == 3:
        w = np.exp(2j * np.pi / 3)
        out = [np.eye(3, dtype=complex)]
        for k in range(3):
            out.append(np.array([[w ** ((k * x * x + j * x) % 3) for j in range(3)] for x in range(3)], dtype=complex) / np.sqrt(3))
        return out
    if d == 4:
        one = mub_unitaries(2)
        return [np.kron(a, b) for a in one for b in one]
    raise ValueError(d)


def draw_testers(d, rng):
    """(state matrices, list of POVMs as lists of matrices, description); every POVM has d outcomes"""
    us = mub_unitaries(d)
    g = ref.rand_unitary(d, rng) if rng.random() < 0.8 else np.eye(d, dtype=complex)
    lam_p = float(rng.uniform(0.0, 0.3)) if rng.random() < 0.5 else 0.0
    lam_s = float(rng.uniform(0.0, 0.3)) if rng.random() < 0.5 else 0.0
    eye = np.eye(d) / d
    vecs = [(g @ u)[:, j] for u in us for j in range(d)]
    povms = [[(1 - lam_p) * np.outer((g @ u)[:, j], (g @ u)[:, j].conj()) + lam_p * eye for j in range(d)] for u in us]
    states = [(1 - lam_s) * np.outer(v, v.conj()) + lam_s * eye for v in vecs]
    full = list(states)
    if d <= 3 and rng.random() < 0.4:  # a smaller (still over-complete) state set
        keep = sorted(rng.choice(len(states), size=d * d + 1, replace=False).tolist())
        states = [states[i] for i in keep]
    return states, povms, {"rotated": not np.allclose(g, np.eye(d)), "depol_povm": lam_p, "depol_state": lam_s, "n_states": len(states)}, full


def build_qt(tomo, states, povms, m_true, flag, eps):
    from quara.protocol.qtomography.standard.standard_povmt import StandardPovmt
    from quara.protocol.qtomography.standard.standard_qmpt import StandardQmpt
    from quara.protocol.qtomography.standard.standard_qpt import StandardQpt
    from quara.protocol.qtomography.standard.standard_qst import StandardQst

    kw = dict(on_para_eq_constraint=flag, eps_proj_physical=eps)
    if tomo == "qst":
        return StandardQst(povms, **kw)
    if tomo == "povmt":
        return StandardPovmt(states, m_true, **kw)
    if tomo == "qpt":
        return StandardQpt(states, povms, **kw)
    return StandardQmpt(states, povms, m_true, **kw)


def draw_truth(t, B, d, m, rng, kind):
    """stacked vector of a physical object: 'interior' (mixture with the origin) or 'boundary'"""
    if kind == "boundary":
        return refopt.random_physical(t, B, d, m, rng, rank=1)
    s = refopt.random_physical(t, B, d, m, rng)
    mu = float(rng.uniform(0.3, 0.7))
    return (1 - mu) * s + mu * ref_origin(t, d, m)


def born_exact(tomo, schedules, st_mats, pv_mats, t, B, d, m, s_true):
    ops = refopt.ops_from_stack(t, B, d, m, s_true)
    out = []
    for sch in schedules:
        idx = {k: i for k, i in sch}
        if tomo == "qst":
            out.append(ref.born(pv_mats[idx["povm"]], ops[0]))
        elif tomo == "povmt":
            out.append(ref.born(ops, st_mats[idx["state"]]))
        elif tomo == "qpt":
            sig = ref.map_of_choi(ops[0], d)(st_mats[idx["state"]])
            out.append(ref.born(pv_mats[idx["povm"]], sig))
        else:
            ps = []
            for C in ops:  # mprocess outcome first, tester outcome second
                sig = ref.map_of_choi(C, d)(st_mats[idx["state"]])
                ps += list(ref.born(pv_mats[idx["povm"]], sig))
            out.append(np.array(ps))
    return [np.asarray(p, dtype=np.float64) for p in out]


def make_loss(ln, qt, weights_mode, rng, nrow, n_sched, loss=None):
    """(loss object, option); loss: an existing (re-used) loss object of the class to be handed on instead of a new one"""
    from quara.loss_function.standard_qtomography_based_weighted_probability_based_squared_error import (
        StandardQTomographyBasedWeightedProbabilityBasedSquaredError as FSE,
        StandardQTomographyBasedWeightedProbabilityBasedSquaredErrorOption as FSEO)
    from quara.loss_function.standard_qtomography_based_weighted_relative_entropy import (
        StandardQTomographyBasedWeightedRelativeEntropy as FRE, StandardQTomographyBasedWeightedRelativeEntropyOption as FREO)
    from quara.loss_function.weighted_probability_based_squared_error import (
        WeightedProbabilityBasedSquaredError as SE, WeightedProbabilityBasedSquaredErrorOption as SEO)
    from quara.loss_function.weighted_relative_entropy import WeightedRelativeEntropy as RE, WeightedRelativeEntropyOption as REO

    L, LO = {"se": (SE, SEO), "fse": (FSE, FSEO), "re": (RE, REO), "fre": (FRE, FREO)}[ln]
    if weights_mode == "custom":
        if ln in ("se", "fse"):
            ws = []
            for _ in range(n_sched):
                a = rng.standard_normal((nrow, nrow))
                w = a @ a.T / nrow + 0.2 * np.eye(nrow)
                ws.append(np.ascontiguousarray((w + w.T) / 2, dtype=np.float64))
        else:
            ws = [float(x) for x in rng.uniform(0.2, 3.0, size=n_sched)]
        opt = LO(weights=ws)
    else:
        opt = LO(weights_mode)
    return (loss if loss is not None else L(qt.num_variables)), opt


def make_algo(an, algo=None, **kw):
    """(algorithm object, option); algo: an existing (re-used) algorithm object to be handed on instead of a new one"""
    from quara.minimization_algorithm.projected_fast_iterative_shrinkage_thresholding_algorithm import (
        ProjectedFastIterativeShrinkageThresholdingAlgorithm as FISTA, ProjectedFastIterativeShrinkageThresholdingAlgorithmOption as FISTAO)
    from quara.minimization_algorithm.projected_gradient_descent_backtracking import (
        ProjectedGradientDescentBacktracking as PGDB, ProjectedGradientDescentBacktrackingOption as PGDBO)
    from quara.minimization_algorithm.projected_gradient_descent_with_momentum import (
        ProjectedGradientDescentWithMomentum as PGDM, ProjectedGradientDescentWithMomentumOption as PGDMO)

    A, AO = {"pgdb": (PGDB, PGDBO), "pgdm": (PGDM, PGDMO), "fista": (FISTA, FISTAO)}[an]
    return (algo if algo is not None else A()), AO(**kw)


# iteration caps of the runs that are judged for feasibility only (every iterate is promised feasible, whatever the cap)
CAP = {("S1", "qst"): 1000, ("S1", "povmt"): 120, ("S1", "qpt"): 80, ("S1", "qmpt"): 25, ("S3", "qst"): 200, ("S3", "povmt"): 50,
       ("S3", "qpt"): 12, ("S3", "qmpt"): 8, ("S2", "qst"): 60}
CAP_REC = {("S3", "qpt"): 2500, ("S3", "qmpt"): 1500}


def run_shard(ctx):
    from quara.protocol.qtomography.standard.loss_minimization_estimator import LossMinimizationEstimator
    from quara.protocol.qtomography.standard.projected_linear_estimator import ProjectedLinearEstimator

    P = ctx.params
    tomo, shape, flag = P["tomo"], P["shape"], bool(P["flag"])
    t = TOMO_TYPE[tomo]
    c_sys = gen.make_csys(gen.SHAPES[shape])
    B = gen.basis_of(c_sys)
    d = c_sys.dim
    big = shape != "S1" and tomo in ("qpt", "qmpt")
    cap = CAP[(shape, tomo)]
    hs, M = install(ctx)

    # self-test of the scan geometry against the reference (monitor bug => inconclusive, never a verdict)
    rng0 = np.random.default_rng(12345)
    for tt, mm in (("State", 0), ("Povm", 2), ("Gate", 0), ("MProcess", 2)):
        if big and tt != t:
            continue
        s = refopt.random_physical(tt, B, d, mm, rng0) + 0.3 * rng0.standard_normal(refopt.n_stack(tt, d, mm))
        e = abs(Fast(tt, B, d, mm).ineq(s) - refopt.violations(tt, B, d, mm, s)[1])
        if e > 1e-10:
            ctx.mark_inconclusive(f"fast scan geometry disagrees with refopt for {tt}: {e}")
        o = ref_origin(tt, d, mm)
        if max(refopt.violations(tt, B, d, mm, o)) > 1e-12:
            ctx.mark_inconclusive(f"reference origin of {tt} is not physical")
    us = mub_unitaries(d)
    if d <= 3:
        for i in range(len(us)):
            for j in range(i + 1, len(us)):
                if np.max(np.abs(np.abs(us[i].conj().T @ us[j]) - 1 / np.sqrt(d))) > 1e-12:
                    ctx.mark_inconclusive("tester bases are not mutually unbiased")

    def run_est(fn, *a, **kw):
        M.buf = io.StringIO()
        try:
            with contextlib.redirect_stdout(M.buf):
                return ctx.attempt(fn, *a, **kw)
        finally:
            M.buf = None

    shared = {}  # estimator / loss / algorithm objects kept for the whole shard (history step "re-use", two cases of three)

    try:
        for i in ctx.cases(P["n"], start=P.get("start", 0)):
            rng = ctx.rng()      # the base workload (identical to the one of the versions without history steps)
            hr = ctx.rng(1)      # everything the history steps draw
            M.data.clear()
            M.phys_starts = []
            M.hist = ""
            M.last = None
            # objects of this kind serve every estimate of the case; on two cases of three they are the shard's
            pool = shared if i % 3 != 0 else {}

            def obj(name, factory):
                """(pooled object, whether it has served an estimate before)"""
                if name in pool:
                    ctx.count("history:re-used:" + name.split(":")[0])
                    return pool[name], True
                pool[name] = factory()
                return pool[name], False

            via_copy = bool(hr.random() < 0.5)

            def prov(objs):
                """provenance: testers reached through copy()"""
                return [o.copy() for o in objs] if via_copy else objs

            m = 0
            if t == "Povm":
                m = int(rng.integers(2, 5)) if shape == "S1" else int(rng.integers(2, 4))
            elif t == "MProcess":
                m = int(rng.integers(2, 4)) if shape == "S1" else 2
            eps = None if rng.random() < 0.75 else 1e-10
            st_m, pv_m, tdesc, st_full = draw_testers(d, rng)
            tdesc["via_copy"] = via_copy
            ok, qt = ctx.attempt(lambda: build_qt(tomo, prov([gen.make_state(c_sys, r) for r in st_m]) if tomo != "qst" else [],
                                                  prov([gen.make_povm(c_sys, ms) for ms in pv_m]) if tomo != "povmt" else [], m, flag, eps))
            if ok and tomo != "qst" and tdesc["n_states"] < d * (d + 1):
                with hs.paused():
                    sv = np.linalg.svd(np.asarray(qt.calc_matA(), dtype=np.float64), compute_uv=False)
                if sv[-1] < 1e-2 * sv[0]:  # the reduced state set is not (well) informationally complete: use the full one
                    ctx.count("reduced-state-set-not-IC:full-set-used")
                    st_m = st_full
                    tdesc["n_states"] = len(st_m)
                    ok, qt = ctx.attempt(lambda: build_qt(tomo, prov([gen.make_state(c_sys, r) for r in st_m]),
                                                          prov([gen.make_povm(c_sys, ms) for ms in pv_m]) if tomo != "povmt" else [], m, flag, eps))
            if not ok:
                ctx.violation(f"{tomo}.ctor:" + ctx.exc_key(qt), {"testers": tdesc})
                continue
            with hs.paused():
                ti = M.info(qt)
                A = np.asarray(qt.calc_matA(), dtype=np.float64)
                b = np.asarray(qt.calc_vecB(), dtype=np.float64)
                scheds = [list(map(tuple, s)) for s in qt.experiment.schedules]
            n_sched = len(scheds)
            nrow = A.shape[0] // n_sched
            # ---------------------------------------------------------------- datasets
            true_kind = ["boundary", "interior"][i % 2] if rng.random() < 0.8 else str(rng.choice(["boundary", "interior"]))
            s_true = draw_truth(t, B, d, m, rng, true_kind)
            ps = born_exact(tomo, scheds, st_m, pv_m, t, B, d, m, s_true)
            v_true = refopt.var_from_stack(t, d, m, s_true, flag)
            fm_err = float(np.max(np.abs(np.hstack(ps) - (A @ v_true + b)))) if sum(p.size for p in ps) == A.shape[0] else float("inf")
            model_ok = fm_err <= 1e-9
            if not model_ok:
                ctx.count("forward-model-differs-from-born-rule(recovery-not-judged)")
            datasets = []

            def add(ds, cls, truth=None, want_nearest=True, kind=None, listed=True):
                M.data[id(ds)] = (ds, {"cls": cls, "truth": truth, "kind": kind or true_kind, "want_nearest": want_nearest})
                if listed:
                    datasets.append((cls, ds))
                return ds

            def few(N, ps_=None, g=None):
                g = rng if g is None else g
                out = []
                for p in (ps if ps_ is None else ps_):
                    q = np.clip(p, 0.0, None)
                    q = q / q.sum()
                    out.append((N, g.multinomial(N, q) / N))
                return out

            ds_exact = add([(int(rng.integers(10, 10**5)), p.copy()) for p in ps], "exact:" + true_kind, truth=s_true if model_ok else None)
            ds_few = {N: add(few(N), f"few-shot:N={N}", want_nearest=(not big) or N == 1) for N in (1, 2, 5, 10)}
            alpha = float(rng.choice([0.2, 1.0]))
            ds_simplex = add([(int(rng.integers(1, 100)), rng.dirichlet(alpha * np.ones(nrow))) for _ in range(n_sched)], "simplex",
                             want_nearest=not big)
            same_idx = int(rng.integers(0, nrow))
            pick = (lambda: same_idx) if rng.random() < 0.5 else (lambda: int(rng.integers(0, nrow)))
            ds_onehot = add([(int(rng.integers(1, 100)), np.eye(nrow)[pick()]) for _ in range(n_sched)], "deterministic", want_nearest=True)
            far = [ds_few[1], ds_few[2], ds_simplex, ds_onehot]
            noisy = far + [ds_few[5], ds_few[10]]
            if i < 2:
                ctx.sample({"tomo": ti["tomo"], "shape": shape, "para_eq": flag, "m": m, "testers": tdesc, "cond_A": ti["kappa"],
                            "eps_proj_physical": ti["eps"], "true_kind": true_kind,
                            "datasets": [c for c, _ in datasets], "few_shot_N=1": np.hstack([q for _, q in ds_few[1]])})

            def register(cfg, ds):
                meta = M.meta_of(ds)
                lv = meta.get("lin_viol")
                if (lv is not None and lv > 1e-9) or (meta.get("truth") is not None and meta.get("kind") == "boundary"):
                    ctx.nontrivial(t, shape, flag, m, cfg, meta["cls"], np.hstack([np.ravel(q) for _, q in ds]))

            # ------------------------------------------------------- history material (all from the stream hr)
            other_kind = "interior" if true_kind == "boundary" else "boundary"
            # a second exact dataset of the case's own tomography (truth of the other kind)
            s_true2 = draw_truth(t, B, d, m, hr, other_kind)
            ps2 = born_exact(tomo, scheds, st_m, pv_m, t, B, d, m, s_true2)
            v_true2 = refopt.var_from_stack(t, d, m, s_true2, flag)
            ok2_ = sum(p.size for p in ps2) == A.shape[0] and float(np.max(np.abs(np.hstack(ps2) - (A @ v_true2 + b)))) <= 1e-9
            ds_exact2 = add([(int(hr.integers(10, 10**5)), p.copy()) for p in ps2], "exact:" + other_kind, truth=s_true2 if ok2_ else None,
                            want_nearest=False, kind=other_kind, listed=False)

            # the sibling: same type, shape, flag; other testers (full set), the other projection threshold; for POVM /
            # measurement-process tomography in half of the cases another number of outcomes (then the estimator and
            # algorithm objects are shared with it, the loss objects - one per number of variables - are not)
            def build_sibling():
                stB, pvB, tdB, stB_full = draw_testers(d, hr)
                stB = stB_full
                mB = m
                m_range = {("Povm", "S1"): (2, 3, 4), ("Povm", "S3"): (2, 3), ("MProcess", "S1"): (2, 3)}.get((t, "S1" if shape == "S1" else "S3"), ())
                if len(m_range) > 1 and hr.random() < 0.5:
                    mB = int(hr.choice([x for x in m_range if x != m]))
                    ctx.count("history:sibling-with-other-outcome-number")
                qtB = build_qt(tomo, prov([gen.make_state(c_sys, r) for r in stB]) if tomo != "qst" else [],
                               prov([gen.make_povm(c_sys, ms) for ms in pvB]) if tomo != "povmt" else [], mB, flag,
                               1e-10 if eps is None else None)
                with hs.paused():
                    M.info(qtB)
                    AB = np.asarray(qtB.calc_matA(), dtype=np.float64)
                    bB = np.asarray(qtB.calc_vecB(), dtype=np.float64)
                    schB = [list(map(tuple, s)) for s in qtB.experiment.schedules]
                sB = draw_truth(t, B, d, mB, hr, other_kind)
                psB = born_exact(tomo, schB, stB, pvB, t, B, d, mB, sB)
                vB = refopt.var_from_stack(t, d, mB, sB, flag)
                okB = sum(p.size for p in psB) == AB.shape[0] and float(np.max(np.abs(np.hstack(psB) - (AB @ vB + bB)))) <= 1e-9
                exB = add([(int(hr.integers(10, 10**5)), p.copy()) for p in psB], "sibling:exact:" + other_kind, truth=sB if okB else None,
                          want_nearest=False, kind=other_kind, listed=False)
                nB = int(hr.choice([1, 2]))
                fewB = add(few(nB, psB, hr), f"sibling:few-shot:N={nB}", want_nearest=False, kind=other_kind, listed=False)
                return {"qt": qtB, "exact": exB, "few": fewB}

            okS, sib = ctx.attempt(build_sibling)
            if not okS:
                ctx.violation(f"{tomo}.ctor:" + ctx.exc_key(sib), {"what": "sibling tomography"})
                sib = None

            def hist_of(*used):
                return ":re-used-object" if any(used) else ""

            held = []  # (who, who of the point keys, result, first-read copies, tomography, datasets, info) for the re-read step

            # ------------------------------------------------------- projected linear estimator
            seq = [datasets[j][1] for j in rng.permutation(len(datasets))]
            ples = {}
            for order in ("eq_ineq", "ineq_eq"):
                ple, used = obj(f"ple:{order}", lambda: ProjectedLinearEstimator(mode_proj_order=order))
                ples[order] = ple
                M.hist = hist_of(used)
                ok, res = run_est(ple.calc_estimate_sequence, qt, seq, is_computation_time_required=True)
                if not ok:
                    ctx.violation(M.K(f"ProjectedLinearEstimator:{ti['tag']}:" + ctx.exc_key(res)), {"order": order})
                    continue
                if M.last is not None:
                    held.append(("ProjectedLinearEstimator", f"ProjectedLinearEstimator:order={order}", res, M.last, qt, seq, {"order": order}))
                for ds in seq:
                    register(f"ple:{order}", ds)
                # the path without timing / history gives the same numbers
                j = int(rng.integers(0, len(seq)))
                ok2, r1 = run_est(ple.calc_estimate, qt, seq[j])
                if ok2:
                    with hs.paused():
                        a1 = np.asarray(r1.estimated_var, dtype=np.float64)
                        a0 = np.asarray(res.estimated_var_sequence[j], dtype=np.float64)
                    e = float(np.max(np.abs(a1 - a0))) if a1.shape == a0.shape else float("inf")
                    M.num("projected-linear:single=sequence", e, 1e-12, 1e-9,
                          key=M.K(f"ProjectedLinearEstimator:{ti['tag']}:calc_estimate-differs-from-calc_estimate_sequence"), info={"order": order})
                else:
                    ctx.violation(M.K(f"ProjectedLinearEstimator:{ti['tag']}:" + ctx.exc_key(r1)), {"order": order, "call": "calc_estimate"})

            # history: the same estimator objects serve the sibling tomography ...
            M.hist = ":re-used-object"
            if sib is not None:
                for order, ple in ples.items():
                    sq = [sib["few"], sib["exact"]] if hr.random() < 0.5 else [sib["exact"], sib["few"]]
                    ok, res = run_est(ple.calc_estimate_sequence, sib["qt"], sq, is_computation_time_required=bool(hr.random() < 0.5))
                    ctx.count("history:projected-linear:sibling-tomography")
                    if not ok:
                        ctx.violation(M.K(f"ProjectedLinearEstimator:{ti['tag']}:" + ctx.exc_key(res)), {"order": order, "call": "sibling tomography"})
                    else:
                        for ds in sq:
                            register(f"ple:{order}:sibling", ds)
                    ok, res = run_est(ple.calc_estimate, sib["qt"], sib["exact"])
                    if not ok:
                        ctx.violation(M.K(f"ProjectedLinearEstimator:{ti['tag']}:" + ctx.exc_key(res)), {"order": order, "call": "sibling tomography, single"})
            # ... bystander calls on the case's tomography object (public queries / the tomography's own sampler) ...
            ds_lib = None
            with hs.paused():
                okT, true_obj = ctx.attempt(lambda: qt.generate_empty_estimation_obj_with_setting_info().generate_from_var(np.array(v_true, dtype=np.float64)))
            if okT:
                n_lib = int(hr.choice([1, 3, 20]))
                ctx.attempt(qt.reset_seed, int(hr.integers(0, 2**31 - 1)))
                ctx.attempt(qt.calc_prob_dists, true_obj)
                okL, got = ctx.attempt(qt.generate_empi_dists, true_obj, n_lib, int(hr.integers(0, 2**31 - 1)))
                good = okL and isinstance(got, list) and len(got) == n_sched and all(
                    np.asarray(q).shape == (nrow,) and np.all(np.isfinite(q)) and np.all(np.asarray(q) >= 0)
                    and abs(float(np.sum(q)) - 1.0) <= 1e-9 for _, q in got)
                if good:
                    ds_lib = add(got, f"library-sampled:N={n_lib}", want_nearest=not big, listed=False)
                ctx.count("history:bystander:generate_empi_dists:" + ("used" if good else "not-usable"))
            # ... and are then asked again about the case's own tomography through the default path (no timing / history):
            # as many datasets as in the first call, in another order (the exact data at another position, one dataset
            # replaced by the library-sampled one), then single calls with an exact dataset the estimator has never seen and
            # with the case's exact data - a cache keyed by too little (tomography, number of datasets) would answer for other data
            M.hist = ":second-call"
            for order, ple in ples.items():
                sq = list(seq)
                if ds_lib is not None:
                    cand = [j for j, ds in enumerate(sq) if ds is not ds_exact]
                    sq[cand[int(hr.integers(0, len(cand)))]] = ds_lib
                k0 = next(j for j, ds in enumerate(seq) if ds is ds_exact)
                sq = [sq[j] for j in hr.permutation(len(sq))]
                k1 = next(j for j, ds in enumerate(sq) if ds is ds_exact)
                if k1 == k0:
                    k2 = (k0 + 1 + int(hr.integers(0, len(sq) - 1))) % len(sq)
                    sq[k0], sq[k2] = sq[k2], sq[k0]
                ok, res = run_est(ple.calc_estimate_sequence, qt, sq)
                ctx.count("history:projected-linear:second-call")
                if not ok:
                    ctx.violation(M.K(f"ProjectedLinearEstimator:{ti['tag']}:" + ctx.exc_key(res)), {"order": order, "call": "second call"})
                else:
                    for ds in sq:
                        register(f"ple:{order}:second-call", ds)
                # two single calls in a row with different exact data (a memo of the last call must not answer the next)
                for ds in (ds_exact2, ds_exact):
                    ok, res = run_est(ple.calc_estimate, qt, ds)
                    if not ok:
                        ctx.violation(M.K(f"ProjectedLinearEstimator:{ti['tag']}:" + ctx.exc_key(res)), {"order": order, "call": "second single call"})
                    else:
                        register(f"ple:{order}:second-call", ds)
            M.hist = ""

            # ------------------------------------------------------- loss minimisation
            lme, _ = obj("lme", LossMinimizationEstimator)
            losses = ["fse", "fre"] if (big or (shape != "S1" and i % 2 == 1)) else list(LOSSES)
            runs = []  # (algo, loss, weights, dataset, option kwargs, purpose)

            def rorder():
                return str(rng.choice(["eq_ineq", "ineq_eq"]))

            # core: every algorithm with one squared-error and one relative-entropy loss; generic / fast alternate with the
            # case and the algorithm, so that the 12 combinations are covered over two consecutive cases
            for ia, an in enumerate(ALGOS):
                g = (i + ia) % 2
                pair = ["fse", "fre"] if len(losses) == 2 else [["se", "fse"][g], ["fre", "re"][g]]
                for ln in pair:
                    ds = far[int(rng.integers(0, len(far)))] if rng.random() < 0.7 else noisy[int(rng.integers(0, len(noisy)))]
                    runs.append((an, ln, "identity", ds, dict(max_iteration_optimization=cap, mode_proj_order=rorder()), "core"))
            # (d) recovery by backtracking: one squared-error and one relative-entropy run (generic / fast alternate)
            if P.get("lite"):
                ctx.count("recovery-not-run:lite-shard")
            elif ti["kappa"] <= KAPPA_REC:
                gsel = (i + int(rng.integers(0, 2))) % 2
                rec_losses = ["fse", "fre"] if (big or shape != "S1") else [["se", "fse"][gsel], ["re", "fre"][1 - gsel]]
                for ln in rec_losses:
                    runs.append(("pgdb", ln, "identity", ds_exact,
                                 dict(max_iteration_optimization=CAP_REC.get((shape, tomo), MAX_IT_RECOVERY), mode_proj_order=rorder()), "recovery"))
            else:
                ctx.count("recovery-not-run:cond(A)>%g" % KAPPA_REC)
            # exact data through the other two algorithms (feasibility only)
            runs.append((str(rng.choice(["pgdm", "fista"])), str(rng.choice(losses)), "identity", ds_exact,
                         dict(max_iteration_optimization=cap, mode_proj_order=rorder()), "exact-other"))
            # (e) constraint-option matrix
            for eq_on, ineq_on in ((True, False), (False, True)) + (((False, False),) if i % 3 == 0 else ()):
                runs.append((str(rng.choice(ALGOS)), str(rng.choice(["fse", "fre"])), "identity", far[int(rng.integers(0, len(far)))],
                             dict(max_iteration_optimization=min(cap, 100), on_algo_eq_constraint=eq_on, on_algo_ineq_constraint=ineq_on,
                                  mode_proj_order=rorder()), "options"))
            # weight options
            if not big:
                ln = str(rng.choice(losses))
                wm = "custom" if (ln in ("re", "fre") or rng.random() < 0.4) else str(rng.choice(["inverse_sample_covariance", "inverse_unbiased_covariance"]))
                ds = [ds_few[2], ds_few[5], ds_few[10]][int(rng.integers(0, 3))] if wm.startswith("inverse") else noisy[int(rng.integers(0, len(noisy)))]
                runs.append((str(rng.choice(ALGOS)), ln, wm, ds, dict(max_iteration_optimization=min(cap, 300), mode_proj_order=rorder()), "weights"))
            # physical start point / other stopping rules
            s0 = draw_truth(t, B, d, m, rng, "interior")
            v0 = np.ascontiguousarray(refopt.var_from_stack(t, d, m, s0, flag))
            if hr.random() < 0.5:
                # provenance: the start point is read back from a library object (vouched only when it is the same point)
                with hs.paused():
                    okV, v0l = ctx.attempt(lambda: qt.generate_empty_estimation_obj_with_setting_info().generate_from_var(v0.copy()).to_var())
                if okV and isinstance(v0l, np.ndarray) and v0l.shape == v0.shape and float(np.max(np.abs(v0l - v0))) <= 1e-12:
                    v0 = v0l
                    ctx.count("history:start-point-read-back-from-library-object")
            M.phys_starts.append(v0)
            mode = str(rng.choice(["sum_absolute_difference_loss", "sum_absolute_difference_variable", "sum_absolute_difference_projected_gradient"]))
            runs.append((str(rng.choice(ALGOS)), str(rng.choice(["fse", "fre"])), "identity", noisy[int(rng.integers(0, len(noisy)))],
                         dict(max_iteration_optimization=min(cap, 200), var_start=v0, mode_proj_order=rorder(),
                              mode_stopping_criterion_gradient_descent=mode, num_history_stopping_criterion_gradient_descent=int(rng.integers(1, 4))),
                         "physical-start"))

            # ---- history steps woven into the list of runs (entries: dict; "seq" = datasets of one calc_estimate_sequence call)
            plan = [dict(an=an, ln=ln, wm=wm, seq=[ds], kw=kw, purpose=purpose, qt=qt) for (an, ln, wm, ds, kw, purpose) in runs]
            nvar = int(ti["nvar"])
            for e in plan:
                # options: non-default step sizes on feasibility-only runs with a squared-error loss (every iterate is a
                # projection output / a convex combination of feasible points whatever the step is)
                if e["purpose"] in ("weights", "physical-start") and e["ln"] in ("se", "fse") and hr.random() < 0.6:
                    f = float(hr.choice([0.5, 2.0]))
                    if e["an"] == "pgdb":
                        e["kw"].update(mu=f * 3 / (2 * np.sqrt(nvar)), gamma=float(hr.choice([0.1, 0.6])))
                    elif e["an"] == "pgdm":
                        e["kw"].update(r=2.0 * f)
                    else:
                        e["kw"].update(delta=f / (10 * np.sqrt(nvar)))
                    ctx.count("history:non-default-step-options:" + e["an"])
            i_rec = next((j for j, e in enumerate(plan) if e["purpose"] == "recovery" and e["ln"] in ("se", "fse")), None)
            if i_rec is not None:
                rec = plan[i_rec]
                if not big:
                    # two exact datasets of different objects in one call
                    rec["seq"] = [ds_exact, ds_exact2] if hr.random() < 0.5 else [ds_exact2, ds_exact]
                if sib is not None:
                    # immediately before: the same loss and backtracking objects estimate the sibling tomography
                    plan.insert(i_rec, dict(an="pgdb", ln=rec["ln"], wm="identity", seq=[sib["few"] if hr.random() < 0.5 else sib["exact"]],
                                            kw=dict(max_iteration_optimization=min(cap, 60), mode_proj_order=str(hr.choice(["eq_ineq", "ineq_eq"]))),
                                            purpose="sibling", qt=sib["qt"]))
            elif sib is not None:
                # no recovery run in this case: the sibling is estimated (feasibility only) after the core runs
                j_last_core = max(j for j, e in enumerate(plan) if e["purpose"] == "core")
                plan.insert(j_last_core + 1, dict(an="pgdb", ln="fse", wm="identity", seq=[sib["few"]],
                                                  kw=dict(max_iteration_optimization=min(cap, 60), mode_proj_order=str(hr.choice(["eq_ineq", "ineq_eq"]))),
                                                  purpose="sibling", qt=sib["qt"]))
            # second calls at the end of the case: one core configuration through the default path (no iterate history, no
            # detailed results) and the squared-error recovery once more, each with the very objects of its first call
            cores = [e for e in plan if e["purpose"] == "core"]
            plan.append(dict(again=cores[int(hr.integers(0, len(cores)))], default_path=True, purpose="core:second-call"))
            if i_rec is not None and not big:
                plan.append(dict(again=rec, default_path=False, purpose="recovery:second-call"))

            for e in plan:
                first = e.get("again")
                if first is not None:
                    if "objs" not in first:
                        continue  # the first call did not take place
                    loss, loss_opt, algo, algo_opt = first["objs"]
                    an, ln, wm, kw, qt_e = first["an"], first["ln"], first["wm"], first["kw"], first["qt"]
                    sq = [ds_exact] if e["purpose"].startswith("recovery") else first["seq"]
                    M.hist = ":second-call"
                else:
                    an, ln, wm, kw, qt_e, sq = e["an"], e["ln"], e["wm"], e["kw"], e["qt"], e["seq"]
                    lname = f"loss:{ln}:{int(qt_e.num_variables)}"
                    ok, lo = ctx.attempt(make_loss, ln, qt_e, wm, rng, nrow, n_sched, loss=pool.get(lname))
                    if not ok:
                        ctx.violation(f"loss-ctor:{ln}:" + ctx.exc_key(lo), {"weights": wm})
                        continue
                    loss, loss_opt = lo
                    l_used = lname in pool
                    pool[lname] = loss
                    kw.setdefault("max_iteration_proj_physical", MAX_IT_PROJ)
                    algo, algo_opt = make_algo(an, algo=pool.get(f"algo:{an}"), **kw)
                    a_used = f"algo:{an}" in pool
                    pool[f"algo:{an}"] = algo
                    for nm, u in (("loss", l_used), ("algo", a_used)):
                        if u:
                            ctx.count("history:re-used:" + nm)
                    e["objs"] = (loss, loss_opt, algo, algo_opt)
                    M.hist = ":dataset-sequence" if len(sq) > 1 else hist_of(l_used, a_used)
                purpose = e["purpose"]
                dflt = bool(e.get("default_path"))
                if len(sq) == 1 and dflt:
                    ok, res = run_est(lme.calc_estimate, qt_e, sq[0], loss, loss_opt, algo, algo_opt)
                elif len(sq) == 1:
                    ok, res = run_est(lme.calc_estimate, qt_e, sq[0], loss, loss_opt, algo, algo_opt,
                                      is_computation_time_required=True, is_detailed_results_required=True)
                else:
                    ok, res = run_est(lme.calc_estimate_sequence, qt_e, sq, loss, loss_opt, algo, algo_opt,
                                      is_computation_time_required=not dflt, is_detailed_results_required=not dflt)
                ctx.count(f"runs:{purpose}")
                if not ok:
                    oc = opts_class(kw.get("on_algo_eq_constraint", True), kw.get("on_algo_ineq_constraint", True))
                    if oc != "eq+ineq":
                        # nothing is promised with a constraint option off (iterates are not confined): recorded only
                        ctx.count(f"recorded:exception:opts={oc}:{type(res).__name__}@{ctx.exc_site(res)}")
                        continue
                    fam = "squared-error" if ln in ("se", "fse") else "relative-entropy"
                    # mechanism key: loss family + raising site (algorithm and flag are in the witness info); the
                    # relative-entropy key names a known finding and is never suffixed
                    ctx.violation(f"LossMinimizationEstimator:{fam}:" + ctx.exc_key(res) + (M.hist if fam == "squared-error" else ""),
                                  {"algorithm": an, "para_eq": bool(flag), "type": t, "loss": ln, "weights": wm, "data": M.meta_of(sq[0])["cls"],
                                   "purpose": purpose, "options": {k: v for k, v in kw.items() if k != "var_start"}, "msg": str(res)[:300]})
                    continue
                if purpose == "recovery" and ln in ("se", "fse") and M.last is not None:
                    held.append((f"LossMinimizationEstimator:pgdb:{ln}", f"LossMinimizationEstimator:pgdb:{ln}", res, M.last, qt_e, sq,
                                 {"purpose": purpose}))
                for ds in sq:
                    register(f"lme:{an}:{ln}:{wm}:{purpose}:{kw.get('mode_proj_order')}:{kw.get('on_algo_eq_constraint', True)}:"
                             f"{kw.get('on_algo_ineq_constraint', True)}", ds)

            # ------------------------------------------------------- history: results still held by the caller
            M.hist = ":result-re-read"
            for (who, who_pt, res, first, qt_h, seq_h, inf) in held:
                with hs.paused():
                    M.reread(who, who_pt, res, first, qt_h, seq_h, True, True, inf)
                ctx.count("history:held-result-re-read")
            M.hist = ""
    finally:
        hs.uninstall()
    ctx.extra["hook_counts"] = hs.counts
    ctx.extra["worst_ratios"] = M.worst
    if ctx.only_case is None:
        hs.require(["ProjectedLinearEstimator.calc_estimate_sequence", "LossMinimizationEstimator.calc_estimate_sequence",
                    "ProjectedGradientDescentBacktracking.optimize", "ProjectedGradientDescentWithMomentum.optimize",
                    "ProjectedFastIterativeShrinkageThresholdingAlgorithm.optimize",
                    "LinearEstimator.calc_estimate_sequence(nested)", "QOperation.calc_proj_physical(nested)"])


def finalize(merged, ctx):
    worst = {}
    for s in merged["extra"]:
        ex = s["extra"] or {}
        for k, v in (ex.get("worst_ratios") or {}).items():
            worst[k] = max(worst.get(k, 0.0), v)
    for k, v in sorted(worst.items()):
        ctx.count(f"margin:worst-err-as-permille-of-tol_pass:{k}", int(math.ceil(1000 * v)))
