"""C05  Physical projection returns the nearest physical object.

Hooks on calc_proj_physical / calc_proj_physical_with_var (always driven with
the iteration history on) judge every execution: termination by criterion,
feasibility, optimality (variational inequality against random physical
points + independent SDP), fixed points, history consistency (Dykstra
recurrences against reference projections).  The driver adds the cross-form
comparisons (both orders, object vs variable vs closure forms, both flags).

History / combination steps (second half of every case; keys carry the step as
a suffix).  The first pass asks fresh objects once; faults that need a history
(stale per-object cache after a setter, a result memo keyed by too little, a
returned array that aliases a buffer overwritten by the next call, an option
dropped on the way to a derived object, state left in a re-used closure) are
invisible to it.  So, with the same oracles and tolerances:
  :second-object-interleaved   a second live object of the same class / size with other data, another threshold
                               and the other order is asked between two queries of the first objects;
  :re-used-object              the first objects' variable-level routine is asked again with that OTHER data ...
  :flag-differs-from-object    ... on one of them (and through a fresh closure) in the parametrisation the object was
                               NOT built with (the routine / closure takes the flag as an argument);
  :re-used-closure             the closures obtained in the first pass are called again with the other data; what they
                               return is judged against the variable vector they were GIVEN;
  :via-generate-from-var / :via-zero-obj / :via-copy   objects derived from objects with NON-DEFAULT threshold / order /
                               flag are projected and judged against the threshold and order the driver configured (not
                               against what the derived object claims);
  :after-setter                set_mode_proj_order on both first objects, then the first data again on the same object
                               (object and variable level, history on: the recorded sweeps must follow the NEW order)
                               and on a copy() taken after the setter; results agree with the fresh object of that order;
  :retained-result-after-later-calls   what earlier calls returned (objects and arrays the driver kept) is judged once
                               more against ITS input after the later calls with other data on the same objects;
  :second-input                all forms of the second input agree (cross-form tolerance).
Only public API on supported arguments is used; no verdict compares two runs bit by bit (every verdict is one of the
property's: feasible / nearest / history consistent with the configured threshold and order, to the sqrt(eps) tolerances).
The first pass is unchanged (same calls, same random draws: the history steps use their own RNG stream).
"""
import numpy as np

from qv import gen, ref, refopt
from qv.monitor import HookSet

ID = "C05"
RULE = ("input points = physical point + Gaussian noise (1e-3..1e-1), far points (norm up to 1e2), exactly physical and "
        "boundary points, negative-definite points (-c x physical, c in 0.3..50) and the zero vector; 4 types x shapes S1,S3,S2 x outcome counts 2..4 x both projection orders x eps in "
        "{1e-6,1e-8,1e-10,1e-14} x both parametrisation flags; a case is distinct by (type,shape,m,flag,eps,rounded input) "
        "and non-trivial when the input is not already physical (the projection has to move it). "
        "History / combination steps per case (same oracles; key suffix names the step): a second input point (physical + "
        "0.05..1.0, on the equality constraint) and another eps drive a second live object interleaved with the first ones, "
        "the first objects and their closures re-used with the other data (one object and a fresh closure in the "
        "parametrisation it was not built with), objects obtained through generate_from_var / generate_zero_obj / copy() of "
        "objects with non-default eps / order / flag (judged against the configured eps and order), set_mode_proj_order on both "
        "objects followed by the first data again on the same object and on a copy, and a re-judgement of the results the "
        "driver kept from earlier calls after the later calls")
ANCHORS = [
    "quara/objects/qoperation.py:QOperation.calc_proj_physical",
    "quara/objects/qoperation.py:QOperation.calc_proj_physical_with_var",
    "quara/objects/qoperation.py:QOperation.func_calc_proj_physical.<locals>._func_proj",
    "quara/objects/qoperation.py:QOperation.func_calc_proj_physical_with_var.<locals>._func_proj",
    "quara/objects/qoperation.py:QOperation._is_satisfied_stopping_criterion_birgin_raydan_vectors",
]
REQUIRED_REACH = ANCHORS
REQUIRED_ORACLES = ["feasible:eq", "feasible:ineq", "optimal:variational-inequality", "optimal:sdp-distance", "optimal:reference-dykstra-point",
                    "history:recurrence", "forms:order-independent", "forms:object-vs-var"]
MIN_EVALS = {"quick": 3000, "thorough": 30000}
WATCHDOG = {"quick": 900, "thorough": 3600}
EPSS = [1e-6, 1e-8, 1e-10, 1e-14]
MAX_ITER = 20000


def shards(tier, seed):
    out = []
    n = {"quick": 12, "thorough": 80}[tier]
    for t in refopt.TYPES:
        for shape in ("S1", "S3", "S2"):
            for flag in (True, False):
                big = shape == "S2" and t in ("Gate", "MProcess")
                mid = (shape == "S3" and t in ("Gate", "MProcess")) or (shape == "S2")
                k = max(1, n // 6) if big else max(2, n // 2) if mid else n
                out.append({"type": t, "shape": shape, "flag": flag, "n": k, "weight": k * (40 if big else 6 if mid else 1)})
    return out


def tol(eps, a_norm):
    """The routine stops when the *squared* change of the Dykstra increments
    drops below eps, so its accuracy scale is sigma = sqrt(eps).  Measured on the
    pinned tree (8 configurations x eps x distance 1e-2..1e2): feasibility error
    <= 1.3 sigma and distance to the true nearest point <= 13 sigma, both
    independent of the norm of the input; a 1e-12 relative round-off floor is added."""
    sigma = np.sqrt(eps)
    floor = 1e-12 * (1.0 + a_norm)
    return 30 * sigma + floor, 3000 * sigma + 100 * floor


class Oracle:
    """post-condition shared by the object-level and variable-level hooks"""

    def __init__(self, ctx, t, B, d, m):
        self.ctx, self.t, self.B, self.d, self.m = ctx, t, B, d, m
        self.n_calls = 0
        self.ref_cache = {}

    _geo = {}

    def geometry(self):
        k = (self.t, self.d, self.m)
        if k not in Oracle._geo:
            Oracle._geo[k] = refopt.Geometry(self.t, self.B, self.d, self.m)
        return Oracle._geo[k]

    def judge(self, label, a, p, hist, eps, order, max_iter, rng, want_sdp=True, view=None, sfx=""):
        """view: maps a stacked vector to the coordinates in which the routine
        reports its result (variable-level routine with the flag on drops the
        implied entries), used to compare the history's last x with the result.
        sfx: suffix of every violation key, names the history step the judged call belongs to ("" = first pass)"""
        self.view = view or (lambda s: s)
        self.sfx = sfx
        ctx, t, B, d, m = self.ctx, self.t, self.B, self.d, self.m
        self.n_calls += 1
        a = np.asarray(a, dtype=np.float64)
        p = np.asarray(p, dtype=np.float64)
        an = float(np.linalg.norm(a))
        tp, tf = tol(eps, an)
        info = {"fn": label, "type": t, "d": d, "m": m, "eps": eps, "order": order, "a_norm": an, "step": sfx or "first-pass"}
        # --- termination by criterion
        if hist is not None:
            ev = hist["error_value"]
            n_it = len(ev)
            ctx.count("iterations", n_it)
            ctx.extra["max_iterations_seen"] = max(ctx.extra.get("max_iterations_seen", 0), n_it)
            ctx.num("terminates-by-criterion", n_it, max_iter * 0.25, max_iter, key=f"{label}:{t}:iteration-limit-hit{sfx}", info=info)
            if n_it >= max_iter:
                return  # nothing below is promised for a run that was cut off
        # --- feasibility
        eq, ineq = refopt.violations(t, B, d, m, p)
        ctx.num("feasible:eq", eq, tp, tf, key=f"{label}:{t}:result-violates-eq{sfx}", info=info)
        ctx.num("feasible:ineq", ineq, tp, tf, key=f"{label}:{t}:result-violates-ineq{sfx}", info=info)
        # --- optimality: variational inequality  <a-p, z-p> <= tol
        worst = 0.0
        ap = a - p
        for _ in range(50):
            z = refopt.random_physical(t, B, d, m, rng)
            zp = z - p
            v = float(ap @ zp) / (1.0 + np.linalg.norm(ap) + np.linalg.norm(zp))
            worst = max(worst, v)
        ctx.num("optimal:variational-inequality", worst, tp, tf, key=f"{label}:{t}:not-nearest:variational-inequality{sfx}", info=info)
        # --- optimality: independent references, computed once per input and shared by every form / order
        # (want_sdp=False only means "do not *compute* the SDP for this input": cached solutions are always used)
        ck = a.tobytes()
        refs = self.ref_cache.get(ck)
        if refs is None:
            refs = {}
            if want_sdp:
                refs["sdp"] = refopt.nearest_physical_sdp(t, B, d, m, a)[0]
            if refopt.n_stack(t, d, m) <= 300:
                xr, its, conv = self.geometry().dykstra(a, tol=1e-26, max_iter=60000)
                refs["dykstra"] = xr if conv else None
            if len(self.ref_cache) > 8:
                self.ref_cache.clear()
            self.ref_cache[ck] = refs
        if "sdp" in refs:
            x = refs["sdp"]
            if x is None:
                ctx.skip("optimal:sdp-distance")
            else:
                # the SDP point is feasible: quara's point must not be farther (beyond tolerance) ...
                gap = float(np.linalg.norm(a - p) - np.linalg.norm(a - x))
                # (the interior-point reference is itself only accurate to ~5e-7 relative)
                ctx.num("optimal:sdp-distance", max(gap, 0.0), tp + 2e-6 * (1 + an), tf + 2e-4 * (1 + an),
                        key=f"{label}:{t}:not-nearest:farther-than-sdp-solution{sfx}", info=dict(info, gap=gap))
                # ... and, the nearest point being unique, must coincide with it
                ctx.num("optimal:sdp-point", float(np.linalg.norm(p - x)), tp + 2e-5 * (1 + an), tf + 2e-3 * (1 + an),
                        key=f"{label}:{t}:not-nearest:differs-from-sdp-solution{sfx}", info=info)
        # independent high-accuracy Dykstra (small configurations; no solver accuracy floor)
        if "dykstra" in refs:
            if refs["dykstra"] is None:
                ctx.skip("optimal:reference-dykstra-point")
            else:
                ctx.num("optimal:reference-dykstra-point", float(np.linalg.norm(p - refs["dykstra"])), tp, tf,
                        key=f"{label}:{t}:not-nearest:differs-from-reference-dykstra{sfx}", info=info)
        # --- physical input is a fixed point
        eq_a, ineq_a = refopt.violations(t, B, d, m, a)
        if max(eq_a, ineq_a) <= 1e-13:
            ctx.num("fixed-point", float(np.linalg.norm(p - a)), tp, tf, key=f"{label}:{t}:moves-physical-input{sfx}", info=info)
        # --- history consistency
        if hist is not None:
            self.history(label, a, p, hist, eps, order, info)

    def history(self, label, a, p, hist, eps, order, info):
        ctx, t, B, d, m = self.ctx, self.t, self.B, self.d, self.m
        sfx = self.sfx

        def vec(o):
            if o is None:
                return None
            if isinstance(o, np.ndarray):
                return np.asarray(o, dtype=np.float64)
            return np.asarray(o.to_stacked_vector(), dtype=np.float64)

        ps, qs, xs, ys = ([vec(o) for o in hist[k]] for k in ("p", "q", "x", "y"))
        ev = hist["error_value"]
        ok_len = len(ps) == len(qs) == len(xs) == len(ys) == len(ev) + 1
        ctx.truth("history:lengths", ok_len, key=f"{label}:{t}:history-lengths-inconsistent{sfx}",
                  info=dict(info, lens=[len(ps), len(qs), len(xs), len(ys), len(ev)]))
        if not ok_len or len(xs) < 2:
            return
        sc = 1.0 + float(np.linalg.norm(a))
        ctx.num("history:last-x-is-result", float(np.max(np.abs(self.view(xs[-1]) - self.view(p)))) / sc, 1e-12, 1e-9,
                key=f"{label}:{t}:history-last-x-differs-from-result{sfx}", info=info)
        ctx.num("history:x0-is-input", float(np.max(np.abs(xs[0] - a))) / sc, 1e-12, 1e-9,
                key=f"{label}:{t}:history-first-x-differs-from-input{sfx}", info=info)
        first = (lambda s: refopt.proj_eq(t, d, m, s)) if order == "eq_ineq" else (lambda s: refopt.proj_ineq(t, B, d, m, s))
        second = (lambda s: refopt.proj_ineq(t, B, d, m, s)) if order == "eq_ineq" else (lambda s: refopt.proj_eq(t, d, m, s))
        worst_rec = worst_proj = 0.0
        steps = range(len(xs) - 1)
        if len(xs) > 40:  # long traces: head, tail and a stride
            steps = sorted(set(list(range(10)) + list(range(len(xs) - 11, len(xs) - 1)) + list(range(0, len(xs) - 1, max(1, len(xs) // 20)))))
        for k in steps:
            x0, p0, q0 = xs[k], ps[k], qs[k]
            y1, p1, x1, q1 = ys[k + 1], ps[k + 1], xs[k + 1], qs[k + 1]
            worst_rec = max(worst_rec, float(np.max(np.abs(p1 - (x0 + p0 - y1)))), float(np.max(np.abs(q1 - (y1 + q0 - x1)))))
            worst_proj = max(worst_proj, float(np.max(np.abs(y1 - first(x0 + p0)))), float(np.max(np.abs(x1 - second(y1 + q0)))))
        ctx.num("history:recurrence", worst_rec / sc, 1e-11, 1e-8, key=f"{label}:{t}:history-increments-violate-dykstra-recurrence{sfx}", info=info)
        ctx.num("history:steps-are-projections", worst_proj / sc, 1e-9, 1e-6,
                key=f"{label}:{t}:history-step-is-not-projection-of-corrected-point{sfx}", info=info)
        # stopping rule: last error below eps, earlier ones not
        evs = [e for e in ev if e is not None]
        if evs:
            ctx.truth("history:stopping-rule", evs[-1] < eps and all(e >= eps for e in evs[:-1]),
                      key=f"{label}:{t}:stopping-rule-inconsistent-with-error-values{sfx}",
                      info=dict(info, last=evs[-1], n=len(evs), n_below=sum(1 for e in evs if e < eps)))
            ctx.truth("history:first-error-none", ev[0] is None, key=f"{label}:{t}:history-first-error-value-not-none{sfx}", info=info)


def run_shard(ctx):
    P = ctx.params
    t, shape, flag = P["type"], P["shape"], P["flag"]
    Q = gen.q()
    cls = getattr(Q, t)
    c_sys = gen.make_csys(gen.SHAPES[shape])
    B = gen.basis_of(c_sys)
    d = c_sys.dim
    n = d * d
    hs = HookSet(ctx)
    state = {"oracle": None, "rng": None, "sdp": True, "step": "", "expect": None}

    def raw_of(s, m):
        s = np.ascontiguousarray(s, dtype=np.float64)
        if t == "State":
            return s.copy()
        if t == "Povm":
            return [v.copy() for v in s.reshape(m, n)]
        if t == "Gate":
            return s.reshape(n, n).copy()
        return [h.copy() for h in s.reshape(m, n, n)]

    # ---- hooks: every execution of the two routines is judged
    # state["step"]   = key suffix of the history step the driver is in ("" during the first pass);
    # state["expect"] = (eps, order) the driver configured for the object it is calling (directly, or through copy() /
    #                   generate_from_var / generate_zero_obj / a setter): the execution is judged against the *intended*
    #                   threshold and order, not against whatever the object claims, so an option lost on the way to a
    #                   derived object is seen by the termination / history oracles.  None (closures' inner objects, calls
    #                   made by quara itself) = read the public properties of the object.
    def expected(self):
        e = state["expect"]
        if e is None:
            return self.eps_proj_physical, self.mode_proj_order, {}
        return e[0], e[1], {"object_eps": self.eps_proj_physical, "object_order": self.mode_proj_order}

    def post_obj(result, snap, self, max_iteration=1000, is_iteration_history=False):
        if state["oracle"] is None:
            return
        if is_iteration_history:
            obj, hist = result
        else:
            obj, hist = result, None
        eps_, order_, _ = expected(self)
        o = state["oracle"]
        o.judge("calc_proj_physical", gen.stacked(self), gen.stacked(obj), hist, eps_, order_, max_iteration, state["rng"],
                want_sdp=state["sdp"], sfx=state["step"])

    def post_var(result, snap, self, var, on_para_eq_constraint=True, max_iteration=1000, is_iteration_history=False):
        if state["oracle"] is None:
            return
        if is_iteration_history:
            v, hist = result
        else:
            v, hist = result, None
        o = state["oracle"]
        a = refopt.stack_from_var(t, d, o.m, var, on_para_eq_constraint)
        p = refopt.stack_from_var(t, d, o.m, v, on_para_eq_constraint)
        eps_, order_, _ = expected(self)
        o.judge("calc_proj_physical_with_var", a, p, hist, eps_, order_, max_iteration,
                state["rng"], want_sdp=state["sdp"],
                view=lambda s, _f=on_para_eq_constraint, _m=o.m: refopt.var_from_stack(t, d, _m, s, _f), sfx=state["step"])

    from quara.objects.qoperation import QOperation

    hs.method(QOperation, "calc_proj_physical", post=post_obj)
    hs.method(QOperation, "calc_proj_physical_with_var", post=post_var)

    def call(fn_name, step, expect, fn, *a, **kw):
        """one driver call of a library routine inside history step `step` (""= first pass); the hooks judge it; an
        exception where the property promises a value is a violation.  Returns (ok, value)."""
        state["step"], state["expect"] = step, expect
        try:
            ok, r = ctx.attempt(fn, *a, **kw)
        finally:
            state["step"], state["expect"] = "", None
        if not ok:
            ctx.violation(f"{fn_name}:{t}:" + ctx.exc_key(r) + step, {"step": step or "first-pass", "expect_eps_order": expect})
        elif step:
            ctx.count("history-step" + step)
        return ok, r

    HIST = dict(max_iteration=MAX_ITER, is_iteration_history=True)

    try:
        for i in ctx.cases(P["n"]):
            rng = ctx.rng()
            m = int(rng.integers(2, 5)) if t in ("Povm", "MProcess") else 0
            if shape == "S2" and t == "MProcess":
                m = 2
            eps = float(EPSS[i % len(EPSS)] if rng.random() < 0.7 else rng.choice(EPSS))
            kind = str(rng.choice(["near", "near", "far", "far", "physical", "boundary", "negative", "negative"]))
            slow = (i == 0 and shape == "S1" and t in ("Gate", "MProcess"))
            if slow:
                # an input that needs > 1000 Dykstra sweeps (measured: 1000-2300 at distance 100, eps 1e-14): exercises
                # iteration limits above the routine's default of 1000
                kind, eps = "far", 1e-14
            base = refopt.random_physical(t, B, d, m, rng, rank=1 if kind == "boundary" else None)
            if kind == "near":
                s_in = base + float(rng.choice([1e-3, 1e-2, 1e-1])) * rng.standard_normal(base.size)
            elif kind == "far":
                g = rng.standard_normal(base.size)
                s_in = base + g / np.linalg.norm(g) * (100.0 if slow else float(rng.choice([1.0, 10.0, 100.0])))
            elif kind == "negative":
                # every operator negative (semi)definite: the inequality projection sends the point (almost) to zero, the
                # iteration stalls in x while the increments keep changing - hostile to "x did not move" stopping rules
                # (missed seeded change C05-3); occasionally the exact zero vector
                s_in = -float(rng.choice([0.3, 1.0, 5.0, 50.0])) * base if rng.random() < 0.85 else np.zeros_like(base)
            else:
                s_in = base
            if flag:
                # a variable vector with the equality constraint built in denotes a point on the constraint
                var_in = refopt.var_from_stack(t, d, m, s_in, True)
                s_in = refopt.stack_from_var(t, d, m, var_in, True)
            else:
                var_in = s_in.copy()
            O = Oracle(ctx, t, B, d, m)
            state["oracle"], state["rng"] = O, rng
            heavy = shape == "S2" and t in ("Gate", "MProcess")
            state["sdp"] = (not heavy) or (i % 3 == 0)
            nontriv = max(refopt.violations(t, B, d, m, s_in)) > 1e-9
            if nontriv:
                ctx.nontrivial(t, shape, m, flag, eps, s_in)
            if i < 2:
                ctx.sample({"type": t, "shape": shape, "m": m, "flag": flag, "eps": eps, "input_kind": kind,
                            "input_violation_eq_ineq": list(refopt.violations(t, B, d, m, s_in)), "input_norm": float(np.linalg.norm(s_in))})
            results = {}
            objs, kept, clo_obj, clo_var = {}, {}, {}, {}
            sweeps = 0
            for order in ("eq_ineq", "ineq_eq"):
                kw = dict(is_physicality_required=False, on_para_eq_constraint=flag, mode_proj_order=order, eps_proj_physical=eps)
                ok, obj = ctx.attempt(cls, c_sys, raw_of(s_in, m), **kw)
                if not ok:
                    ctx.violation(f"ctor:{t}:" + ctx.exc_key(obj), {})
                    continue
                objs[order] = obj
                ok, r = call("calc_proj_physical", "", (eps, order), obj.calc_proj_physical, **HIST)
                if not ok:
                    continue
                results[("obj", order)] = gen.stacked(r[0])
                kept[("obj", order)] = r[0]
                sweeps = max(sweeps, len(r[1]["error_value"]))
                # variable-level routine (judged by its own hook); SDP already done for this input
                state["sdp"] = False
                ok, rv = call("calc_proj_physical_with_var", "", (eps, order), obj.calc_proj_physical_with_var, var_in.copy(),
                              on_para_eq_constraint=flag, **HIST)
                if ok:
                    results[("var", order)] = refopt.stack_from_var(t, d, m, rv[0], flag)
                    kept[("var", order)] = rv[0]
                # closures
                ok, f1 = ctx.attempt(obj.func_calc_proj_physical, on_para_eq_constraint=flag, mode_proj_order=order, max_iteration=MAX_ITER)
                if ok:
                    ok, v1 = call("func_calc_proj_physical", "", None, f1, var_in.copy())
                    if ok:
                        results[("closure-obj", order)] = refopt.stack_from_var(t, d, m, v1, flag)
                        clo_obj[order] = f1
                ok, f2 = ctx.attempt(obj.func_calc_proj_physical_with_var, on_para_eq_constraint=flag, mode_proj_order=order, max_iteration=MAX_ITER)
                if ok:
                    ok, v2 = call("func_calc_proj_physical_with_var", "", None, f2, var_in.copy())
                    if ok:
                        results[("closure-var", order)] = refopt.stack_from_var(t, d, m, v2, flag)
                        clo_var[order] = f2
            an = float(np.linalg.norm(s_in))
            tp, tf = tol(eps, an)
            tp, tf = 4 * tp, 4 * tf

            # ================================================================== history / combination steps
            # Everything above asked fresh objects once.  The same oracles now judge (i) the same objects asked again with
            # OTHER data and with the first data after a public setter changed them, (ii) objects reached through copy(),
            # generate_from_var() and generate_zero_obj() of objects carrying NON-DEFAULT options, (iii) a second live object
            # of the same class / size with other data and another threshold, interleaved with the first, (iv) the
            # variable-level routine asked in the parametrisation the object was NOT built with, and (v) the results
            # returned by the first pass, judged once more after all the later calls.  All calls are public API on supported
            # argument values; every verdict is one of the property's own (feasible / nearest / history consistent for the
            # threshold and order the driver configured), none compares two runs bit by bit.
            def rejudge_kept(which):
                """(v) what an earlier call returned is still the nearest physical point of ITS input after later calls with
                other data on the same objects (a result that aliases a buffer overwritten by a later call would not be):
                results of the first input are judged again after the second-input steps, results of the second input at
                the very end (after the first input was asked again)"""
                for (form, o_), val in sorted(kept.items()):
                    if (form in ("obj", "var")) != (which == "first-input"):
                        continue
                    if form == "obj":
                        a_, p_, e_, lab = s_in, gen.stacked(val), eps, "calc_proj_physical"
                    elif form == "var":
                        a_, p_, e_, lab = s_in, refopt.stack_from_var(t, d, m, val, flag), eps, "calc_proj_physical_with_var"
                    elif form == "obj2":
                        a_, p_, e_, lab = s2, gen.stacked(val), eps2, "calc_proj_physical"
                    else:  # "var2": (array, flag it is expressed in)
                        a_, p_, e_, lab = s2, refopt.stack_from_var(t, d, m, val[0], val[1]), eps, "calc_proj_physical_with_var"
                    O.judge(lab, a_, p_, None, e_, o_, MAX_ITER, rng, want_sdp=False, sfx=":retained-result-after-later-calls")
                    ctx.count("history-step:retained-result-after-later-calls")

            rng2 = ctx.rng(1)  # own stream: the first pass draws exactly what it drew before these steps existed
            a, b = ("eq_ineq", "ineq_eq") if i % 2 == 0 else ("ineq_eq", "eq_ineq")
            other = {"eq_ineq": "ineq_eq", "ineq_eq": "eq_ineq"}
            alt = (i + i // 2) % 2  # 0,1,1,0,...: alternates the cheaper-by-half steps independently of the roles a / b
            if a in objs and b in objs:
                # second input: another point of the same shape, on the equality constraint (so that it has a variable
                # vector under both parametrisations), moderately far so that it converges fast; another threshold
                base2 = refopt.random_physical(t, B, d, m, rng2)
                g2 = rng2.standard_normal(base2.size)
                s2 = base2 + g2 / np.linalg.norm(g2) * float(rng2.choice([0.05, 0.3, 1.0]))
                s2 = refopt.stack_from_var(t, d, m, refopt.var_from_stack(t, d, m, s2, True), True)
                var2 = {f: refopt.var_from_stack(t, d, m, s2, f) for f in (True, False)}
                eps2 = float(rng2.choice([e for e in EPSS if e != eps]))
                tp2, tf2 = tol(max(eps, eps2), float(np.linalg.norm(s2)))
                state["sdp"] = False  # references for the second input: high-accuracy Dykstra where affordable, else VI only
                # (iii) a second live object, other data, other threshold, asked between two queries of the first ones
                ok, obj2 = ctx.attempt(cls, c_sys, raw_of(s2, m), is_physicality_required=False, on_para_eq_constraint=flag,
                                       mode_proj_order=b, eps_proj_physical=eps2)
                if not ok:
                    ctx.violation(f"ctor:{t}:" + ctx.exc_key(obj2) + ":second-object", {})
                else:
                    ok, r2 = call("calc_proj_physical", ":second-object-interleaved", (eps2, b), obj2.calc_proj_physical, **HIST)
                    if ok:
                        kept[("obj2", b)] = r2[0]
                        results[("obj2", b)] = gen.stacked(r2[0])
                # (i)+(iv) the first objects and their closures, re-used with the other data; object `a` is asked in its own
                # parametrisation, object `b` in the other one
                ok, rv2 = call("calc_proj_physical_with_var", ":re-used-object", (eps, a), objs[a].calc_proj_physical_with_var,
                               var2[flag].copy(), on_para_eq_constraint=flag, **HIST)
                if ok:
                    results[("var2", a)] = refopt.stack_from_var(t, d, m, rv2[0], flag)
                    kept[("var2", a)] = (rv2[0], flag)
                ok, rv2 = call("calc_proj_physical_with_var", ":re-used-object:flag-differs-from-object", (eps, b),
                               objs[b].calc_proj_physical_with_var, var2[not flag].copy(), on_para_eq_constraint=not flag, **HIST)
                if ok:
                    results[("var2", b)] = refopt.stack_from_var(t, d, m, rv2[0], not flag)
                    kept[("var2", b)] = (rv2[0], not flag)
                # (the hooks judge the closures' inner executions against the inner objects' own data; what a closure
                # returns for the variable vector it was GIVEN is judged here, as one more form of the second input)
                # (cost: the two closure kinds alternate between cases, the other-flag closure runs on every third case)
                if a in clo_obj and alt == 0:
                    ok, v_ = call("func_calc_proj_physical", ":re-used-closure", None, clo_obj[a], var2[flag].copy())
                    if ok:
                        results[("closure-obj2", a)] = refopt.stack_from_var(t, d, m, v_, flag)
                if b in clo_var and alt == 1:
                    ok, v_ = call("func_calc_proj_physical_with_var", ":re-used-closure", None, clo_var[b], var2[flag].copy())
                    if ok:
                        results[("closure-var2", b)] = refopt.stack_from_var(t, d, m, v_, flag)
                if not heavy and i % 3 == 0:
                    # a closure asked for the parametrisation its object was not built with
                    ok, f3 = ctx.attempt(objs[b].func_calc_proj_physical, on_para_eq_constraint=not flag, mode_proj_order=b, max_iteration=MAX_ITER)
                    if ok:
                        ok, v_ = call("func_calc_proj_physical", ":re-used-object:flag-differs-from-object", None, f3, var2[not flag].copy())
                        if ok:
                            results[("closure-obj2-other-flag", b)] = refopt.stack_from_var(t, d, m, v_, not flag)
                for (form, o_) in [k for k in results if k[0].startswith("closure-") and k[0].endswith(("2", "2-other-flag"))]:
                    O.judge("func_calc_proj_physical" + ("_with_var" if form.startswith("closure-var") else ""), s2, results[(form, o_)], None,
                            eps, o_, MAX_ITER, rng, want_sdp=False,
                            sfx=":re-used-closure" if not form.endswith("other-flag") else ":re-used-object:flag-differs-from-object")
                # (ii) provenance: objects derived from the configured ones inherit threshold and (where documented) order
                ok, gobj = ctx.attempt(objs[a].generate_from_var, var2[flag].copy(), mode_proj_order=a)
                if not ok:
                    ctx.violation(f"generate_from_var:{t}:" + ctx.exc_key(gobj) + ":via-generate-from-var", {})
                else:
                    ok, rg = call("calc_proj_physical", ":via-generate-from-var", (eps, a), gobj.calc_proj_physical, **HIST)
                    if ok:
                        results[("gfv2", a)] = gen.stacked(rg[0])
                if not heavy and i % 3 == 1:
                    ok, zobj = ctx.attempt(objs[b].generate_zero_obj)
                    if ok:
                        call("calc_proj_physical", ":via-zero-obj", (eps, b), zobj.calc_proj_physical, **HIST)
                # every form of the second input denotes the same nearest point (cross-form tolerance of the looser threshold)
                forms2 = [k for k in (("obj2", b), ("var2", a), ("var2", b), ("gfv2", a)) if k in results]
                for k in forms2[1:]:
                    ctx.num("forms:second-input-forms-agree", float(np.linalg.norm(results[forms2[0]] - results[k])), 4 * tp2, 4 * tf2,
                            key=f"calc_proj_physical:{t}:{k[0]}-form-differs-from-{forms2[0][0]}-form:flag={flag}:second-input",
                            info={"eps": eps, "eps2": eps2, "orders": [forms2[0][1], k[1]]})
                rejudge_kept("first-input")
                # (i) public setter between two queries of the same object: both objects swap their order, then the first
                # data again (object level with history on `a`; variable level on `a`; through copy() on `b`)
                swapped = True
                for o_ in (a, b):
                    ok, e_ = ctx.attempt(objs[o_].set_mode_proj_order, other[o_])
                    if not ok:
                        ctx.violation(f"set_mode_proj_order:{t}:" + ctx.exc_key(e_), {})
                        swapped = False
                # (cost: an input that needed more than 150 sweeps in the first pass is asked again either directly or
                # through the copy, alternating; a sweep count is not a clock)
                direct, via_copy = (True, True) if sweeps <= 150 else (alt == 0, alt == 1)
                if swapped and direct:
                    ok, ra = call("calc_proj_physical", ":after-setter", (eps, other[a]), objs[a].calc_proj_physical, **HIST)
                    if ok and ("obj", other[a]) in results:
                        # same data, same threshold, same order as the fresh object built with that order
                        ctx.num("forms:after-setter-agrees-with-fresh-object", float(np.linalg.norm(gen.stacked(ra[0]) - results[("obj", other[a])])),
                                tp, tf, key=f"calc_proj_physical:{t}:result-differs-from-fresh-object-of-that-order:after-setter",
                                info={"eps": eps, "order": other[a], "a_norm": an})
                    if not heavy and alt == 0:
                        call("calc_proj_physical_with_var", ":after-setter", (eps, other[a]), objs[a].calc_proj_physical_with_var,
                             var_in.copy(), on_para_eq_constraint=flag, **HIST)
                if swapped and via_copy:
                    ok, cobj = ctx.attempt(objs[b].copy)
                    if not ok:
                        ctx.violation(f"copy:{t}:" + ctx.exc_key(cobj) + ":after-setter:via-copy", {})
                    else:
                        ok, rc = call("calc_proj_physical", ":after-setter:via-copy", (eps, other[b]), cobj.calc_proj_physical, **HIST)
                        if ok and ("obj", other[b]) in results:
                            ctx.num("forms:after-setter-agrees-with-fresh-object", float(np.linalg.norm(gen.stacked(rc[0]) - results[("obj", other[b])])),
                                    tp, tf, key=f"calc_proj_physical:{t}:result-differs-from-fresh-object-of-that-order:after-setter:via-copy",
                                    info={"eps": eps, "order": other[b], "a_norm": an})
                rejudge_kept("second-input")
            state["oracle"] = None
            # ---- cross-form agreement (each form is within tol of the unique nearest point)
            if ("obj", "eq_ineq") in results and ("obj", "ineq_eq") in results:
                ctx.num("forms:order-independent", float(np.linalg.norm(results[("obj", "eq_ineq")] - results[("obj", "ineq_eq")])), tp, tf,
                        key=f"calc_proj_physical:{t}:result-depends-on-projection-order", info={"eps": eps, "flag": flag, "a_norm": an})
            for order in ("eq_ineq", "ineq_eq"):
                if ("obj", order) in results:
                    for form in ("var", "closure-obj", "closure-var"):
                        if (form, order) in results:
                            nm = "forms:object-vs-var" if form == "var" else f"forms:object-vs-{form}"
                            # same algorithm on the same numbers: should agree far below the stopping accuracy
                            ctx.num(nm, float(np.linalg.norm(results[("obj", order)] - results[(form, order)])), tp, tf,
                                    key=f"calc_proj_physical:{t}:{form}-form-differs-from-object-form:flag={flag}",
                                    info={"eps": eps, "order": order, "a_norm": an})
                # A closure only delegates to the routine of the same level with the parameters it captured (flag, order,
                # iteration limit): on the same input it must reproduce that routine's result exactly (free entries
                # compared; 1e-12 relative allowed).  This is what pins the captured max_iteration / order / threshold:
                # a closure that silently runs with other parameters is still "accurate to the threshold" on easy inputs
                # (missed seeded change C05-4).
                vw = lambda x: refopt.var_from_stack(t, d, m, x, flag)  # noqa: E731
                for direct, clo in (("var", "closure-var"), ("obj", "closure-obj")):
                    if (direct, order) in results and (clo, order) in results:
                        e = float(np.max(np.abs(vw(results[(direct, order)]) - vw(results[(clo, order)])))) / (1.0 + an)
                        ctx.num(f"forms:{clo}-reproduces-{direct}-routine", e, 1e-12, 1e-9,
                                key=f"calc_proj_physical:{t}:{clo}-does-not-reproduce-the-{direct}-level-routine-with-the-captured-parameters:flag={flag}",
                                info={"eps": eps, "order": order, "a_norm": an, "max_iteration": MAX_ITER})
    finally:
        hs.uninstall()
    ctx.extra["hook_counts"] = hs.counts
    hs.require(["QOperation.calc_proj_physical", "QOperation.calc_proj_physical_with_var"])
