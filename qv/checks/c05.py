"""C05  Physical projection returns the nearest physical object.

Hooks on calc_proj_physical / calc_proj_physical_with_var (always driven with
the iteration history on) judge every execution: termination by criterion,
feasibility, optimality (variational inequality against random physical
points + independent SDP), fixed points, history consistency (Dykstra
recurrences against reference projections).  The driver adds the cross-form
comparisons (both orders, object vs variable vs closure forms, both flags).
"""
import numpy as np

from qv import gen, ref, refopt
from qv.monitor import HookSet

ID = "C05"
RULE = ("input points = physical point + Gaussian noise (1e-3..1e-1), far points (norm up to 1e2), exactly physical and "
        "boundary points, negative-definite points (-c x physical, c in 0.3..50) and the zero vector; 4 types x shapes S1,S3,S2 x outcome counts 2..4 x both projection orders x eps in "
        "{1e-6,1e-8,1e-10,1e-14} x both parametrisation flags; a case is distinct by (type,shape,m,flag,eps,rounded input) "
        "and non-trivial when the input is not already physical (the projection has to move it)")
ANCHORS = [
    "quara/objects/qoperation.py:QOperation.calc_proj_physical",
    "quara/objects/qoperation.py:QOperation.calc_proj_physical_with_var",
    "quara/objects/qoperation.py:QOperation.func_calc_proj_physical.<locals>._func_proj",
    "quara/objects/qoperation.py:QOperation.func_calc_proj_physical_with_var.<locals>._func_proj",
    "quara/objects/qoperation.py:QOperation._is_satisfied_stopping_criterion_birgin_raydan_vectors",
]
REQUIRED_REACH = ANCHORS
REQUIRED_ORACLES = ["feasible:eq", "feasible:ineq", "optimal:variational-inequality", "optimal:sdp-distance", "optimal:reference-dykstra-point",
                    "history:recurrence", "forms:order-independent", "forms:object-vs-var"]
MIN_EVALS = {"quick": 3000, "thorough": 30000}
WATCHDOG = {"quick": 900, "thorough": 3600}
EPSS = [1e-6, 1e-8, 1e-10, 1e-14]
MAX_ITER = 20000


def shards(tier, seed):
    out = []
    n = {"quick": 12, "thorough": 80}[tier]
    for t in refopt.TYPES:
        for shape in ("S1", "S3", "S2"):
            for flag in (True, False):
                big = shape == "S2" and t in ("Gate", "MProcess")
                mid = (shape == "S3" and t in ("Gate", "MProcess")) or (shape == "S2")
                k = max(1, n // 6) if big else max(2, n // 2) if mid else n
                out.append({"type": t, "shape": shape, "flag": flag, "n": k, "weight": k * (40 if big else 6 if mid else 1)})
    return out


def tol(eps, a_norm):
    """The routine stops when the *squared* change of the Dykstra increments
    drops below eps, so its accuracy scale is sigma = sqrt(eps).  Measured on the
    pinned tree (8 configurations x eps x distance 1e-2..1e2): feasibility error
    <= 1.3 sigma and distance to the true nearest point <= 13 sigma, both
    independent of the norm of the input; a 1e-12 relative round-off floor is added."""
    sigma = np.sqrt(eps)
    floor = 1e-12 * (1.0 + a_norm)
    return 30 * sigma + floor, 3000 * sigma + 100 * floor


class Oracle:
    """post-condition shared by the object-level and variable-level hooks"""

    def __init__(self, ctx, t, B, d, m):
        self.ctx, self.t, self.B, self.d, self.m = ctx, t, B, d, m
        self.n_calls = 0
        self.ref_cache = {}

    _geo = {}

    def geometry(self):
        k = (self.t, self.d, self.m)
        if k not in Oracle._geo:
            Oracle._geo[k] = refopt.Geometry(self.t, self.B, self.d, self.m)
        return Oracle._geo[k]

    def judge(self, label, a, p, hist, eps, order, max_iter, rng, want_sdp=True, view=None):
        """view: maps a stacked vector to the coordinates in which the routine
        reports its result (variable-level routine with the flag on drops the
        implied entries), used to compare the history's last x with the result"""
        self.view = view or (lambda s: s)
        ctx, t, B, d, m = self.ctx, self.t, self.B, self.d, self.m
        self.n_calls += 1
        a = np.asarray(a, dtype=np.float64)
        p = np.asarray(p, dtype=np.float64)
        an = float(np.linalg.norm(a))
        tp, tf = tol(eps, an)
        info = {"fn": label, "type": t, "d": d, "m": m, "eps": eps, "order": order, "a_norm": an}
        # --- termination by criterion
        if hist is not None:
            ev = hist["error_value"]
            n_it = len(ev)
            ctx.count("iterations", n_it)
            ctx.extra["max_iterations_seen"] = max(ctx.extra.get("max_iterations_seen", 0), n_it)
            ctx.num("terminates-by-criterion", n_it, max_iter * 0.25, max_iter, key=f"{label}:{t}:iteration-limit-hit", info=info)
            if n_it >= max_iter:
                return  # nothing below is promised for a run that was cut off
        # --- feasibility
        eq, ineq = refopt.violations(t, B, d, m, p)
        ctx.num("feasible:eq", eq, tp, tf, key=f"{label}:{t}:result-violates-eq", info=info)
        ctx.num("feasible:ineq", ineq, tp, tf, key=f"{label}:{t}:result-violates-ineq", info=info)
        # --- optimality: variational inequality  <a-p, z-p> <= tol
        worst = 0.0
        ap = a - p
        for _ in range(50):
            z = refopt.random_physical(t, B, d, m, rng)
            zp = z - p
            v = float(ap @ zp) / (1.0 + np.linalg.norm(ap) + np.linalg.norm(zp))
            worst = max(worst, v)
        ctx.num("optimal:variational-inequality", worst, tp, tf, key=f"{label}:{t}:not-nearest:variational-inequality", info=info)
        # --- optimality: independent references, computed once per input and shared by every form / order
        # (want_sdp=False only means "do not *compute* the SDP for this input": cached solutions are always used)
        ck = a.tobytes()
        refs = self.ref_cache.get(ck)
        if refs is None:
            refs = {}
            if want_sdp:
                refs["sdp"] = refopt.nearest_physical_sdp(t, B, d, m, a)[0]
            if refopt.n_stack(t, d, m) <= 300:
                xr, its, conv = self.geometry().dykstra(a, tol=1e-26, max_iter=60000)
                refs["dykstra"] = xr if conv else None
            if len(self.ref_cache) > 8:
                self.ref_cache.clear()
            self.ref_cache[ck] = refs
        if "sdp" in refs:
            x = refs["sdp"]
            if x is None:
                ctx.skip("optimal:sdp-distance")
            else:
                # the SDP point is feasible: quara's point must not be farther (beyond tolerance) ...
                gap = float(np.linalg.norm(a - p) - np.linalg.norm(a - x))
                # (the interior-point reference is itself only accurate to ~5e-7 relative)
                ctx.num("optimal:sdp-distance", max(gap, 0.0), tp + 2e-6 * (1 + an), tf + 2e-4 * (1 + an),
                        key=f"{label}:{t}:not-nearest:farther-than-sdp-solution", info=dict(info, gap=gap))
                # ... and, the nearest point being unique, must coincide with it
                ctx.num("optimal:sdp-point", float(np.linalg.norm(p - x)), tp + 2e-5 * (1 + an), tf + 2e-3 * (1 + an),
                        key=f"{label}:{t}:not-nearest:differs-from-sdp-solution", info=info)
        # independent high-accuracy Dykstra (small configurations; no solver accuracy floor)
        if "dykstra" in refs:
            if refs["dykstra"] is None:
                ctx.skip("optimal:reference-dykstra-point")
            else:
                ctx.num("optimal:reference-dykstra-point", float(np.linalg.norm(p - refs["dykstra"])), tp, tf,
                        key=f"{label}:{t}:not-nearest:differs-from-reference-dykstra", info=info)
        # --- physical input is a fixed point
        eq_a, ineq_a = refopt.violations(t, B, d, m, a)
        if max(eq_a, ineq_a) <= 1e-13:
            ctx.num("fixed-point", float(np.linalg.norm(p - a)), tp, tf, key=f"{label}:{t}:moves-physical-input", info=info)
        # --- history consistency
        if hist is not None:
            self.history(label, a, p, hist, eps, order, info)

    def history(self, label, a, p, hist, eps, order, info):
        ctx, t, B, d, m = self.ctx, self.t, self.B, self.d, self.m

        def vec(o):
            if o is None:
                return None
            if isinstance(o, np.ndarray):
                return np.asarray(o, dtype=np.float64)
            return np.asarray(o.to_stacked_vector(), dtype=np.float64)

        ps, qs, xs, ys = ([vec(o) for o in hist[k]] for k in ("p", "q", "x", "y"))
        ev = hist["error_value"]
        ok_len = len(ps) == len(qs) == len(xs) == len(ys) == len(ev) + 1
        ctx.truth("history:lengths", ok_len, key=f"{label}:{t}:history-lengths-inconsistent",
                  info=dict(info, lens=[len(ps), len(qs), len(xs), len(ys), len(ev)]))
        if not ok_len or len(xs) < 2:
            return
        sc = 1.0 + float(np.linalg.norm(a))
        ctx.num("history:last-x-is-result", float(np.max(np.abs(self.view(xs[-1]) - self.view(p)))) / sc, 1e-12, 1e-9,
                key=f"{label}:{t}:history-last-x-differs-from-result", info=info)
        ctx.num("history:x0-is-input", float(np.max(np.abs(xs[0] - a))) / sc, 1e-12, 1e-9,
                key=f"{label}:{t}:history-first-x-differs-from-input", info=info)
        first = (lambda s: refopt.proj_eq(t, d, m, s)) if order == "eq_ineq" else (lambda s: refopt.proj_ineq(t, B, d, m, s))
        second = (lambda s: refopt.proj_ineq(t, B, d, m, s)) if order == "eq_ineq" else (lambda s: refopt.proj_eq(t, d, m, s))
        worst_rec = worst_proj = 0.0
        steps = range(len(xs) - 1)
        if len(xs) > 40:  # long traces: head, tail and a stride
            steps = sorted(set(list(range(10)) + list(range(len(xs) - 11, len(xs) - 1)) + list(range(0, len(xs) - 1, max(1, len(xs) // 20)))))
        for k in steps:
            x0, p0, q0 = xs[k], ps[k], qs[k]
            y1, p1, x1, q1 = ys[k + 1], ps[k + 1], xs[k + 1], qs[k + 1]
            worst_rec = max(worst_rec, float(np.max(np.abs(p1 - (x0 + p0 - y1)))), float(np.max(np.abs(q1 - (y1 + q0 - x1)))))
            worst_proj = max(worst_proj, float(np.max(np.abs(y1 - first(x0 + p0)))), float(np.max(np.abs(x1 - second(y1 + q0)))))
        ctx.num("history:recurrence", worst_rec / sc, 1e-11, 1e-8, key=f"{label}:{t}:history-increments-violate-dykstra-recurrence", info=info)
        ctx.num("history:steps-are-projections", worst_proj / sc, 1e-9, 1e-6,
                key=f"{label}:{t}:history-step-is-not-projection-of-corrected-point", info=info)
        # stopping rule: last error below eps, earlier ones not
        evs = [e for e in ev if e is not None]
        if evs:
            ctx.truth("history:stopping-rule", evs[-1] < eps and all(e >= eps for e in evs[:-1]),
                      key=f"{label}:{t}:stopping-rule-inconsistent-with-error-values",
                      info=dict(info, last=evs[-1], n=len(evs), n_below=sum(1 for e in evs if e < eps)))
            ctx.truth("history:first-error-none", ev[0] is None, key=f"{label}:{t}:history-first-error-value-not-none", info=info)


def run_shard(ctx):
    P = ctx.params
    t, shape, flag = P["type"], P["shape"], P["flag"]
    Q = gen.q()
    cls = getattr(Q, t)
    c_sys = gen.make_csys(gen.SHAPES[shape])
    B = gen.basis_of(c_sys)
    d = c_sys.dim
    n = d * d
    hs = HookSet(ctx)
    state = {"oracle": None, "rng": None, "sdp": True}

    def raw_of(s, m):
        s = np.ascontiguousarray(s, dtype=np.float64)
        if t == "State":
            return s.copy()
        if t == "Povm":
            return [v.copy() for v in s.reshape(m, n)]
        if t == "Gate":
            return s.reshape(n, n).copy()
        return [h.copy() for h in s.reshape(m, n, n)]

    # ---- hooks: every execution of the two routines is judged
    def post_obj(result, snap, self, max_iteration=1000, is_iteration_history=False):
        if state["oracle"] is None:
            return
        if is_iteration_history:
            obj, hist = result
        else:
            obj, hist = result, None
        state["oracle"].judge("calc_proj_physical", gen.stacked(self), gen.stacked(obj), hist, self.eps_proj_physical,
                              self.mode_proj_order, max_iteration, state["rng"], want_sdp=state["sdp"])

    def post_var(result, snap, self, var, on_para_eq_constraint=True, max_iteration=1000, is_iteration_history=False):
        if state["oracle"] is None:
            return
        if is_iteration_history:
            v, hist = result
        else:
            v, hist = result, None
        o = state["oracle"]
        a = refopt.stack_from_var(t, d, o.m, var, on_para_eq_constraint)
        p = refopt.stack_from_var(t, d, o.m, v, on_para_eq_constraint)
        o.judge("calc_proj_physical_with_var", a, p, hist, self.eps_proj_physical, self.mode_proj_order, max_iteration,
                state["rng"], want_sdp=state["sdp"],
                view=lambda s, _f=on_para_eq_constraint, _m=o.m: refopt.var_from_stack(t, d, _m, s, _f))

    from quara.objects.qoperation import QOperation

    hs.method(QOperation, "calc_proj_physical", post=post_obj)
    hs.method(QOperation, "calc_proj_physical_with_var", post=post_var)

    try:
        for i in ctx.cases(P["n"]):
            rng = ctx.rng()
            m = int(rng.integers(2, 5)) if t in ("Povm", "MProcess") else 0
            if shape == "S2" and t == "MProcess":
                m = 2
            eps = float(EPSS[i % len(EPSS)] if rng.random() < 0.7 else rng.choice(EPSS))
            kind = str(rng.choice(["near", "near", "far", "far", "physical", "boundary", "negative", "negative"]))
            slow = (i == 0 and shape == "S1" and t in ("Gate", "MProcess"))
            if slow:
                # an input that needs > 1000 Dykstra sweeps (measured: 1000-2300 at distance 100, eps 1e-14): exercises
                # iteration limits above the routine's default of 1000
                kind, eps = "far", 1e-14
            base = refopt.random_physical(t, B, d, m, rng, rank=1 if kind == "boundary" else None)
            if kind == "near":
                s_in = base + float(rng.choice([1e-3, 1e-2, 1e-1])) * rng.standard_normal(base.size)
            elif kind == "far":
                g = rng.standard_normal(base.size)
                s_in = base + g / np.linalg.norm(g) * (100.0 if slow else float(rng.choice([1.0, 10.0, 100.0])))
            elif kind == "negative":
                # every operator negative (semi)definite: the inequality projection sends the point (almost) to zero, the
                # iteration stalls in x while the increments keep changing - hostile to "x did not move" stopping rules
                # (missed seeded change C05-3); occasionally the exact zero vector
                s_in = -float(rng.choice([0.3, 1.0, 5.0, 50.0])) * base if rng.random() < 0.85 else np.zeros_like(base)
            else:
                s_in = base
            if flag:
                # a variable vector with the equality constraint built in denotes a point on the constraint
                var_in = refopt.var_from_stack(t, d, m, s_in, True)
                s_in = refopt.stack_from_var(t, d, m, var_in, True)
            else:
                var_in = s_in.copy()
            O = Oracle(ctx, t, B, d, m)
            state["oracle"], state["rng"] = O, rng
            heavy = shape == "S2" and t in ("Gate", "MProcess")
            state["sdp"] = (not heavy) or (i % 3 == 0)
            nontriv = max(refopt.violations(t, B, d, m, s_in)) > 1e-9
            if nontriv:
                ctx.nontrivial(t, shape, m, flag, eps, s_in)
            if i < 2:
                ctx.sample({"type": t, "shape": shape, "m": m, "flag": flag, "eps": eps, "input_kind": kind,
                            "input_violation_eq_ineq": list(refopt.violations(t, B, d, m, s_in)), "input_norm": float(np.linalg.norm(s_in))})
            results = {}
            for order in ("eq_ineq", "ineq_eq"):
                kw = dict(is_physicality_required=False, on_para_eq_constraint=flag, mode_proj_order=order, eps_proj_physical=eps)
                ok, obj = ctx.attempt(cls, c_sys, raw_of(s_in, m), **kw)
                if not ok:
                    ctx.violation(f"ctor:{t}:" + ctx.exc_key(obj), {})
                    continue
                ok, r = ctx.attempt(obj.calc_proj_physical, max_iteration=MAX_ITER, is_iteration_history=True)
                if not ok:
                    ctx.violation(f"calc_proj_physical:{t}:" + ctx.exc_key(r), {"order": order, "eps": eps})
                    continue
                results[("obj", order)] = gen.stacked(r[0])
                # variable-level routine (judged by its own hook); SDP already done for this input
                state["sdp"] = False
                ok, rv = ctx.attempt(obj.calc_proj_physical_with_var, var_in.copy(), on_para_eq_constraint=flag,
                                     max_iteration=MAX_ITER, is_iteration_history=True)
                if not ok:
                    ctx.violation(f"calc_proj_physical_with_var:{t}:" + ctx.exc_key(rv), {"order": order, "eps": eps, "flag": flag})
                else:
                    results[("var", order)] = refopt.stack_from_var(t, d, m, rv[0], flag)
                # closures
                ok, f1 = ctx.attempt(obj.func_calc_proj_physical, on_para_eq_constraint=flag, mode_proj_order=order, max_iteration=MAX_ITER)
                if ok:
                    ok, v1 = ctx.attempt(f1, var_in.copy())
                    if ok:
                        results[("closure-obj", order)] = refopt.stack_from_var(t, d, m, v1, flag)
                    else:
                        ctx.violation(f"func_calc_proj_physical:{t}:" + ctx.exc_key(v1), {"order": order, "flag": flag})
                ok, f2 = ctx.attempt(obj.func_calc_proj_physical_with_var, on_para_eq_constraint=flag, mode_proj_order=order, max_iteration=MAX_ITER)
                if ok:
                    ok, v2 = ctx.attempt(f2, var_in.copy())
                    if ok:
                        results[("closure-var", order)] = refopt.stack_from_var(t, d, m, v2, flag)
                    else:
                        ctx.violation(f"func_calc_proj_physical_with_var:{t}:" + ctx.exc_key(v2), {"order": order, "flag": flag})
            state["oracle"] = None
            # ---- cross-form agreement (each form is within tol of the unique nearest point)
            an = float(np.linalg.norm(s_in))
            tp, tf = tol(eps, an)
            tp, tf = 4 * tp, 4 * tf
            if ("obj", "eq_ineq") in results and ("obj", "ineq_eq") in results:
                ctx.num("forms:order-independent", float(np.linalg.norm(results[("obj", "eq_ineq")] - results[("obj", "ineq_eq")])), tp, tf,
                        key=f"calc_proj_physical:{t}:result-depends-on-projection-order", info={"eps": eps, "flag": flag, "a_norm": an})
            for order in ("eq_ineq", "ineq_eq"):
                if ("obj", order) in results:
                    for form in ("var", "closure-obj", "closure-var"):
                        if (form, order) in results:
                            nm = "forms:object-vs-var" if form == "var" else f"forms:object-vs-{form}"
                            # same algorithm on the same numbers: should agree far below the stopping accuracy
                            ctx.num(nm, float(np.linalg.norm(results[("obj", order)] - results[(form, order)])), tp, tf,
                                    key=f"calc_proj_physical:{t}:{form}-form-differs-from-object-form:flag={flag}",
                                    info={"eps": eps, "order": order, "a_norm": an})
                # A closure only delegates to the routine of the same level with the parameters it captured (flag, order,
                # iteration limit): on the same input it must reproduce that routine's result exactly (free entries
                # compared; 1e-12 relative allowed).  This is what pins the captured max_iteration / order / threshold:
                # a closure that silently runs with other parameters is still "accurate to the threshold" on easy inputs
                # (missed seeded change C05-4).
                vw = lambda x: refopt.var_from_stack(t, d, m, x, flag)  # noqa: E731
                for direct, clo in (("var", "closure-var"), ("obj", "closure-obj")):
                    if (direct, order) in results and (clo, order) in results:
                        e = float(np.max(np.abs(vw(results[(direct, order)]) - vw(results[(clo, order)])))) / (1.0 + an)
                        ctx.num(f"forms:{clo}-reproduces-{direct}-routine", e, 1e-12, 1e-9,
                                key=f"calc_proj_physical:{t}:{clo}-does-not-reproduce-the-{direct}-level-routine-with-the-captured-parameters:flag={flag}",
                                info={"eps": eps, "order": order, "a_norm": an, "max_iteration": MAX_ITER})
    finally:
        hs.uninstall()
    ctx.extra["hook_counts"] = hs.counts
    hs.require(["QOperation.calc_proj_physical", "QOperation.calc_proj_physical_with_var"])
