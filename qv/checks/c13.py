"""C13  Results depend only on arguments: no hidden state, no operand mutation.

Shape: history + executable model.  The model is "every operation is a pure
function of the values of its arguments".

A driver executes random operation histories over a shared pool (State / Povm /
Gate / MProcess objects on three one-system composite systems and a two-qubit
one, multinomial distributions, projection closures, tomographies, and re-used
loss / algorithm / estimator objects).  For every step

  (a) twin      the same operation is evaluated on a FRESH TWIN: operands are
                rebuilt from the recorded raw arrays into brand-new
                ElementalSystem / CompositeSystem / objects (new loss, algorithm
                and estimator instances), and result(pool) == result(twin) is
                required (bitwise expected; 1e-13 pass / 1e-9 fail, relative);
  (b) purity    the digest of every operand and of every OTHER pool member
                (objects derived earlier, composite systems, tomographies,
                datasets) is unchanged across the step.  Constructors are exempt
                and so are the documented configuration updates of loss /
                algorithm objects (verdict (a) covers those).  Hooks on a broad
                set of quara functions act as a free-rider purity monitor
                (pre = digest of the arguments, post = compare) so that a
                mutation is attributed to the innermost mutating function;
  (c) memo      identical (operation, argument digests) seen again later in the
                history give the same result.

Copies: in-place writes to a copy must not move the original and vice versa.
Matrix bases: every attempt to modify one must raise or have no effect.

The oracle never decides what the *right* value is (that is C01..C12's
business); it only demands that the value is a function of the arguments.
Exceptions are events: an operation that raises in the pool must raise in the
twin as well.

A mismatch of an estimation with re-used objects is named by comparing the
re-used loss (value, gradient at a test point) and the re-used algorithm (its
projection at test points) with brand-new ones configured by the same call:
`reuse:<owner class>:func_proj-cached:later-{option|tomography}-ignored`,
`reuse:<loss class>:stale:<attributes that differ>`.

Limits.  Interleavings are sampled.  Pool and twin live in one process: hidden
state kept in module / class attributes is seen only when it makes results
change over time or differ between composite systems (the twin of a cache
deletion is therefore not executed: it would consume such state).  Inside the
hooks the digest of a CompositeSystem is taken once per step (cost); a basis
modified by an inner function is found by the sweep at the end of the step and
attributed to the step.  A twin shares a CompositeSystem instance between
operands exactly where the pool does (quara compares composite systems by
identity in `+`/`-`; identity differences are not the property's subject).
"""
import contextlib
import inspect
import io
import types

import numpy as np

from qv import gen, ref
from qv.monitor import HookSet, digest

ID = "C13"
RULE = ("random operation histories (quick 40 / thorough 120 steps) over a shared pool: State/Povm/Gate/MProcess on "
        "qubit (Pauli basis), qubit (rotated orthonormal basis), qutrit and two-qubit systems, physical and perturbed, both "
        "parametrisation flags; 3 tomographies with 2 datasets each; re-used loss/algorithm/estimator objects; alphabet: "
        "query, convert, proj, closure (created earlier, called later), arith, compose, tensor, copy + in-place writes, "
        "cache deletion/access per CompositeSystem cache, Settings.set_atol windows, estimation (A/B/A configuration "
        "patterns over loss class, weighting mode, algorithm class, constraint options, tomography, dataset; sequences vs "
        "each dataset alone), multinomial distributions, matrix-basis modification attempts; a case is one history, "
        "distinct by (flavour, operation sequence, rounded base parameters) and non-trivial when it contains at least one "
        "state-changing event (cache deletion, atol window, re-used estimation object, copy write) followed by further steps")
ANCHORS = [
    "quara/objects/composite_system.py:CompositeSystem.delete_dict_from_hs_to_choi",
    "quara/objects/composite_system.py:CompositeSystem.delete_dict_from_choi_to_hs",
    "quara/objects/composite_system.py:CompositeSystem.delete_basis_T_sparse",
    "quara/objects/composite_system.py:CompositeSystem.delete_basisconjugate_sparse",
    "quara/objects/composite_system.py:CompositeSystem.delete_basisconjugate_basis_sparse",
    "quara/objects/composite_system.py:CompositeSystem.delete_basis_basisconjugate_T_sparse",
    "quara/objects/composite_system.py:CompositeSystem.delete_basis_basisconjugate_T_sparse_from_1",
    "quara/objects/composite_system.py:CompositeSystem.delete_basishermitian_basis_T_from_1",
    "quara/objects/composite_system.py:CompositeSystem._calc_basis_sparse",
    "quara/objects/composite_system.py:CompositeSystem._calc_basis_basisconjugate_sparse",
    "quara/objects/matrix_basis.py:MatrixBasis.__init__",
    "quara/objects/matrix_basis.py:SparseMatrixBasis.__init__",
    "quara/objects/qoperation.py:QOperation.copy",
    "quara/objects/mprocess.py:MProcess.copy",
    "quara/objects/mprocess.py:MProcess.calc_proj_eq_constraint_with_var",
    "quara/objects/multinomial_distribution.py:MultinomialDistribution.__init__",
    "quara/protocol/qtomography/standard/loss_minimization_estimator.py:LossMinimizationEstimator.calc_estimate_sequence",
    "quara/minimization_algorithm/projected_gradient_descent.py:ProjectedGradientDescent.set_constraint_from_standard_qt_and_option",
    "quara/loss_function/weighted_probability_based_squared_error.py:WeightedProbabilityBasedSquaredError._set_weights_by_mode",
    "quara/loss_function/weighted_relative_entropy.py:WeightedRelativeEntropy._set_weights_by_mode",
    "quara/loss_function/standard_qtomography_based_weighted_probability_based_squared_error.py:"
    "StandardQTomographyBasedWeightedProbabilityBasedSquaredError._calc_extend_weight_matrix",
]
REQUIRED_REACH = ANCHORS
CLASSES = ["query", "convert", "proj", "closure", "arith", "compose", "tensor", "copy", "cache", "atol", "estimate",
           "estimate-seq", "dist", "basis"]
# minimum number of executed steps per operation class (whole run); fewer => inconclusive
MIN_CLASS = {"quick": {"query": 300, "convert": 300, "proj": 300, "closure": 200, "arith": 150, "compose": 300,
                       "tensor": 60, "copy": 200, "cache": 300, "atol": 150, "estimate": 300, "estimate-seq": 60,
                       "dist": 100, "basis": 100},
             "thorough": {}}
MIN_CLASS["thorough"] = {k: 20 * v for k, v in MIN_CLASS["quick"].items()}  # 24 x the steps of the quick tier
REQUIRED_ORACLES = ["twin:" + c for c in CLASSES if c != "basis"] + [
    "purity:operands", "purity:pool", "purity:hook", "memo", "copy:independent", "basis:immutable"]
MIN_EVALS = {"quick": 50000, "thorough": 500000}
WATCHDOG = {"quick": 900, "thorough": 3600}
ASSUMPTIONS = [
    "a twin rebuilt from the publicly readable raw arrays and flags of an object (vec / vecs / hs / hss / ps, shape, "
    "nums_local_outcomes, constraint flags, eps_*) denotes the same value as the object",
    "the global tolerance Settings.get_atol() is an (implicit) argument: an operation inside a set_atol(x) window is "
    "compared with its twin inside the same window; the window is closed before the next step",
    "sampling operations are given the same integer seed in pool and twin",
]

TOL_PASS, TOL_FAIL = 1e-13, 1e-9
QTYPES = ("State", "Povm", "Gate", "MProcess")
# name -> (dim, basis kind); the rotated basis makes same-dimension systems with different bases coexist
ESYS = {0: (2, "std"), 1: (2, "rot"), 2: (3, "std")}
CSYS = {"A": (0,), "B": (1,), "C": (2,), "AB": (0, 1)}
FLAVOURS = {"AB": ["A", "B", "AB"], "AC": ["A", "C"], "BC": ["B", "C"]}
CACHES = ["dict_from_hs_to_choi", "dict_from_choi_to_hs", "basis_T_sparse", "basisconjugate_sparse",
          "basisconjugate_basis_sparse", "basis_basisconjugate_T_sparse", "basis_basisconjugate_T_sparse_from_1",
          "basishermitian_basis_T_from_1"]
CHEAP_CACHES = ["basis_T_sparse", "basisconjugate_sparse"]
HOOK_BUDGET = 200  # digest-based hook evaluations per step (estimation inner loops would otherwise dominate the cost)


def shards(tier, seed):
    n_hist, steps, n_shards = {"quick": (300, 40, 48), "thorough": (2400, 120, 96)}[tier]
    out = []
    fl = list(FLAVOURS)
    for s in range(n_shards):
        k = n_hist // n_shards + (1 if s < n_hist % n_shards else 0)
        if k:
            out.append({"flavour": fl[s % len(fl)], "n": k, "steps": steps, "weight": k})
    return out


# ====================================================================== values


def _is_q(x, name):
    return type(x).__name__ == name


def names_of(c_sys):
    return tuple(e.name for e in c_sys.elemental_systems)


QKW = ("is_physicality_required", "is_estimation_object", "on_para_eq_constraint", "on_algo_eq_constraint",
       "on_algo_ineq_constraint", "mode_proj_order", "eps_proj_physical", "eps_truncate_imaginary_part")


def qop_spec(obj):
    """value snapshot of a State / Povm / Gate / MProcess read through public attributes"""
    t = type(obj).__name__
    cs = obj.composite_system
    # operands that share one CompositeSystem INSTANCE in the pool share one in the twin, and operands on distinct (if
    # equal) instances get distinct ones: quara compares composite systems by identity in places, and differences of
    # Python-level identity are not what the property is about
    cid = 0 if _PRIMARY.get(id(cs)) is cs else id(cs)
    sp = {"t": t, "names": names_of(cs), "cid": cid, "kw": {k: getattr(obj, k) for k in QKW}}
    if t == "State":
        sp["raw"] = np.array(obj.vec, copy=True)
    elif t == "Povm":
        sp["raw"] = [np.array(v, copy=True) for v in obj.vecs]
        sp["nlo"] = list(obj.nums_local_outcomes)
    elif t == "Gate":
        sp["raw"] = np.array(obj.hs, copy=True)
    elif t == "MProcess":
        sp["raw"] = [np.array(h, copy=True) for h in obj.hss]
        sp["shape"] = tuple(obj.shape)
        sp["eps_zero"] = obj.eps_zero
        sp["mode_sampling"] = obj.mode_sampling
    else:
        raise TypeError(t)
    return sp


def qop_build(sp, world):
    """brand-new object with the recorded value in `world`"""
    Q = world.Q
    c = world.csys(sp["names"], sp.get("cid", 0))
    t = sp["t"]
    kw = dict(sp["kw"])
    if t == "State":
        return Q.State(c, np.array(sp["raw"], copy=True), **kw)
    if t == "Gate":
        return Q.Gate(c, np.array(sp["raw"], copy=True), **kw)
    if t == "Povm":
        o = Q.Povm(c, [np.array(v, copy=True) for v in sp["raw"]], **kw)
        if list(sp["nlo"]) != list(o.nums_local_outcomes):
            # tensor products record the local outcome counts after construction; no public setter exists
            o._nums_local_outcomes = list(sp["nlo"])
        return o
    if t == "MProcess":
        return Q.MProcess(c, [np.array(h, copy=True) for h in sp["raw"]], shape=tuple(sp["shape"]), mode_sampling=False,
                          eps_zero=sp["eps_zero"], **kw)
    raise TypeError(t)


class Leafs:
    """flattened canonical view of a result: exact leaves and numeric leaves"""

    def __init__(self):
        self.items = []

    def ex(self, v):
        self.items.append(("x", v))

    def num(self, a):
        a = np.asarray(a)
        self.items.append(("n", np.array(a, dtype=np.complex128 if np.iscomplexobj(a) else np.float64, copy=True)))


_TIME_KEYS = {"_computation_time", "_computation_times", "computation_time", "computation_times"}


def canon(x, out, depth=0):
    if depth > 10:
        out.ex("<deep>")
        return
    if x is None or isinstance(x, (bool, str, bytes)):
        out.ex(x)
        return
    if isinstance(x, (np.bool_,)):
        out.ex(bool(x))
        return
    if isinstance(x, (int, np.integer)):
        out.ex(int(x))
        return
    if isinstance(x, (float, complex, np.floating, np.complexfloating)):
        out.num(np.asarray(x))
        return
    if isinstance(x, np.ndarray):
        if x.dtype == object:
            out.ex(("objarray", x.shape))
            for v in x.ravel():
                canon(v, out, depth + 1)
        else:
            out.ex(("array", "complex" if np.iscomplexobj(x) else "real", tuple(x.shape)))
            out.num(x)
        return
    if hasattr(x, "toarray") and hasattr(x, "tocsr"):
        a = x.toarray()
        out.ex(("sparse", tuple(a.shape)))
        out.num(a)
        return
    if isinstance(x, (list, tuple)):
        out.ex(("seq", len(x)))
        for v in x:
            canon(v, out, depth + 1)
        return
    if isinstance(x, dict):
        ks = sorted(x, key=repr)
        out.ex(("dict", tuple(repr(k) for k in ks)))
        for k in ks:
            canon(x[k], out, depth + 1)
        return
    if isinstance(x, (types.FunctionType, types.MethodType, types.BuiltinFunctionType, type)):
        out.ex(("callable", getattr(x, "__qualname__", "?")))
        return
    tn = type(x).__name__
    if tn in QTYPES:
        sp = qop_spec(x)
        out.ex((tn, sp["names"], tuple(sorted((k, repr(v)) for k, v in sp["kw"].items() if not k.startswith("eps")))))
        canon([sp["kw"]["eps_proj_physical"], sp["kw"]["eps_truncate_imaginary_part"]], out, depth + 1)
        canon(sp["raw"], out, depth + 1)
        if tn == "Povm":
            out.ex(tuple(sp["nlo"]))
        if tn == "MProcess":
            out.ex((sp["shape"], bool(sp["mode_sampling"])))
            canon(sp["eps_zero"], out, depth + 1)
        return
    if tn == "MultinomialDistribution":
        out.ex((tn, tuple(x.shape)))
        canon(x.ps, out, depth + 1)
        canon(x.eps_zero, out, depth + 1)
        return
    if tn == "StateEnsemble":
        out.ex(tn)
        canon(list(x.states), out, depth + 1)
        canon(x.prob_dist, out, depth + 1)
        canon(x.eps_zero, out, depth + 1)
        return
    if tn == "CompositeSystem":
        out.ex((tn, names_of(x)))
        return
    if tn in ("MatrixBasis", "SparseMatrixBasis", "VectorizedMatrixBasis"):
        out.ex(tn)
        canon([ref.dense(b) for b in x], out, depth + 1)
        return
    if hasattr(x, "estimated_var_sequence"):
        out.ex("estimation-result")
        canon(list(x.estimated_var_sequence), out, depth + 1)
        return
    d = getattr(x, "__dict__", None)
    if d is None:
        out.ex((tn, repr(x)[:80]))
        return
    out.ex(("object", tn))
    for k in sorted(d):
        if k in _TIME_KEYS:
            continue
        out.ex(k)
        canon(d[k], out, depth + 1)


def canon_of(x):
    o = Leafs()
    canon(x, o)
    return o.items


def compare(a, b):
    """(structure_equal, relative error, detail) of two canonical views"""
    if len(a) != len(b):
        return False, float("inf"), f"{len(a)} vs {len(b)} leaves"
    err = 0.0
    for (ka, va), (kb, vb) in zip(a, b):
        if ka != kb:
            return False, float("inf"), "leaf kinds differ"
        if ka == "x":
            if va != vb:
                return False, float("inf"), f"{va!r} vs {vb!r}"[:160]
            continue
        if va.shape != vb.shape:
            return False, float("inf"), f"shape {va.shape} vs {vb.shape}"
        if va.size == 0 or np.array_equal(va, vb, equal_nan=True):
            continue
        fa, fb = np.isfinite(va), np.isfinite(vb)
        if not np.array_equal(fa, fb) or not np.array_equal(va[~fa], vb[~fb], equal_nan=True):
            return False, float("inf"), "non-finite entries differ"
        if fa.any():
            sc = max(1.0, float(np.max(np.abs(va[fa]))), float(np.max(np.abs(vb[fb]))))
            err = max(err, float(np.max(np.abs(va[fa] - vb[fb]))) / sc)
    return True, err, ""


def vsig(x, depth=0, seen=None):
    """world-independent value signature (ElementalSystem ids and CompositeSystem caches excluded, closures expanded);
    used only to NAME the stale attribute after a pool/twin mismatch of a re-used loss / algorithm object"""
    seen = seen or set()
    if depth > 8:
        return "<deep>"
    if x is None or isinstance(x, (bool, int, float, complex, str, bytes, np.generic)):
        return repr(x)
    if isinstance(x, np.ndarray):
        return ("a", str(x.dtype), x.shape, np.ascontiguousarray(x).tobytes() if x.dtype != object else
                tuple(vsig(v, depth + 1, seen) for v in x.ravel()))
    if hasattr(x, "toarray") and hasattr(x, "tocsr"):
        return vsig(np.asarray(x.toarray()), depth + 1, seen)
    if isinstance(x, (list, tuple)):
        return tuple(vsig(v, depth + 1, seen) for v in x)
    if isinstance(x, dict):
        return tuple((repr(k), vsig(x[k], depth + 1, seen)) for k in sorted(x, key=repr))
    if isinstance(x, types.FunctionType):
        cells = ()
        if x.__closure__:
            cells = tuple((n, vsig(_cell(c), depth + 1, seen)) for n, c in zip(x.__code__.co_freevars, x.__closure__))
        return ("fn", x.__qualname__, cells)
    if isinstance(x, (types.MethodType, types.BuiltinFunctionType, type)):
        return ("callable", getattr(x, "__qualname__", "?"))
    if id(x) in seen:
        return "<cycle>"
    seen = seen | {id(x)}
    tn = type(x).__name__
    d = getattr(x, "__dict__", None)
    if d is None:
        return (tn, repr(x)[:60])
    skip = set()
    if tn == "ElementalSystem":
        skip = {"_system_id"}
    if tn == "CompositeSystem":
        skip = {k for k in d if k.startswith("_basis_") or k.startswith("_dict_") or k.startswith("_basisconjugate")
                or k.startswith("_basishermitian")}
    return (tn, tuple((k, vsig(d[k], depth + 1, seen)) for k in sorted(d) if k not in skip and k not in _TIME_KEYS))


def _cell(c):
    try:
        return c.cell_contents
    except ValueError:
        return None


# ====================================================================== worlds

_BASIS_RAW = {}
_PRIMARY = {}   # id -> CompositeSystem of the current pool world


def basis_raw(name):
    """dense matrices of the local basis of elemental system `name` (data, computed once per process)"""
    if name not in _BASIS_RAW:
        dim, kind = ESYS[name]
        std = [np.array(ref.dense(b), copy=True) for b in gen.local_basis(dim, "std")]
        if kind == "rot":
            nn = len(std) - 1
            g = np.random.default_rng(1313 + dim)
            R, _ = np.linalg.qr(g.standard_normal((nn, nn)))
            std = [std[0]] + [sum(R[i, j] * std[1 + j] for j in range(nn)) for i in range(nn)]
        _BASIS_RAW[name] = std
    return [np.array(b, copy=True) for b in _BASIS_RAW[name]]


class World:
    """brand-new ElementalSystems / CompositeSystems (built lazily) from the recorded basis arrays"""

    def __init__(self, Q, primary=False):
        self.Q = Q
        self.es = {}
        self.cs = {}
        self.primary = primary
        if primary:
            _PRIMARY.clear()

    def esys(self, name):
        e = self.es.get(name)
        if e is None:
            e = self.es[name] = self.Q.ElementalSystem(name, self.Q.mb.MatrixBasis(basis_raw(name)))
        return e

    def csys(self, names, cid=0):
        names = tuple(names)
        key = names if cid == 0 else (names, cid)
        c = self.cs.get(key)
        if c is None:
            c = self.cs[key] = self.Q.CompositeSystem([self.esys(n) for n in names])
            if self.primary and cid == 0:
                _PRIMARY[id(c)] = c
        return c


def quara_names():
    Q = gen.q()
    from quara.loss_function.standard_qtomography_based_weighted_probability_based_squared_error import (
        StandardQTomographyBasedWeightedProbabilityBasedSquaredError as FSE,
        StandardQTomographyBasedWeightedProbabilityBasedSquaredErrorOption as FSEO)
    from quara.loss_function.standard_qtomography_based_weighted_relative_entropy import (
        StandardQTomographyBasedWeightedRelativeEntropy as FRE,
        StandardQTomographyBasedWeightedRelativeEntropyOption as FREO)
    from quara.loss_function.weighted_probability_based_squared_error import (
        WeightedProbabilityBasedSquaredError as SE, WeightedProbabilityBasedSquaredErrorOption as SEO)
    from quara.loss_function.weighted_relative_entropy import WeightedRelativeEntropy as RE, WeightedRelativeEntropyOption as REO
    from quara.minimization_algorithm.projected_fast_iterative_shrinkage_thresholding_algorithm import (
        ProjectedFastIterativeShrinkageThresholdingAlgorithm as PF,
        ProjectedFastIterativeShrinkageThresholdingAlgorithmOption as PFO)
    from quara.minimization_algorithm.projected_gradient_descent_backtracking import (
        ProjectedGradientDescentBacktracking as PB, ProjectedGradientDescentBacktrackingOption as PBO)
    from quara.minimization_algorithm.projected_gradient_descent_with_momentum import (
        ProjectedGradientDescentWithMomentum as PM, ProjectedGradientDescentWithMomentumOption as PMO)
    from quara.objects import operators
    from quara.objects.multinomial_distribution import MultinomialDistribution
    from quara.objects.state_ensemble import StateEnsemble
    from quara.protocol.qtomography.standard.loss_minimization_estimator import LossMinimizationEstimator
    from quara.protocol.qtomography.standard.standard_povmt import StandardPovmt
    from quara.protocol.qtomography.standard.standard_qmpt import StandardQmpt
    from quara.protocol.qtomography.standard.standard_qpt import StandardQpt
    from quara.protocol.qtomography.standard.standard_qst import StandardQst
    from quara.settings import Settings
    from quara.utils import matrix_util

    Q.LOSS = {"FSE": (FSE, FSEO), "FRE": (FRE, FREO), "SE": (SE, SEO), "RE": (RE, REO)}
    Q.ALGO = {"PB": (PB, PBO), "PM": (PM, PMO), "PF": (PF, PFO)}
    Q.QT = {"qst": StandardQst, "povmt": StandardPovmt, "qpt": StandardQpt, "qmpt": StandardQmpt}
    Q.operators, Q.MD, Q.StateEnsemble, Q.Estimator, Q.Settings, Q.mutil = (
        operators, MultinomialDistribution, StateEnsemble, LossMinimizationEstimator, Settings, matrix_util)
    return Q


@contextlib.contextmanager
def atol_window(Q, x):
    """Settings.set_atol(x) ... restore (always restored)"""
    if x is None:
        yield
        return
    old = Q.Settings.get_atol()
    Q.Settings.set_atol(float(x))
    try:
        yield
    finally:
        Q.Settings.set_atol(old)


@contextlib.contextmanager
def quiet():
    with contextlib.redirect_stdout(io.StringIO()):
        yield


# ================================================================ purity hooks


class Mon:
    """state shared by the free-rider purity hooks"""

    def __init__(self, ctx):
        self.ctx = ctx
        self.events = 0     # mutation events reported by hooks (innermost function first)
        self.budget = HOOK_BUDGET
        self.skipped = 0
        self.cs_cache = {}

    def begin_step(self):
        self.budget = HOOK_BUDGET
        self.cs_cache = {}

    def cs_digest(self, cs, cache=None):
        cache = self.cs_cache if cache is None else cache
        e = cache.get(id(cs))
        if e is None or e[0] is not cs:
            e = cache[id(cs)] = (cs, digest(cs))
        return e[1]

    def hdigest(self, v, cache=None):
        """monitor.digest, except that the digest of a CompositeSystem (two thirds of the cost of every object digest) is
        taken once per step and instance inside the hooks; the sweep at the end of every step digests the composite
        systems afresh, so a modified basis is still found (attributed to the step, not to the innermost function)"""
        tn = type(v).__name__
        if tn == "CompositeSystem":
            return self.cs_digest(v, cache)
        d = getattr(v, "__dict__", None)
        if d is not None and "_composite_system" in d:
            dd = dict(d)
            cs = dd.pop("_composite_system")
            return digest((tn, dd, self.cs_digest(cs, cache)))
        return digest(v)


# arguments that are documented to be (re)configured by the call: not operands in the sense of the property
EXEMPT = {
    "LossMinimizationEstimator.calc_estimate": {"loss", "algo"},
    "LossMinimizationEstimator.calc_estimate_sequence": {"loss", "algo"},
}
SELF_CONFIG = {"set_from_standard_qtomography_option_data", "_set_weights_by_mode", "set_constraint_from_standard_qt_and_option",
               "set_from_loss", "set_from_option", "set_prob_dists_q", "set_weight_matrices", "set_weights",
               "set_func_prob_dists_from_standard_qt", "set_func_gradient_prob_dists_from_standard_qt",
               "set_func_hessian_prob_dists_from_standard_qt"}

Q_METHODS = [
    "is_physical", "is_eq_constraint_satisfied", "is_ineq_constraint_satisfied", "is_trace_one", "is_hermitian",
    "is_positive_semidefinite", "is_identity_sum", "is_tp", "is_cp", "is_sum_tp", "calc_eigenvalues", "to_var",
    "to_stacked_vector", "to_density_matrix", "to_density_matrix_with_sparsity", "matrices", "matrices_with_sparsity",
    "matrix", "matrix_with_sparsity", "vec", "hs", "to_choi_matrix", "to_choi_matrix_with_dict",
    "to_choi_matrix_with_sparsity", "to_kraus_matrices", "to_process_matrix", "convert_basis", "convert_to_comp_basis",
    "generate_from_var", "generate_mprocess", "to_povm", "get_basis", "copy", "_copy", "generate_zero_obj",
    "generate_origin_obj", "calc_gradient", "calc_proj_eq_constraint", "calc_proj_ineq_constraint",
    "calc_proj_eq_constraint_with_var", "calc_proj_ineq_constraint_with_var", "calc_proj_physical",
    "calc_proj_physical_with_var", "func_calc_proj_eq_constraint", "func_calc_proj_ineq_constraint",
    "func_calc_proj_eq_constraint_with_var", "func_calc_proj_ineq_constraint_with_var", "func_calc_proj_physical",
    "func_calc_proj_physical_with_var", "convert_var_to_stacked_vector", "convert_stacked_vector_to_var",
    "__add__", "__sub__", "__mul__", "__rmul__", "__truediv__", "_add_vec", "_sub_vec", "_mul_vec", "_truediv_vec",
]
MODULE_FUNCS = {
    "state_mod": ["to_density_matrix_from_vec", "to_vec_from_density_matrix_with_sparsity", "to_density_matrix_from_var",
                  "to_var_from_density_matrix", "convert_var_to_vec", "convert_var_to_state", "convert_vec_to_var"],
    "povm_mod": ["to_matrices_from_vecs", "to_vec_from_matrix_with_sparsity", "to_vecs_from_matrices_with_sparsity",
                 "to_matrices_from_var", "to_var_from_matrices", "convert_var_to_vecs", "convert_var_to_povm",
                 "convert_vecs_to_var"],
    "gate_mod": ["is_tp", "is_cp", "to_choi_from_hs", "to_choi_from_hs_with_dict", "to_choi_from_hs_with_sparsity",
                 "to_hs_from_choi", "to_hs_from_choi_with_dict", "to_hs_from_choi_with_sparsity",
                 "to_kraus_matrices_from_hs", "to_hs_from_kraus_matrices", "to_process_matrix_from_hs", "to_choi_from_var",
                 "to_var_from_choi", "convert_var_to_hs", "convert_var_to_gate", "convert_hs_to_var", "is_hp", "convert_hs"],
    "mprocess_mod": ["convert_hss_to_var", "convert_var_to_hss", "convert_var_to_mprocess"],
    "operators": ["tensor_product", "compose_qoperations", "_tensor_product", "_compose_qoperations",
                  "_compose_qoperations_MProcess_MProcess", "_compose_qoperations_MProcess_State",
                  "_compose_qoperations_Povm_MProcess", "_tensor_product_State_State", "_tensor_product_Povm_Povm",
                  "_tensor_product_Gate_Gate", "_tensor_product_MProcess_Gate", "_tensor_product_Gate_MProcess",
                  "_tensor_product_MProcess_MProcess", "_tensor_product_hs_hs"],
    "mb": ["convert_vec", "calc_matrix_expansion_coefficient", "calc_hermitian_matrix_expansion_coefficient_hermitian_basis",
           "calc_mat_from_coefficient_basis"],
    "mutil": ["truncate_hs", "truncate_and_normalize", "replace_prob_dist", "calc_covariance_mat", "calc_permutation_matrix",
              "convert_list_by_permutation_matrix", "truncate_imaginary_part", "truncate_computational_fluctuation",
              "calc_se", "calc_mse_prob_dists", "calc_left_inv", "calc_direct_sum", "calc_conjugate", "flatten"],
}
CSYS_METHODS = ["basis_basisconjugate"] + CACHES + ["delete_" + c for c in CACHES]
QT_METHODS = ["calc_matA", "calc_vecB", "calc_prob_dists", "calc_prob_dist", "generate_empty_estimation_obj_with_setting_info",
              "convert_var_to_qoperation", "num_outcomes", "is_fullrank_matA"]
MD_METHODS = ["marginalize", "conditionalize", "execute_random_sampling", "__getitem__"]


def _argnames(fn, nargs, kwargs):
    try:
        ps = list(inspect.signature(fn).parameters.values())
    except (TypeError, ValueError):
        ps = []
    out = []
    k = 0
    for i in range(nargs):
        if k < len(ps) and ps[k].kind == inspect.Parameter.VAR_POSITIONAL:
            out.append(f"{ps[k].name}[{i - k}]")
        elif k < len(ps):
            out.append(ps[k].name)
            k += 1
        else:
            out.append(f"arg{i}")
    return out + sorted(kwargs)


def install_hooks(ctx, Q):
    hs = HookSet(ctx)
    mon = Mon(ctx)

    def mk(label, orig, exempt):
        def pre(*args, **kw):
            if mon.budget <= 0:
                mon.skipped += 1
                return None
            mon.budget -= 1
            names = _argnames(orig, len(args), kw)
            vals = list(args) + [kw[k] for k in sorted(kw)]
            return mon.events, names, [None if n in exempt else mon.hdigest(v) for n, v in zip(names, vals)]

        def check(snap, args, kw):
            if snap is None:
                return
            ev0, names, before = snap
            vals = list(args) + [kw[k] for k in sorted(kw)]
            bad = [n for n, v, d in zip(names, vals, before) if d is not None and mon.hdigest(v) != d]
            if not bad:
                ctx.truth("purity:hook", True)
                return
            if mon.events > ev0:
                ctx.count("hook:mutation-attributed-to-inner-function")
                return
            mon.events += 1
            for n in bad:
                ctx.truth("purity:hook", False, key=f"mutates-operand:{label}:{n.split('[')[0]}",
                          info={"function": label, "argument": n})

        def post(result, snap, *args, **kw):
            check(snap, args, kw)

        def on_exc(exc, snap, *args, **kw):
            check(snap, args, kw)

        return pre, post, on_exc

    def method(cls, name, exempt=(), allow_property=False):
        try:
            raw = inspect.getattr_static(cls, name)
        except AttributeError:
            return
        if isinstance(raw, property) and not allow_property:
            return  # attribute reads (State.vec, Gate.hs, ...) are far too frequent to digest
        fn = raw.__func__ if isinstance(raw, (staticmethod, classmethod)) else (raw.fget if isinstance(raw, property) else raw)
        if not callable(fn):
            return
        label = f"{cls.__name__}.{name}"
        ex = set(exempt) | EXEMPT.get(label, set())
        if name in SELF_CONFIG:
            ex.add("self")
        pre, post, on_exc = mk(label, fn, ex)
        hs.method(cls, name, pre=pre, post=post, on_exc=on_exc, label=label)

    for cls in (Q.State, Q.Povm, Q.Gate, Q.MProcess):
        for name in Q_METHODS:
            if hasattr(cls, name):
                method(cls, name)
    for modname, names in MODULE_FUNCS.items():
        mod = getattr(Q, modname)
        for name in names:
            fn = getattr(mod, name, None)
            if fn is None or not isinstance(fn, types.FunctionType):
                continue
            label = f"{mod.__name__.split('.')[-1]}.{name}"
            pre, post, on_exc = mk(label, fn, EXEMPT.get(label, set()))
            hs.function(mod, name, pre=pre, post=post, on_exc=on_exc, label=label)
    for name in CSYS_METHODS:
        method(Q.CompositeSystem, name, allow_property=True)
    for cls in Q.QT.values():
        for name in QT_METHODS:
            if hasattr(cls, name):
                method(cls, name)
    for name in MD_METHODS:
        method(Q.MD, name)
    method(Q.Estimator, "calc_estimate")
    method(Q.Estimator, "calc_estimate_sequence")
    for cls, _ in Q.LOSS.values():
        for name in sorted(SELF_CONFIG):
            if hasattr(cls, name):
                method(cls, name)
    for cls, _ in Q.ALGO.values():
        for name in ("set_constraint_from_standard_qt_and_option", "set_from_loss", "set_from_option", "optimize",
                     "is_loss_sufficient", "is_option_sufficient", "is_loss_and_option_sufficient"):
            if hasattr(cls, name):
                method(cls, name)
    return hs, mon


# ================================================================== the history


class Member:
    __slots__ = ("id", "kind", "obj", "origin", "parents", "meta")

    def __init__(self, mid, kind, obj, origin, parents=(), meta=None):
        self.id, self.kind, self.obj, self.origin, self.parents, self.meta = mid, kind, obj, origin, tuple(parents), meta or {}


class Op:
    """one step: fn(objs, world) -> value; everything random is fixed at generation time"""

    def __init__(self, cls, label, operands, fn, params=(), on_result=None, roles=None, twin=True):
        self.cls, self.label, self.operands, self.fn, self.params = cls, label, list(operands), fn, params
        self.on_result = on_result
        self.roles = roles
        self.twin = twin


def md_spec(md):
    return {"ps": np.array(md.ps, copy=True), "shape": tuple(md.shape), "eps_zero": md.eps_zero}


def qt_spec(qt, meta):
    ex = qt.experiment
    return {"qt": meta["qt"], "flag": bool(qt.on_para_eq_constraint), "m": meta.get("m"),
            "states": [qop_spec(x) for x in ex.states if x is not None],
            "povms": [qop_spec(x) for x in ex.povms if x is not None]}


def qt_build(sp, world):
    Q = world.Q
    states = [qop_build(s, world) for s in sp["states"]]
    povms = [qop_build(p, world) for p in sp["povms"]]
    k, flag = sp["qt"], sp["flag"]
    if k == "qst":
        return Q.QT[k](povms, on_para_eq_constraint=flag)
    if k == "povmt":
        return Q.QT[k](states, sp["m"], on_para_eq_constraint=flag)
    if k == "qpt":
        return Q.QT[k](states, povms, on_para_eq_constraint=flag)
    return Q.QT[k](states, povms, num_outcomes=sp["m"], on_para_eq_constraint=flag)


def varlen(sp, flag):
    d = int(np.prod([ESYS[n][0] for n in sp["names"]]))
    n = d * d
    t = sp["t"]
    if t == "State":
        return n - (1 if flag else 0)
    if t == "Povm":
        return (len(sp["raw"]) - (1 if flag else 0)) * n
    if t == "Gate":
        return n * n - (n if flag else 0)
    return len(sp["raw"]) * n * n - (n if flag else 0)


MAXPOOL = 26


class History:
    def __init__(self, ctx, Q, hs, mon, rng, flavour, steps):
        self.ctx, self.Q, self.hs, self.mon, self.rng, self.flavour, self.steps = ctx, Q, hs, mon, rng, flavour, steps
        self.world = World(Q, primary=True)
        self.keys = FLAVOURS[flavour]
        self.members = {}
        self.next_id = 0
        self.dig = {}
        self.memo = {}
        self.log = []
        self.labels = []
        self.datasets = {}   # (qt member id, k) -> list of (n, array)
        self.est = None
        self.state_events = 0
        self.after_state_event = 0
        self.worst = {}

    # ----------------------------------------------------------------- pool
    def add(self, kind, obj, origin, parents=(), meta=None):
        m = Member(self.next_id, kind, obj, origin, parents, meta)
        self.next_id += 1
        self.members[m.id] = m
        self.dig[("m", m.id)] = self.member_digest(m)
        derived = [x for x in self.members.values() if x.origin != "base" and x.id != m.id]
        if len(self.members) > MAXPOOL and derived:
            v = derived[int(self.rng.integers(len(derived)))]
            del self.members[v.id]
            self.dig.pop(("m", v.id), None)
        return m

    def member_digest(self, m, cache=None):
        cache = {} if cache is None else cache
        if m.kind == "closure":
            return self.mon.hdigest(m.meta["host"], cache)
        return self.mon.hdigest(m.obj, cache)

    def pick(self, kinds, pred=None):
        c = [m for m in self.members.values() if m.kind in kinds and (pred is None or pred(m))]
        if not c:
            return None
        return c[int(self.rng.integers(len(c)))]

    def spec_of(self, m):
        if m.kind in QTYPES:
            return ("q", qop_spec(m.obj))
        if m.kind == "MD":
            return ("md", md_spec(m.obj))
        if m.kind == "closure":
            return ("closure", qop_spec(m.meta["host"]), m.meta["maker"], m.meta["args"])
        if m.kind == "qt":
            return ("qt", qt_spec(m.obj, m.meta))
        raise TypeError(m.kind)

    @staticmethod
    def build(sp, world):
        k = sp[0]
        if k == "q":
            return qop_build(sp[1], world)
        if k == "md":
            return world.Q.MD(np.array(sp[1]["ps"], copy=True), shape=sp[1]["shape"], eps_zero=sp[1]["eps_zero"])
        if k == "closure":
            host = qop_build(sp[1], world)
            return getattr(host, sp[2])(*sp[3])
        if k == "qt":
            return qt_build(sp[1], world)
        raise TypeError(k)

    # --------------------------------------------------------------- purity
    def full_digest(self):
        out = {}
        cache = {}   # composite systems are digested afresh in every sweep, once per instance
        for m in self.members.values():
            out[("m", m.id)] = self.member_digest(m, cache)
        for key in self.keys:
            if CSYS[key] in self.world.cs:
                out[("c", key)] = self.mon.cs_digest(self.world.cs[CSYS[key]], cache)
        for k, d in self.datasets.items():
            out[("d",) + k] = digest(d)
        return out

    def relation(self, key, operand_ids):
        if key[0] == "c":
            return "composite-system"
        if key[0] == "d":
            return "dataset"
        m = self.members.get(key[1])
        if m is None:
            return "member"
        ops = [self.members[i] for i in operand_ids if i in self.members]
        if any(m.id in o.parents for o in ops):
            return f"{m.kind}:parent-of-operand"
        if any(o.id in m.parents for o in ops):
            return f"{m.kind}:derived-from-operand-by:{m.origin}"
        return f"{m.kind}:unrelated-pool-member"

    def sweep(self, label, operand_ids, ev0, expected=(), roles=None):
        """verdict (b): digests of operands and of every other pool member across the step"""
        ctx = self.ctx
        with self.hs.paused():
            new = self.full_digest()
        opkeys = [("m", i) for i in operand_ids]
        changed = [k for k, d in new.items() if k in self.dig and self.dig[k] != d and k not in expected]
        for j, k in enumerate(opkeys):
            if k not in new:
                continue
            if k in changed:
                if self.mon.events > ev0:
                    ctx.count("operand-mutation-attributed-to-hook")
                    ctx.truth("purity:operands", True)
                else:
                    role = (roles[j] if roles else f"operand{j}") + ":" + self.members[k[1]].kind
                    ctx.truth("purity:operands", False, key=f"mutates-operand:{label}:{role}")
            else:
                ctx.truth("purity:operands", True)
        opobjs = [self.members[i].obj for i in operand_ids if i in self.members]
        opobjs += [self.members[i].meta.get("host") for i in operand_ids if i in self.members]

        def alias_of_operand(k):   # another pool entry for the very same Python object (closure <-> its host)
            x = self.members.get(k[1]) if k[0] == "m" else None
            return x is not None and any(o is not None and (x.obj is o or x.meta.get("host") is o) for o in opobjs)

        others = [k for k in changed if k not in opkeys and not alias_of_operand(k)]
        if not others:
            ctx.truth("purity:pool", True)
        for k in others:
            ctx.truth("purity:pool", False, key=f"mutates-other:{label}:{self.relation(k, operand_ids)}",
                      info={"changed": str(k)})
        self.dig = new

    # ------------------------------------------------------------ execution
    def note_class(self, cls):
        self.ctx.count("class:" + cls)
        self.labels.append(cls)
        if self.state_events:
            self.after_state_event += 1

    def judge(self, cls, label, pool, twin, info=None, rekey=None):
        """verdict (a) on two outcomes (ok, canonical value | exception); rekey names the mechanism of a mismatch"""
        ctx = self.ctx
        (ok1, v1), (ok2, v2) = pool, twin
        oracle = "twin:" + cls
        rk = (lambda k: rekey(k) or k) if rekey else (lambda k: k)
        if not ok1 and not ok2:
            same = type(v1).__name__ == type(v2).__name__
            if same:
                ctx.truth(oracle, True)
            else:
                ctx.truth(oracle, False, key=rk(f"twin-differs:{label}:pool-raises-{type(v1).__name__}-twin-raises-"
                                                f"{type(v2).__name__}"), info=info)
            return same
        if ok1 != ok2:
            e = v2 if ok1 else v1
            side = "twin" if ok1 else "pool"
            ctx.truth(oracle, False, key=rk(f"twin-differs:{label}:only-{side}-raises-{type(e).__name__}"),
                      info=dict(info or {}, message=str(e)[:200], site=ctx.exc_site(e), raised_in=side))
            return False
        same, err, why = compare(v1, v2)
        if not same:
            ctx.truth(oracle, False, key=rk(f"twin-differs:{label}:result-structure"), info=dict(info or {}, detail=why))
            return False
        self.worst[cls] = max(self.worst.get(cls, 0.0), err)
        if err >= TOL_FAIL:
            st = ctx.num(oracle, err, TOL_PASS, TOL_FAIL, key=rk(f"twin-differs:{label}:value"), info=info)
        else:
            st = ctx.num(oracle, err, TOL_PASS, TOL_FAIL)
        return st != "fail"

    def memo_check(self, op, argdig, atol, outcome):
        ctx = self.ctx
        key = (op.label, digest(op.params), tuple(argdig), atol)
        old = self.memo.get(key)
        if old is None:
            if len(self.memo) < 400:
                self.memo[key] = outcome
            return
        (ok1, v1), (ok2, v2) = old, outcome
        if ok1 != ok2 or (not ok1 and type(v1).__name__ != type(v2).__name__):
            ctx.truth("memo", False, key=f"memo:{op.label}:same-arguments-raise-only-once")
            return
        if not ok1:
            ctx.truth("memo", True)
            return
        same, err, why = compare(v1, v2)
        if not same:
            ctx.truth("memo", False, key=f"memo:{op.label}:same-arguments-different-result-structure", info={"detail": why})
        else:
            ctx.num("memo", err, TOL_PASS, TOL_FAIL, key=f"memo:{op.label}:same-arguments-different-result")

    def run(self, op, atol=None, cls=None):
        """execute one generic step on the pool and on a fresh twin"""
        ctx, Q = self.ctx, self.Q
        cls = cls or op.cls
        if any(i not in self.members for i in op.operands):
            ctx.count("planned-step-dropped:operand-left-the-pool")
            return False, None
        mems = [self.members[i] for i in op.operands]
        with self.hs.paused():
            specs = [self.spec_of(m) for m in mems]
        argdig = [self.dig.get(("m", m.id)) for m in mems]
        ev0 = self.mon.events
        self.mon.begin_step()
        with atol_window(Q, atol), quiet():
            ok, val = ctx.attempt(op.fn, [m.obj for m in mems], self.world)
        with self.hs.paused():
            pool = (ok, canon_of(val) if ok else val)
        self.sweep(op.label, op.operands, ev0, roles=op.roles)
        self.note_class(cls)
        # twin
        tw = World(Q)
        self.mon.begin_step()
        okb, targs = ctx.attempt(lambda: [self.build(s, tw) for s in specs]) if op.twin else (True, None)
        if not op.twin:
            # nothing to compare (deleting the cache of a brand-new composite system); purity and memo still judged
            ctx.truth("twin:" + cls, (ok and val is None), key=f"twin-differs:{op.label}:returns-or-raises")
        elif not okb:
            ctx.count("twin-build-failed:" + type(targs).__name__)
            ctx.skip("twin:" + cls)
        else:
            with atol_window(Q, atol), quiet():
                ok2, val2 = ctx.attempt(op.fn, targs, tw)
            with self.hs.paused():
                twin = (ok2, canon_of(val2) if ok2 else val2)
            self.judge(cls, op.label, pool, twin, info={"atol": atol})
        with self.hs.paused():
            self.memo_check(op, argdig, atol, pool)   # the state of the caches is deliberately not part of the key
        self.log.append((op, atol, cls))
        if ok and op.on_result is not None:
            op.on_result(self, val, op.operands)
        elif ok:
            self.maybe_add(val, op)
        return ok, val

    def maybe_add(self, val, op):
        tn = type(val).__name__
        if tn in QTYPES:
            nm = names_of(val.composite_system)
            small = len(nm) == 1 or tn in ("State", "Povm")
            if small and self.rng.random() < 0.55:
                self.add(tn, val, op.label, parents=op.operands)
        elif tn == "MultinomialDistribution" and self.rng.random() < 0.5:
            self.add("MD", val, op.label, parents=op.operands)


# ============================================================= op generators

QUERY = {
    "State": ["is_physical", "is_eq_constraint_satisfied", "is_ineq_constraint_satisfied", "is_trace_one", "is_hermitian",
              "is_positive_semidefinite", "calc_eigenvalues"],
    "Povm": ["is_physical", "is_eq_constraint_satisfied", "is_ineq_constraint_satisfied", "is_hermitian",
             "is_positive_semidefinite", "is_identity_sum", "calc_eigenvalues"],
    "Gate": ["is_physical", "is_eq_constraint_satisfied", "is_ineq_constraint_satisfied", "is_tp", "is_cp"],
    "MProcess": ["is_physical", "is_eq_constraint_satisfied", "is_ineq_constraint_satisfied", "is_sum_tp", "is_cp"],
}
ATOLS = [1e-13, 1e-10, 1e-6, 1e-3]


def _small(m):
    return len(names_of(m.obj.composite_system)) == 1 or m.kind in ("State", "Povm")


def g_query(H):
    rng = H.rng
    m = H.pick(QTYPES)
    if m is None:
        return None
    t = m.kind
    name = str(rng.choice(QUERY[t]))
    a = None if rng.random() < 0.5 else float(rng.choice(ATOLS))
    if name == "is_physical":
        args = () if a is None else (a, float(rng.choice(ATOLS)))
    elif name == "calc_eigenvalues":
        args = (int(rng.integers(len(m.obj.vecs))),) if (t == "Povm" and rng.random() < 0.5) else ()
    elif name == "is_hermitian" and t == "Povm":
        args = ()
    else:
        args = () if a is None else (a,)
    return Op("query", f"{t}.{name}", [m.id], lambda o, w: getattr(o[0], name)(*args), params=(name, args))


def g_convert(H):
    rng = H.rng
    Q = H.Q
    m = H.pick(QTYPES)
    if m is None:
        return None
    t = m.kind
    with H.hs.paused():
        sp = qop_spec(m.obj)
    flag = bool(rng.random() < 0.5)
    nv = varlen(sp, flag)
    noise = 0.05 * rng.standard_normal(nv)
    scale = float(rng.choice([0.0, 1.0]))
    d = int(np.prod([ESYS[n][0] for n in sp["names"]]))
    big = d >= 4
    cls = getattr(Q, t)
    mode = str(rng.choice(["row_major", "column_major"]))
    k = int(rng.integers(len(sp["raw"]))) if t in ("Povm", "MProcess") else 0

    def var_of(o):
        # variable of the requested parametrisation built from the operand itself plus fixed noise
        st = np.asarray(o.to_stacked_vector(), dtype=np.float64)
        v = cls.convert_stacked_vector_to_var(o.composite_system, st, flag)
        return scale * np.asarray(v, dtype=np.float64) + noise

    common = {
        "to_var": lambda o, w: o[0].to_var(),
        "to_stacked_vector": lambda o, w: o[0].to_stacked_vector(),
        "convert_basis(comp)": lambda o, w: o[0].convert_basis(o[0].composite_system.comp_basis(mode)),
        "generate_from_var": lambda o, w: o[0].generate_from_var(var_of(o[0]), on_para_eq_constraint=flag),
        "convert_var_to_stacked_vector": lambda o, w: cls.convert_var_to_stacked_vector(o[0].composite_system, var_of(o[0]), flag),
        "convert_stacked_vector_to_var": lambda o, w: cls.convert_stacked_vector_to_var(
            o[0].composite_system, np.array(o[0].to_stacked_vector(), dtype=np.float64), flag),
        "generate_zero_obj": lambda o, w: o[0].generate_zero_obj(),
        "generate_origin_obj": lambda o, w: o[0].generate_origin_obj(),
    }
    sm, pm, gm = Q.state_mod, Q.povm_mod, Q.gate_mod
    table = {
        "State": {
            "to_density_matrix": lambda o, w: o[0].to_density_matrix(),
            "to_density_matrix_with_sparsity": lambda o, w: o[0].to_density_matrix_with_sparsity(),
            "state.to_density_matrix_from_var": lambda o, w: sm.to_density_matrix_from_var(o[0].composite_system, var_of(o[0]), flag),
            "state.to_var_from_density_matrix": lambda o, w: sm.to_var_from_density_matrix(
                o[0].composite_system, o[0].to_density_matrix(), flag),
            "state.to_vec_from_density_matrix_with_sparsity": lambda o, w: sm.to_vec_from_density_matrix_with_sparsity(
                o[0].composite_system, o[0].to_density_matrix()),
        },
        "Povm": {
            "matrices": lambda o, w: o[0].matrices(),
            "matrices_with_sparsity": lambda o, w: o[0].matrices_with_sparsity(),
            "matrix": lambda o, w: o[0].matrix(k),
            "matrix_with_sparsity": lambda o, w: o[0].matrix_with_sparsity(k),
            "vec": lambda o, w: o[0].vec(k),
            "generate_mprocess(0)": lambda o, w: o[0].generate_mprocess(mode_backaction=0),
            "povm.to_vecs_from_matrices_with_sparsity": lambda o, w: pm.to_vecs_from_matrices_with_sparsity(
                o[0].composite_system, o[0].matrices()),
            "povm.to_matrices_from_var": lambda o, w: pm.to_matrices_from_var(o[0].composite_system, var_of(o[0]), flag),
        },
        "Gate": {
            "to_choi_matrix": lambda o, w: o[0].to_choi_matrix(),
            "to_choi_matrix_with_dict": lambda o, w: o[0].to_choi_matrix_with_dict(),
            "to_choi_matrix_with_sparsity": lambda o, w: o[0].to_choi_matrix_with_sparsity(),
            "to_kraus_matrices": lambda o, w: o[0].to_kraus_matrices(),
            "to_process_matrix": lambda o, w: o[0].to_process_matrix(),
            "convert_to_comp_basis": lambda o, w: o[0].convert_to_comp_basis(mode),
            "gate.to_hs_from_choi": lambda o, w: gm.to_hs_from_choi(o[0].composite_system, o[0].to_choi_matrix()),
            "gate.to_hs_from_choi_with_dict": lambda o, w: gm.to_hs_from_choi_with_dict(
                o[0].composite_system, o[0].to_choi_matrix_with_dict()),
            "gate.to_hs_from_choi_with_sparsity": lambda o, w: gm.to_hs_from_choi_with_sparsity(
                o[0].composite_system, o[0].to_choi_matrix_with_sparsity()),
            "get_basis": lambda o, w: o[0].get_basis(),
        },
        "MProcess": {
            "to_choi_matrix": lambda o, w: o[0].to_choi_matrix(k),
            "to_choi_matrix_with_dict": lambda o, w: o[0].to_choi_matrix_with_dict(k),
            "to_choi_matrix_with_sparsity": lambda o, w: o[0].to_choi_matrix_with_sparsity(k),
            "to_kraus_matrices": lambda o, w: o[0].to_kraus_matrices(k),
            "to_process_matrix": lambda o, w: o[0].to_process_matrix(k),
            "to_povm": lambda o, w: o[0].to_povm(),
            "convert_to_comp_basis": lambda o, w: o[0].convert_to_comp_basis(mode),
            "hs": lambda o, w: o[0].hs(k),
        },
    }
    tab = dict(common)
    tab.update(table[t])
    if big and t in ("Gate", "MProcess"):
        for nm in list(tab):
            if "choi" in nm or "kraus" in nm or "process" in nm:
                del tab[nm]
    names = sorted(tab)
    # conversions that go through a CompositeSystem cache are drawn more often
    w = np.array([3.0 if ("sparsity" in n or "dict" in n or "choi" in n) else 1.0 for n in names])
    name = names[int(rng.choice(len(names), p=w / w.sum()))]
    return Op("convert", f"{t}.{name}", [m.id], tab[name], params=(name, flag, scale, noise, mode, k))


def g_proj(H):
    rng = H.rng
    m = H.pick(QTYPES, _small)
    if m is None:
        return None
    t = m.kind
    cls = getattr(H.Q, t)
    with H.hs.paused():
        sp = qop_spec(m.obj)
    flag = bool(rng.random() < 0.5)
    var = float(rng.choice([0.3, 1.0])) * rng.standard_normal(varlen(sp, flag))
    if t == "State" and flag is False:
        var[0] = 0.3  # not already on the affine set
    it = int(rng.choice([3, 12, 30]))
    forms = {
        "calc_proj_eq_constraint": lambda o, w: o[0].calc_proj_eq_constraint(),
        "calc_proj_ineq_constraint": lambda o, w: o[0].calc_proj_ineq_constraint(),
        "calc_proj_physical": lambda o, w: o[0].calc_proj_physical(max_iteration=it),
        "calc_proj_eq_constraint_with_var": lambda o, w: cls.calc_proj_eq_constraint_with_var(
            o[0].composite_system, np.array(var, copy=True), flag),
        "calc_proj_ineq_constraint_with_var": lambda o, w: cls.calc_proj_ineq_constraint_with_var(
            o[0].composite_system, np.array(var, copy=True), flag),
        "calc_proj_physical_with_var": lambda o, w: o[0].calc_proj_physical_with_var(
            np.array(var, copy=True), on_para_eq_constraint=flag, max_iteration=it),
    }
    name = str(rng.choice(sorted(forms)))
    return Op("proj", f"{t}.{name}", [m.id], forms[name], params=(name, flag, var, it))


MAKERS = ["func_calc_proj_eq_constraint", "func_calc_proj_ineq_constraint", "func_calc_proj_eq_constraint_with_var",
          "func_calc_proj_ineq_constraint_with_var", "func_calc_proj_physical", "func_calc_proj_physical_with_var"]


def g_closure_create(H):
    rng = H.rng
    m = H.pick(QTYPES, lambda x: len(names_of(x.obj.composite_system)) == 1)
    if m is None:
        return None
    maker = str(rng.choice(MAKERS))
    flag = bool(rng.random() < 0.5)
    args = (flag,)
    if "physical" in maker:
        args = (flag, str(rng.choice(["eq_ineq", "ineq_eq"])), int(rng.choice([3, 12])))

    def on_result(H, val, operands):
        H.add("closure", val, f"{m.kind}.{maker}", parents=operands, meta={"host": m.obj, "maker": maker, "args": args,
                                                                             "t": m.kind})

    return Op("closure", f"{m.kind}.{maker}:create", [m.id], lambda o, w: getattr(o[0], maker)(*args), params=(maker, args),
              on_result=on_result)


def g_closure_call(H):
    rng = H.rng
    m = H.pick(("closure",))
    if m is None:
        return g_closure_create(H)
    with H.hs.paused():
        sp = qop_spec(m.meta["host"])
    flag = m.meta["args"][0]
    var = float(rng.choice([0.3, 1.0])) * rng.standard_normal(varlen(sp, flag))
    return Op("closure", f"{m.meta['t']}.{m.meta['maker']}:call", [m.id], lambda o, w: o[0](np.array(var, copy=True)),
              params=(var,), roles=["host"])


def _same_space(a, b):
    if a.kind != b.kind or names_of(a.obj.composite_system) != names_of(b.obj.composite_system):
        return False
    if a.kind == "Povm":
        return len(a.obj.vecs) == len(b.obj.vecs)
    if a.kind == "MProcess":
        return tuple(a.obj.shape) == tuple(b.obj.shape)
    return True


def g_arith(H):
    rng = H.rng
    a = H.pick(QTYPES, _small)
    if a is None:
        return None
    kind = str(rng.choice(["add", "sub", "mul", "rmul", "div"]))
    c = float(rng.choice([0.5, 2.0, -1.0, 3.0]))
    if kind in ("add", "sub"):
        b = H.pick((a.kind,), lambda x: _same_space(a, x))
        fn = (lambda o, w: o[0] + o[1]) if kind == "add" else (lambda o, w: o[0] - o[1])
        return Op("arith", f"{a.kind}.__{kind}__", [a.id, b.id], fn, params=(kind,), roles=["left", "right"])
    fn = {"mul": lambda o, w: o[0] * c, "rmul": lambda o, w: c * o[0], "div": lambda o, w: o[0] / c}[kind]
    return Op("arith", f"{a.kind}.__{kind}__", [a.id], fn, params=(kind, c))


COMPOSE = [("Gate", "Gate"), ("Gate", "MProcess"), ("MProcess", "Gate"), ("MProcess", "MProcess"), ("Gate", "State"),
           ("MProcess", "State"), ("Povm", "Gate"), ("Povm", "MProcess"), ("Povm", "State"), ("Povm", "State"),
           ("Povm", "Gate", "State"), ("Povm", "MProcess", "State"), ("Gate", "Gate", "State")]


def g_compose(H):
    rng = H.rng
    Q = H.Q
    for _ in range(6):
        case = COMPOSE[int(rng.integers(len(COMPOSE)))]
        first = H.pick((case[0],))
        if first is None:
            continue
        nm = names_of(first.obj.composite_system)
        rest = [H.pick((k,), lambda x: names_of(x.obj.composite_system) == nm) for k in case[1:]]
        if any(r is None for r in rest):
            continue
        if case[:2] == ("MProcess", "MProcess") and len(first.obj.hss) * len(rest[0].obj.hss) > 12:
            continue
        ms = [first] + rest
        as_list = bool(rng.random() < 0.3)
        fn = (lambda o, w: Q.operators.compose_qoperations(list(o))) if as_list else (
            lambda o, w: Q.operators.compose_qoperations(*o))
        return Op("compose", "compose:" + "*".join(case), [m.id for m in ms], fn, params=(as_list,),
                  roles=[f"element{i}" for i in range(len(ms))])
    return None


def g_tensor(H):
    rng = H.rng
    Q = H.Q
    pairs = [("State", "State"), ("Povm", "Povm"), ("State", "State"), ("Povm", "Povm")]
    if H.flavour == "AB":
        pairs += [("Gate", "Gate"), ("MProcess", "Gate"), ("Gate", "MProcess"), ("MProcess", "MProcess")]
    for _ in range(6):
        ta, tb = pairs[int(rng.integers(len(pairs)))]
        a = H.pick((ta,), lambda x: len(names_of(x.obj.composite_system)) == 1)
        if a is None:
            continue
        na = names_of(a.obj.composite_system)
        b = H.pick((tb,), lambda x: len(names_of(x.obj.composite_system)) == 1 and names_of(x.obj.composite_system) != na)
        if b is None:
            continue
        if ta == tb == "MProcess" and len(a.obj.hss) * len(b.obj.hss) > 9:
            continue
        if ta == tb == "Povm" and len(a.obj.vecs) * len(b.obj.vecs) > 12:
            continue
        return Op("tensor", f"tensor:{ta}(x){tb}", [a.id, b.id], lambda o, w: Q.operators.tensor_product(o[0], o[1]),
                  roles=["left", "right"])
    return None


def g_copy(H):
    m = H.pick(QTYPES)
    if m is None:
        return None
    return Op("copy", f"{m.kind}.copy", [m.id], lambda o, w: o[0].copy())


def cache_key(H, cheap_only=False):
    rng = H.rng
    key = str(rng.choice(H.keys))
    if key == "AB" or cheap_only:
        name = str(rng.choice(CHEAP_CACHES))
    elif key == "C":
        name = str(rng.choice(CACHES if rng.random() < 0.35 else CHEAP_CACHES))
    else:
        name = str(rng.choice(CACHES))
    return key, name


def op_cache_delete(key, name):
    return Op("cache", f"cache-delete:{name}", [], lambda o, w: getattr(w.csys(CSYS[key]), "delete_" + name)(),
              params=(key, name), twin=False)


def op_cache_get(key, name):
    return Op("cache", f"cache-get:{name}", [], lambda o, w: getattr(w.csys(CSYS[key]), name), params=(key, name))


def g_cache(H):
    key, name = cache_key(H)
    return op_cache_delete(key, name) if H.rng.random() < 0.5 else op_cache_get(key, name)


def g_dist(H):
    rng = H.rng
    m = H.pick(("MD",))
    if m is None:
        return None
    shape = tuple(m.obj.shape)
    kind = str(rng.choice(["marginalize", "conditionalize", "sample", "getitem"]))
    if kind == "marginalize":
        keep = sorted(set(int(i) for i in rng.integers(0, len(shape), size=int(rng.integers(1, len(shape) + 1)))))
        return Op("dist", "MultinomialDistribution.marginalize", [m.id], lambda o, w: o[0].marginalize(keep), params=(keep,))
    if kind == "conditionalize" and len(shape) >= 2:
        i = int(rng.integers(len(shape)))
        v = int(rng.integers(shape[i]))
        return Op("dist", "MultinomialDistribution.conditionalize", [m.id], lambda o, w: o[0].conditionalize([i], [v]),
                  params=(i, v))
    if kind == "sample":
        seed, num, size = int(rng.integers(1, 2**31 - 1)), int(rng.choice([1, 10, 100])), int(rng.integers(1, 4))
        return Op("dist", "MultinomialDistribution.execute_random_sampling", [m.id],
                  lambda o, w: o[0].execute_random_sampling(num, size, random_generator=seed), params=(seed, num, size))
    idx = tuple(int(rng.integers(s)) for s in shape)
    return Op("dist", "MultinomialDistribution.__getitem__", [m.id], lambda o, w: o[0][idx], params=(idx,))


def g_sensitive_query(H):
    """verdict with the global tolerance (no explicit atol) on an object whose violation lies between the tolerances"""
    rng = H.rng
    m = H.pick(QTYPES, lambda x: x.meta.get("sensitive"))
    if m is None:
        return g_query(H)
    name = str(rng.choice([n for n in QUERY[m.kind] if n != "calc_eigenvalues"]))
    return Op("query", f"{m.kind}.{name}", [m.id], lambda o, w: getattr(o[0], name)(), params=(name, ()))


def g_atol_inner(H):
    g = [g_sensitive_query, g_sensitive_query, g_sensitive_query, g_query, g_proj, g_compose, g_convert][int(H.rng.integers(7))]
    return g(H)


# ================================================================= estimation

MODES = {"FSE": ["identity", "custom", "inverse_sample_covariance", "inverse_unbiased_covariance"],
         "SE": ["identity", "custom", "inverse_sample_covariance", "inverse_unbiased_covariance"],
         "FRE": ["identity", "custom"], "RE": ["identity", "custom"]}


def new_config(H):
    rng = H.rng
    qts = [m for m in H.members.values() if m.kind == "qt"]
    if H.est_configs and rng.random() < 0.3:
        return dict(H.est_configs[int(rng.integers(len(H.est_configs)))])  # configuration seen before (A ... B ... A)
    if H.est_configs and rng.random() < 0.8:
        cfg = dict(H.est_configs[-1])
        aspects = ["qt", "ds", "loss", "mode", "algo", "constraint", "constraint", "order", "weights"]
        for a in rng.choice(aspects, size=int(rng.integers(1, 3)), replace=False):
            mutate_config(H, cfg, str(a), qts)
        return cfg
    cfg = {}
    for a in ("qt", "ds", "loss", "mode", "algo", "constraint", "order", "weights", "iters"):
        mutate_config(H, cfg, a, qts)
    return cfg


def mutate_config(H, cfg, a, qts):
    rng = H.rng
    if a == "qt":
        cfg["qt"] = qts[int(rng.integers(len(qts)))].id
        cfg["ds"] = int(rng.integers(2))
    elif a == "ds":
        cfg["ds"] = 1 - cfg.get("ds", 0)
    elif a == "loss":
        cfg["loss"] = str(rng.choice(["FSE", "FSE", "FRE", "FRE", "SE", "RE"]))
        if cfg.get("mode") not in MODES[cfg["loss"]]:
            cfg["mode"] = "identity"
    elif a == "mode":
        cfg["mode"] = str(rng.choice(MODES[cfg.get("loss", "FSE")]))
    elif a == "algo":
        cfg["algo"] = str(rng.choice(["PB", "PB", "PM", "PF"]))
    elif a == "constraint":
        cfg["eq"], cfg["ineq"] = bool(rng.random() < 0.5), bool(rng.random() < 0.5)
    elif a == "order":
        cfg["order"] = str(rng.choice(["eq_ineq", "ineq_eq"]))
    elif a == "weights":
        cfg["wseed"] = int(rng.integers(1, 10**6))
    elif a == "iters":
        cfg["it"], cfg["itp"] = int(rng.choice([6, 12])), int(rng.choice([8, 20]))


def make_options(Q, cfg, qt):
    lcls, locls = Q.LOSS[cfg["loss"]]
    acls, aocls = Q.ALGO[cfg["algo"]]
    weights = None
    if cfg["mode"] == "custom":
        g = np.random.default_rng(cfg["wseed"])
        weights = []
        for j in range(qt.num_schedules):
            m = qt.num_outcomes(j)
            if cfg["loss"] in ("FSE", "SE"):
                G = g.standard_normal((m, m))
                W = G @ G.T / m + 0.3 * np.eye(m)
                weights.append(np.ascontiguousarray((W + W.T) / 2, dtype=np.float64))
            else:
                weights.append(float(g.uniform(0.2, 3.0)))
    lopt = locls(cfg["mode"], weights=weights) if weights is not None else locls(cfg["mode"])
    aopt = aocls(on_algo_eq_constraint=cfg["eq"], on_algo_ineq_constraint=cfg["ineq"], mode_proj_order=cfg["order"],
                 max_iteration_optimization=cfg["it"], max_iteration_proj_physical=cfg["itp"])
    return lcls, lopt, acls, aopt


def _differing(a, b, skip=()):
    da, db = getattr(a, "__dict__", {}), getattr(b, "__dict__", {})
    out = []
    for k in sorted(set(da) | set(db)):
        if k in skip or k in _TIME_KEYS:
            continue
        try:
            same = (k in da) and (k in db) and vsig(da[k]) == vsig(db[k])
        except Exception:
            same = False
        if not same:
            out.append(k)
    return out


def _close(a, b):
    try:
        same, err, _ = compare(canon_of(a), canon_of(b))
        return same and err < TOL_FAIL
    except Exception:
        return False


def diagnose(H, cfg, loss, algo, prev, qt2, data_j):
    """mechanism keys of a pool/twin mismatch of an estimation with re-used objects.  Behavioural: the re-used loss
    (algorithm) is compared with a brand-new one configured by the same call on the same tomography / option / data:
    loss value and gradient at a test point, projection of a test point.  The attribute names in the loss key are the
    attributes whose values differ (naming only)."""
    Q = H.Q
    keys = []
    with H.hs.paused(), quiet():
        lcls, lopt, acls, aopt = make_options(Q, cfg, qt2)
        try:
            x0 = np.asarray(qt2.generate_empty_estimation_obj_with_setting_info().generate_origin_obj().to_var(), dtype=np.float64)
            g = np.random.default_rng(4242)
            x1 = x0 + 0.05 * g.standard_normal(x0.shape)
            x2s = [x0 + sc * g.standard_normal(x0.shape) for sc in (0.4, 3.0, 30.0)]  # inside / outside the physical set
        except Exception:
            return []
        # ---- loss
        if data_j is not None:
            fresh = lcls()
            try:
                fresh.set_from_standard_qtomography_option_data(qt2, lopt, data_j, algo.is_gradient_required, algo.is_hessian_required)
                want = (fresh.value(x1), fresh.gradient(x1))
            except Exception:
                want = None
            if want is not None:
                try:
                    got = (loss.value(x1), loss.gradient(x1))
                except Exception as e:  # noqa: BLE001
                    got = ("raises", type(e).__name__)
                if not _close(got, want):
                    attrs = _differing(loss, fresh)
                    keys.append(f"reuse:{type(loss).__name__}:stale:{'+'.join(attrs) if attrs else 'behaviour'}")
        # ---- algorithm: the projection it would use
        fa = acls()
        try:
            fa.set_from_option(aopt)
            fa.set_constraint_from_standard_qt_and_option(qt2, aopt)
            want = [fa.func_proj(np.array(x2, copy=True)) for x2 in x2s]
        except Exception:
            want = None
        if want is not None:
            try:
                got = [algo.func_proj(np.array(x2, copy=True)) for x2 in x2s]
            except Exception as e:  # noqa: BLE001
                got = ("raises", type(e).__name__)
            if not _close(got, want):
                owner = getattr(getattr(type(algo), "set_constraint_from_standard_qt_and_option"), "__qualname__",
                                type(algo).__name__).split(".")[0]
                first = H.algo_first.get(cfg["algo"]) or prev   # the use that fixed the cached projection
                what = "tomography" if (first is not None and first["qt"] != cfg["qt"]) else "option"
                if prev is None:
                    keys.append(f"reuse:{owner}:func_proj-differs-on-first-use")
                else:
                    keys.append(f"reuse:{owner}:func_proj-cached:later-{what}-ignored")
            else:
                extra = _differing(algo, fa, skip=("_loss", "_func_proj", "_qt", "_option"))
                if extra and not keys:
                    keys.append(f"reuse:{type(algo).__name__}:stale:{'+'.join(extra)}")
    return keys


def run_estimate(H, cfg, seq=False):
    ctx, Q = H.ctx, H.Q
    qtm = H.members.get(cfg["qt"])
    if qtm is None:
        return
    qt = qtm.obj
    cls = "estimate-seq" if seq else "estimate"
    ks = [cfg["ds"], 1 - cfg["ds"], cfg["ds"]][: (3 if H.rng.random() < 0.5 else 2)] if seq else [cfg["ds"]]
    datas = [H.datasets[(qtm.id, k)] for k in ks]
    with H.hs.paused():
        spec = H.spec_of(qtm)
        data_copies = [[(int(n), np.array(q, copy=True)) for n, q in d] for d in datas]
        argdig = [H.dig.get(("m", qtm.id))] + [H.dig.get(("d", qtm.id, k)) for k in ks]
        lcls, lopt, acls, aopt = make_options(Q, cfg, qt)
    loss = H.losses.get(cfg["loss"])
    if loss is None:
        loss = H.losses[cfg["loss"]] = lcls()
    algo = H.algos.get(cfg["algo"])
    if algo is None:
        algo = H.algos[cfg["algo"]] = acls()
    prev = H.algo_prev.get(cfg["algo"])
    reused = (cfg["loss"] in H.loss_used) or prev is not None
    label = f"{'calc_estimate_sequence' if seq else 'calc_estimate'}:{type(qt).__name__}:{lcls.__name__}:{acls.__name__}"
    ev0 = H.mon.events
    H.mon.begin_step()
    conf_label = f"{lcls.__name__}.set_from_standard_qtomography_option_data"
    conf0 = H.hs.counts.get(conf_label, 0)
    with quiet():
        if seq:
            ok, val = ctx.attempt(H.est.calc_estimate_sequence, qt, datas, loss, lopt, algo, aopt)
        else:
            ok, val = ctx.attempt(H.est.calc_estimate, qt, datas[0], loss, lopt, algo, aopt)
    pool = (ok, canon_of([np.asarray(v) for v in val.estimated_var_sequence]) if ok else val)
    n_conf = H.hs.counts.get(conf_label, 0) - conf0   # datasets the pool loss was configured with during this call
    H.sweep(label, [qtm.id], ev0, roles=["qtomography"])
    H.note_class(cls)
    if reused:
        H.state_events += 1
        ctx.count("estimate:with-reused-loss-or-algorithm")
    H.loss_used.add(cfg["loss"])
    H.algo_prev[cfg["algo"]] = dict(cfg)
    H.algo_first.setdefault(cfg["algo"], dict(cfg))
    # twin: brand-new tomography, estimator, loss and algorithm (for a sequence: every dataset alone)
    tw = World(Q)
    H.mon.begin_step()
    okb, qt2 = ctx.attempt(H.build, spec, tw)
    if not okb:
        ctx.count("twin-build-failed:" + type(qt2).__name__)
        ctx.skip("twin:" + cls)
        return
    outs, ok2, err2 = [], True, None
    loss2 = algo2 = None
    for d in data_copies:
        with H.hs.paused():
            _, lopt2, _, aopt2 = make_options(Q, cfg, qt2)
        loss2, algo2 = lcls(), acls()
        with quiet():
            o, v = ctx.attempt(Q.Estimator().calc_estimate, qt2, d, loss2, lopt2, algo2, aopt2)
        if not o:
            ok2, err2 = False, v
            break
        outs.append(np.asarray(v.estimated_var_sequence[0]))
    twin = (ok2, canon_of(outs) if ok2 else err2)
    info = {"config": {k: v for k, v in cfg.items()}, "previous_use_of_algorithm": prev, "datasets": ks}
    found = []

    def rekey(default):
        j = min(n_conf, len(data_copies)) - 1
        ks_ = diagnose(H, cfg, loss, algo, prev, qt2, data_copies[j] if j >= 0 else None)
        found.extend(ks_[1:])
        return ks_[0] if ks_ else "reuse:loss+algorithm:result-differs-from-fresh-objects:final-state-of-both-looks-fresh"

    H.judge(cls, label, pool, twin, info=info, rekey=rekey)
    for k in found:   # a second stale object in the same call
        ctx.violation(k, info)
    with H.hs.paused():
        H.memo_check(Op(cls, "calc_estimate_sequence" if seq else "calc_estimate", [], None,
                        params=(label, sorted(cfg.items()), ks)), argdig, None, pool)


# ====================================================== copies, matrix bases


def _write(obj, way, idx):
    """in-place write into an object; returns whether the write was carried out"""
    t = type(obj).__name__
    if way == "set_zero":
        obj.set_zero()
        return True
    try:
        if t == "State":
            obj.vec[idx % obj.vec.size] += 1.0
        elif t == "Gate":
            obj.hs.flat[idx % obj.hs.size] += 1.0
        elif t == "MProcess":
            h = obj.hss[idx % len(obj.hss)]
            h.flat[idx % h.size] += 1.0
        else:
            v = obj.vecs[idx % len(obj.vecs)]
            v[idx % v.size] += 1.0
    except ValueError:
        return False  # read-only array: the write is refused, which is fine
    return True


def run_copy_write(H):
    ctx = H.ctx
    rng = H.rng
    m = H.pick(QTYPES)
    if m is None:
        return
    t, X = m.kind, m.obj
    way = str(rng.choice(["set_zero", "array-write"]))
    idx = int(rng.integers(0, 10**6))
    H.mon.begin_step()
    ok, C = ctx.attempt(X.copy)
    if not ok:
        ctx.violation(f"copy:{t}:" + ctx.exc_key(C), {})
        return
    # write into the copy: nothing in the pool (the original in particular) may move
    with H.hs.paused():
        d0 = digest(C)
        wrote = _write(C, way, idx) and digest(C) != d0
        new = H.full_digest()
    if not wrote:
        ctx.skip("copy:independent")
    else:
        moved = [k for k, d in new.items() if k in H.dig and H.dig[k] != d]
        if not moved:
            ctx.truth("copy:independent", True)
        def same_obj(k):   # the original itself, or a pool entry that IS the original (a closure's host)
            x = H.members.get(k[1]) if k[0] == "m" else None
            return x is not None and (x.obj is X or x.meta.get("host") is X)

        if any(same_obj(k) for k in moved):
            moved = [("m", m.id)] + [k for k in moved if not same_obj(k)]
        for k in moved:
            who = "original-moves" if k == ("m", m.id) else "other-moves:" + H.relation(k, [m.id])
            ctx.truth("copy:independent", False, key=f"copy-not-independent:{t}:write-to-copy({way}):{who}")
    H.dig = new
    # write into an original: its copy must not move
    with H.hs.paused():
        O = qop_build(qop_spec(X), H.world)
    ok, C2 = ctx.attempt(O.copy)
    if ok:
        with H.hs.paused():
            d2, dO = digest(C2), digest(O)
            wrote = _write(O, way, idx + 1) and digest(O) != dO
            if not wrote:
                ctx.skip("copy:independent")
            else:
                ctx.truth("copy:independent", digest(C2) == d2, key=f"copy-not-independent:{t}:write-to-original({way}):copy-moves")
            new = H.full_digest()
        moved = [k for k, d in new.items() if k in H.dig and H.dig[k] != d]
        for k in moved:
            ctx.truth("copy:independent", False,
                      key=f"copy-not-independent:{t}:write-to-rebuilt-original({way}):other-moves:{H.relation(k, [m.id])}")
        H.dig = new
    H.state_events += 1
    H.note_class("copy")


def _dense_list(b):
    return [np.array(ref.dense(x), copy=True).reshape(-1) for x in b]


def run_basis(H):
    """attempts to modify a matrix basis must raise or have no effect"""
    ctx, Q, rng = H.ctx, H.Q, H.rng
    from scipy.sparse import csr_matrix

    name = int(rng.choice(list(ESYS)))
    src = basis_raw(name)
    variant = str(rng.choice(["MatrixBasis", "SparseMatrixBasis(ndarray)", "SparseMatrixBasis(csr)", "CompositeSystem.basis()",
                              "ElementalSystem.basis", "to_vect(MatrixBasis)", "to_vect(SparseMatrixBasis)"]))
    state = None
    with H.hs.paused():
        if variant == "MatrixBasis":
            b = Q.mb.MatrixBasis(src)
        elif variant == "SparseMatrixBasis(ndarray)":
            b = Q.mb.SparseMatrixBasis(src)
        elif variant == "SparseMatrixBasis(csr)":
            src = [csr_matrix(x) for x in src]
            b = Q.mb.SparseMatrixBasis(src)
        elif variant.startswith("to_vect"):
            src0 = Q.mb.MatrixBasis(src) if "(MatrixBasis)" in variant else Q.mb.SparseMatrixBasis(src)
            b = src0.to_vect()
            src = None
        else:
            e = Q.ElementalSystem(name, Q.mb.MatrixBasis(src))
            c = Q.CompositeSystem([e])
            b = c.basis() if variant.startswith("Composite") else e.basis
            src = None
            state = Q.State(c, np.full(c.dim ** 2, 0.25), is_physicality_required=False)
        before = _dense_list(b)
        rho0 = None if state is None else np.array(state.to_density_matrix(), copy=True)
    attempts = ["item-assignment", "basis-attribute-assignment", "element-in-place-write", "element-in-place-write",
                "element-in-place-write"]
    if src is not None:
        attempts += ["source-list-mutation", "source-list-mutation"]
    att = str(rng.choice(attempts))
    i = int(rng.integers(len(before)))
    sub = int(rng.integers(3))
    raised = None
    try:
        if att == "item-assignment":
            if sub == 0:
                b[i] = np.zeros_like(ref.dense(b[i]))
            else:
                att = "basis-sequence-item-assignment"
                b.basis[i] = np.zeros_like(ref.dense(b[i]))
        elif att == "basis-attribute-assignment":
            b.basis = tuple(np.zeros_like(ref.dense(x)) for x in b)
        elif att == "element-in-place-write":
            el = b[i] if sub != 1 else list(iter(b))[i]
            if hasattr(el, "toarray") and sub == 2:
                el.data[:] = 7.0
            elif el.ndim == 1:
                el[0] = 7.0
            else:
                el[0, 0] = 7.0
        else:
            if sub == 0:
                src[i] = src[(i + 1) % len(src)]
            elif hasattr(src[i], "toarray"):
                src[i].data[:] = 7.0
            else:
                src[i][0, 0] = 7.0
    except Exception as e:  # noqa: BLE001 - raising is one of the two accepted outcomes
        raised = type(e).__name__
    with H.hs.paused():
        try:
            after = _dense_list(b)
            same = len(after) == len(before) and all(x.shape == y.shape and np.array_equal(x, y) for x, y in zip(after, before))
        except Exception:
            same = False
        drho = 0.0
        if state is not None:
            try:
                drho = float(np.max(np.abs(state.to_density_matrix() - rho0)))
            except Exception:
                drho = float("inf")
    ctx.truth("basis:immutable", same, key=f"basis-modified:{type(b).__name__}:{att}",
              info={"built_as": variant, "raised": raised, "change_in_density_matrix_of_a_state_on_it": drho})
    H.sweep("basis-modification-attempt", [], H.mon.events)
    H.note_class("basis")


def run_basis_verdicts(H):
    """A matrix basis answers queries about itself (orthogonal / normal / Hermitian / identity-first) under the global
    tolerance of the moment; the answer must not depend on what the same basis object was asked before (a verdict
    remembered from a Settings.set_atol window, missed seeded change C13-4).  A tolerance-sensitive basis (one element
    tilted by delta towards another, delta between the default tolerance and the window) is queried on the used object
    and on fresh objects built from the same arrays."""
    ctx, Q, rng = H.ctx, H.Q, H.rng
    name = int(rng.choice(list(ESYS)))
    raw = [np.array(x, copy=True) for x in basis_raw(name)]
    delta = float(rng.choice([1e-9, 1e-7, 3e-5]))
    i, j = [int(v) for v in rng.choice(np.arange(1, len(raw)), size=2, replace=False)]
    raw[i] = raw[i] + delta * raw[j]                     # inner product <B_i, B_j> ~ delta, norm of B_i ~ 1 + delta^2/2
    window = float(rng.choice([1e-6, 1e-3, 1e-2]))
    cls = Q.mb.MatrixBasis if rng.random() < 0.5 else Q.mb.SparseMatrixBasis
    methods = ["is_orthogonal", "is_normal", "is_hermitian", "is_0thpropI", "is_trace_less"]

    def ask(b):
        out = {}
        for mname in methods:
            f = getattr(b, mname, None)
            if f is not None:
                try:
                    out[mname] = bool(f())
                except Exception as e:  # noqa: BLE001
                    out[mname] = "raises:" + type(e).__name__
        try:
            out["ElementalSystem.flag"] = bool(Q.ElementalSystem(name, b).is_orthonormal_hermitian_0thprop_identity)
        except Exception as e:  # noqa: BLE001
            out["ElementalSystem.flag"] = "raises:" + type(e).__name__
        return out

    with H.hs.paused():
        used = cls([x.copy() for x in raw])
        order = str(rng.choice(["window-first", "default-first"]))
        if order == "default-first":
            ask(used)
        with atol_window(Q, window):
            in_window_used = ask(used)
            in_window_fresh = ask(cls([x.copy() for x in raw]))
        after_used = ask(used)
        after_fresh = ask(cls([x.copy() for x in raw]))
    for mname in after_fresh:
        ctx.truth("twin:basis-verdicts", after_used.get(mname) == after_fresh[mname],
                  key=f"twin-differs:atol-window:{cls.__name__}.{mname}:used-basis-remembers-verdict-of-other-tolerance",
                  info={"delta": delta, "window": window, "order": order, "used": after_used.get(mname), "fresh": after_fresh[mname]})
        ctx.truth("twin:basis-verdicts", in_window_used.get(mname) == in_window_fresh[mname],
                  key=f"twin-differs:atol-window:{cls.__name__}.{mname}:used-basis-ignores-current-tolerance",
                  info={"delta": delta, "window": window, "order": order, "used": in_window_used.get(mname), "fresh": in_window_fresh[mname]})
    H.state_events += 1
    H.note_class("basis")


# =================================================================== workload


def init_pool(H):
    """base members of one history (constructors: exempt from the purity verdicts)"""
    rng, Q, W = H.rng, H.Q, H.world
    sig = []

    last = {"eps": 0.0}

    def perturb(x):
        # far from physical, or off by an amount that only some tolerances accept
        eps = last["eps"] = float(rng.choice([0.05, 1e-4, 1e-5, 1e-8]))
        return x + eps * rng.standard_normal(np.shape(x))

    def sens():
        e, last["eps"] = last["eps"], 0.0
        return {"sensitive": 0.0 < e < 1e-3}

    with H.hs.paused():
        for key in H.keys:
            c = W.csys(CSYS[key])
            d = c.dim
            B = gen.basis_of(c)
            one = len(CSYS[key]) == 1
            kw = lambda: {"is_physicality_required": False, "on_para_eq_constraint": bool(rng.random() < 0.5)}  # noqa: E731
            for j in range(2):
                v = gen.real_coeffs(B, ref.rand_density(d, rng, None if j == 0 else 1))
                if j == 1:
                    v = perturb(v)
                H.add("State", Q.State(c, np.ascontiguousarray(v), **kw()), "base", meta=sens())
                sig.append(v)
            for j in range(2 if one else 1):
                m = int(rng.integers(2, 4))
                vs = [gen.real_coeffs(B, x) for x in ref.rand_povm(d, m, rng)]
                if j == 1:
                    vs = [perturb(x) for x in vs]
                H.add("Povm", Q.Povm(c, [np.ascontiguousarray(x) for x in vs], **kw()), "base", meta=sens())
                sig.append(vs[0])
            if not one:
                continue
            for j in range(2):
                hs_ = gen.hs_real(B, ref.kraus_map(ref.rand_kraus(d, int(rng.integers(1, 3)), rng)))
                if j == 1:
                    hs_ = perturb(hs_)
                H.add("Gate", Q.Gate(c, np.ascontiguousarray(hs_), **kw()), "base", meta=sens())
                sig.append(hs_)
            for j in range(2 if d == 2 else 1):
                hss = [gen.hs_real(B, ref.kraus_map(ks)) for ks in ref.rand_instrument(d, 2, rng, [1, int(rng.integers(1, 3))])]
                if j == 1:
                    hss = [perturb(x) for x in hss]
                H.add("MProcess", Q.MProcess(c, [np.ascontiguousarray(x) for x in hss], **kw()), "base", meta=sens())
        for shape in ((2, 3), (2, 2, 2)):
            ps = rng.dirichlet(np.ones(int(np.prod(shape))))
            ps[0] += ps[1] - 1e-10
            ps[1] = 1e-10  # below eps_zero: the constructor zeroes it in the array it adopts (exempt)
            H.add("MD", Q.MD(np.array(ps), shape=shape), "base")
        # tomographies on the first one-qubit system of the flavour, with their own testers
        key0 = H.keys[0]
        c = W.csys(CSYS[key0])
        d = c.dim
        kinds = [str(k) for k in rng.choice(["qst", "povmt", "qpt", "qmpt"], size=3, replace=False, p=[0.3, 0.3, 0.25, 0.15])]
        for kind in kinds:
            flag = bool(rng.random() < 0.5)
            states = [gen.make_state(c, 0.85 * ref.rand_density(d, rng) + 0.15 * np.eye(d) / d) for _ in range(4)]
            povms = [gen.rand_povm(c, 2, rng) for _ in range(3 if kind != "qmpt" else 2)]
            m = 2 if kind == "qmpt" else int(rng.integers(2, 4))
            sp = {"qt": kind, "flag": flag, "m": m, "states": [qop_spec(x) for x in states], "povms": [qop_spec(x) for x in povms]}
            qt = qt_build(sp, W)
            qm = H.add("qt", qt, "base", meta={"qt": kind, "m": m})
            mk = {"qst": lambda: gen.rand_state(c, rng, on_para_eq_constraint=flag),
                  "povmt": lambda: gen.rand_povm(c, m, rng, on_para_eq_constraint=flag),
                  "qpt": lambda: gen.rand_gate(c, rng, on_para_eq_constraint=flag),
                  "qmpt": lambda: gen.rand_mprocess(c, m, rng, on_para_eq_constraint=flag)}[kind]
            for k in range(2):
                P = qt.calc_prob_dists(mk())
                n = int(rng.choice([50, 200, 1000]))
                data = []
                for pj in P:
                    pj = np.clip(np.asarray(pj, dtype=np.float64), 0, None)
                    pj = pj / pj.sum()
                    data.append((n, np.asarray(rng.multinomial(n, pj), dtype=np.float64) / n))
                H.datasets[(qm.id, k)] = data
        H.est = Q.Estimator()
        H.losses, H.algos, H.algo_prev, H.algo_first, H.loss_used, H.est_configs = {}, {}, {}, {}, set(), []
        H.dig = H.full_digest()
    return sig


WEIGHTS = {"query": 9, "convert": 12, "proj": 10, "closure": 8, "arith": 5, "compose": 10, "tensor": 3, "copy": 7,
           "cache": 10, "atol": 6, "estimate": 9, "estimate-seq": 2, "dist": 4, "basis": 3}


def step(H, queue):
    """one step of the history: planned (pattern) step if any, else a random one"""
    rng = H.rng
    if queue:
        item = queue.pop(0)
        if item[0] == "op":
            _, op, atol, cls = item
            if all(i in H.members for i in op.operands):
                H.run(op, atol=atol, cls=cls)
                return
        elif item[0] == "estimate":
            run_estimate(H, item[1], seq=False)
            return
    if H.log and rng.random() < 0.08:
        op, atol, cls = H.log[int(rng.integers(len(H.log)))]
        if all(i in H.members for i in op.operands):
            H.run(op, atol=atol, cls=cls)  # the same call again, later in the history (memo)
            return
    names = sorted(WEIGHTS)
    w = np.array([WEIGHTS[n] * (2.0 if (n == "tensor" and H.flavour == "AB") else 1.0) for n in names], dtype=float)
    cls = names[int(rng.choice(len(names), p=w / w.sum()))]
    if cls in ("estimate", "estimate-seq"):
        cfg = new_config(H)
        H.est_configs.append(dict(cfg))
        run_estimate(H, cfg, seq=(cls == "estimate-seq"))
        if cls == "estimate" and rng.random() < 0.35 and len(H.est_configs) >= 2:
            # configure-A / configure-B / query-A: come back to an earlier configuration after the next steps
            queue.append(("estimate", dict(H.est_configs[int(rng.integers(len(H.est_configs) - 1))])))
        return
    if cls == "copy":
        if rng.random() < 0.6:
            run_copy_write(H)
        else:
            op = g_copy(H)
            if op is not None:
                H.run(op)
        return
    if cls == "basis":
        if rng.random() < 0.4:
            run_basis_verdicts(H)
        else:
            run_basis(H)
        return
    if cls == "cache":
        H.state_events += 1
        if rng.random() < 0.45:
            # use / delete some caches / access in any order / use again
            use = g_convert(H)
            key = str(rng.choice(H.keys))
            pool = CHEAP_CACHES if (key != "A" and key != "B") else CACHES
            dels = [str(x) for x in rng.choice(pool, size=int(rng.integers(1, min(4, len(pool)) + 1)), replace=False)]
            gets = [str(x) for x in rng.choice(pool, size=int(rng.integers(1, 3)), replace=False)]
            if use is not None:
                H.run(use)
                queue.append(("op", use, None, use.cls))
            for nme in dels:
                queue.insert(0, ("op", op_cache_delete(key, nme), None, "cache"))
            for nme in gets:
                queue.insert(len(dels), ("op", op_cache_get(key, nme), None, "cache"))
            return
        H.run(g_cache(H))
        return
    if cls == "atol":
        op = g_atol_inner(H)
        if op is None:
            return
        x = float(rng.choice([1e-10, 1e-6, 1e-3, 1e-2, 1e-2]))
        H.state_events += 1
        wrapped = Op(op.cls, "atol-window:" + op.label, op.operands, op.fn, params=op.params, on_result=op.on_result,
                     roles=op.roles)
        if rng.random() < 0.5:
            H.run(op)                      # default tolerance
            H.run(wrapped, atol=x, cls="atol")
            queue.append(("op", op, None, op.cls))   # default tolerance again, later (memo: window left no trace)
        else:
            H.run(wrapped, atol=x, cls="atol")
        return
    g = {"query": g_query, "convert": g_convert, "proj": g_proj, "arith": g_arith, "compose": g_compose, "tensor": g_tensor,
         "dist": g_dist, "closure": (g_closure_call if rng.random() < 0.65 else g_closure_create)}[cls]
    op = g(H)
    if op is not None:
        H.run(op)


def run_history(ctx, Q, hs, mon, flavour, steps):
    rng = ctx.rng()
    default_atol = Q.Settings.get_atol()
    H = History(ctx, Q, hs, mon, rng, flavour, steps)
    sig = init_pool(H)
    queue = []
    n = 0
    guard = 0
    while n < steps and guard < 4 * steps:
        guard += 1
        before = len(H.labels)
        step(H, queue)
        n += len(H.labels) - before
        if Q.Settings.get_atol() != default_atol:
            ctx.violation("settings:atol-not-restored-after-step", {"atol": Q.Settings.get_atol()})
            Q.Settings.set_atol(default_atol)
    ctx.count("steps", n)
    if H.after_state_event > 0:
        ctx.nontrivial(flavour, tuple(H.labels), np.hstack([np.ravel(x) for x in sig]))
    return H


def run_shard(ctx):
    p = ctx.params
    Q = quara_names()
    default_atol = Q.Settings.get_atol()
    hs, mon = install_hooks(ctx, Q)
    worst = {}
    try:
        for i in ctx.cases(p["n"]):
            H = run_history(ctx, Q, hs, mon, p["flavour"], p["steps"])
            for k, v in H.worst.items():
                worst[k] = max(worst.get(k, 0.0), v)
            if i < 1:
                ctx.sample({"flavour": p["flavour"], "steps": p["steps"], "first_operations": H.labels[:25],
                            "pool_members": sorted({m.kind for m in H.members.values()}),
                            "estimation_configurations": H.est_configs[:3]})
    finally:
        Q.Settings.set_atol(default_atol)
        hs.uninstall()
    ctx.extra["worst"] = worst
    ctx.extra["hook_counts"] = {k: v for k, v in hs.counts.items() if v}
    ctx.extra["hook_skipped_over_budget"] = mon.skipped


def finalize(merged, ctx):
    tier = ctx.tier
    counters = merged["counters"]
    for c in CLASSES:
        n = counters.get("class:" + c, 0)
        need = MIN_CLASS[tier][c]
        if n < need:
            ctx.mark_inconclusive(f"operation class '{c}' executed only {n} steps (< {need})")
    worst = {}
    for e in merged["extra"]:
        for k, v in (e["extra"].get("worst") or {}).items():
            worst[k] = max(worst.get(k, 0.0), v)
    ctx.note("worst pool-vs-twin relative difference per class: " + ", ".join(f"{k}={v:.2e}" for k, v in sorted(worst.items())))
    ctx.note("steps per class: " + ", ".join(f"{c}={counters.get('class:' + c, 0)}" for c in CLASSES))
