"""C09  Linear estimation inverts the forward model exactly.

Contracts on `LinearEstimator.calc_estimate(_sequence)` and on the result
accessors `estimated_var(_sequence)`, `estimated_qoperation(_sequence)`, plus
one on the library's own consistency routine.  Every execution is judged:

* normal equations   A^T (A v + b - f) = 0  with A, b read from the tomography
  object and f the data actually passed (any data: exact, sampled, adversarial);
* exact data of a physical object (reference Born rule on the operators, and the
  library's own circuit) => estimated_var = var(o), estimated_qoperation = o;
* the returned QOperation denotes the least-squares point: its reference Born
  prediction equals A v + b and its residual is orthogonal to the model;
* a sequence gives bitwise the results of one-at-a-time estimation;
* replacing every sample count by other positive integers changes nothing;
* a tester set that is not informationally complete raises, never returns;
* calc_mse_of_true_estimated < 1e-20 for every true object.

History / combination steps (every IC case, own RNG stream ctx.rng(1), so the
ordinary workload above is unchanged; all answers are judged by the same
contracts, the statement being "for every tomography, every data vector"):

* twin-tomography   a second tomography of the same class / flag / size of A
  (testers rotated by a random unitary, every second one through copy(),
  schedule list passed explicitly and permuted, non-default constructor
  options with p=1/2) is estimated alternately with the first one, by the
  shard's estimator and by a fresh one, with the SAME dataset objects (one of
  them twice in one sequence), first call a single estimate, other sequence
  lengths, is_computation_time_required given; results of both are read in
  interleaved order; the twin's circuit data come from a copy() of the true
  object, the library's consistency routine runs with the SAME true object
  and the twin;
* sibling-other-parametrisation  a tomography with the other value of
  on_para_eq_constraint on the SAME tester objects is estimated by the same
  estimator between two uses of the first one; earlier results read again;
* library-made-data data lists as returned by generate_empi_dists(_sequence)
  and by calc_prob_dists(estimated_qoperation of an exact-data estimate) (rows
  are views of one array) are handed to the estimator unchanged;
* via-pickle        (tomography, estimator) and a result after a pickle round
  trip (the library pickles them in SimulationResult.to_pickle);
* transient-tomography  tomographies created, used once and dropped one after
  the other (address re-use: caches keyed by id());
* second-call       at the very end, after reset_seed(): every result object
  obtained in the ordinary part is read again through all four accessors in
  another order, the first sequence call is repeated on the same objects and
  must reproduce its estimates, and a single estimate is repeated.
A third of the primary tomographies is built with non-default constructor
options (is_estimation_object, eps_proj_physical, eps_truncate_imaginary_part,
seed_data; never case 0).  A violation that shows only in a history step
carries the step's name as key suffix (PhaseKeys).
"""
import contextlib
import math
import os
import pickle
from collections import OrderedDict

import numpy as np

from qv import gen, ref
from qv.monitor import HookSet, digest

ID = "C09"
RULE = ("tomography instances of 4 types (QST, POVMT, QPT, QMPT) x on_para_eq_constraint in {F,T} x shapes S1,S3,S2 "
        "with random tester sets (full-rank or rank-1/projective testers, equal outcome counts m in 2..4, minimal "
        "complete or over-complete by 1..3 testers) and a random true object (interior / boundary rank-deficient / "
        "pure-projective-unitary); per instance 7-8 datasets: exact (library circuit and reference Born rule), sampled "
        "with 1..1e4 shots per schedule (zeros present), adversarial (negative, non-normalised, zero, integer counts, "
        "huge, spike); a case is distinct by (type, shape, flag, tester kind, tester count, true-object kind, rounded "
        "true parameters) and non-trivial when A has full column rank with b != 0 or over-complete testers or "
        "non-exact data, which every generated case satisfies; non-IC instances (commuting testers: rank-deficient; too "
        "few testers: underdetermined; one POVM with d^2-1 outcomes: square singular) are separate cases, every 4th; every IC "
        "case then runs history steps on the same objects: a same-size twin tomography (rotated testers, partly via copy(), "
        "permuted explicit schedule list, non-default constructor options) and a sibling with the other parametrisation on "
        "the same tester objects, estimated alternately with the first one by the "
        "shard's and by a fresh estimator with the same dataset objects; data lists made by the library itself; pickle round "
        "trips of tomography, estimator and result; tomographies created and dropped in sequence; finally reset_seed(), all "
        "results read again in another order and the first calls repeated; a third of the primary tomographies has "
        "non-default constructor options")
_LE = "quara/protocol/qtomography/standard/linear_estimator.py:LinearEstimator."
_ER = "quara/protocol/qtomography/standard/standard_qtomography_estimator.py:StandardQTomographyEstimationResult."
_SQ = "quara/protocol/qtomography/standard/standard_qtomography.py:StandardQTomography."
ANCHORS = [
    _LE + "calc_estimate", _LE + "calc_estimate_sequence",
    _ER + "estimated_var", _ER + "estimated_var_sequence",
    _ER + "estimated_qoperation", _ER + "estimated_qoperation_sequence",
    _SQ + "calc_matA", _SQ + "calc_vecB", _SQ + "is_fullrank_matA", _SQ + "generate_prob_dists_sequence",
    "quara/simulation/consistency_check.py:calc_mse_of_true_estimated",
]
REQUIRED_REACH = ANCHORS
REQUIRED_ORACLES = [
    "normal-equations", "exact-data:estimated_var=var(true)", "estimated_qoperation:recovers-true",
    "estimated_qoperation:prediction=A.v+b", "estimated_qoperation:residual-orthogonal",
    "sequence=one-at-a-time", "sample-counts-irrelevant", "consistency_check:mse",
    "estimated_var:is-the-estimate", "estimated_var_sequence:is-the-estimates", "calc_estimate:normal-equations",
]
MIN_EVALS = {"quick": 10000, "thorough": 100000}
WATCHDOG = {"quick": 900, "thorough": 3600}
ASSUMPTIONS = [
    "A = calc_matA() and b = calc_vecB() are read from the tomography object (their agreement with the circuit is "
    "C08's business); the reference Born rule is evaluated on operator matrices / raw coefficient arrays only",
    "testers use identity-first orthonormal Hermitian bases (normalised Pauli / Gell-Mann and their tensor products)",
    "tolerances scale with cond(A) of the tester set (redrawn up to 8 times when cond(A) > 300; executions with "
    "cond(A) > 1e4 are not judged)",
]

TOMOS = ["qst", "povmt", "qpt", "qmpt"]
KAPPA_MAX = 300.0


def shards(tier, seed):
    out = []
    if tier == "quick":
        n_of = {("S1", "qst"): 32, ("S1", "povmt"): 32, ("S1", "qpt"): 28, ("S1", "qmpt"): 24,
                ("S3", "qst"): 24, ("S3", "povmt"): 20, ("S3", "qpt"): 12, ("S3", "qmpt"): 8,
                ("S2", "qst"): 12, ("S2", "povmt"): 8}
        parts = {("S3", "qpt"): 2, ("S3", "qmpt"): 2}
    else:
        n_of = {("S1", "qst"): 480, ("S1", "povmt"): 480, ("S1", "qpt"): 360, ("S1", "qmpt"): 300,
                ("S3", "qst"): 300, ("S3", "povmt"): 240, ("S3", "qpt"): 108, ("S3", "qmpt"): 72,
                ("S2", "qst"): 150, ("S2", "povmt"): 120, ("S2", "qpt"): 24, ("S2", "qmpt"): 12}
        parts = {("S1", "qst"): 2, ("S1", "povmt"): 2, ("S1", "qpt"): 2, ("S1", "qmpt"): 2,
                 ("S3", "qst"): 2, ("S3", "povmt"): 2, ("S3", "qpt"): 4, ("S3", "qmpt"): 4,
                 ("S2", "qst"): 2, ("S2", "povmt"): 2, ("S2", "qpt"): 4, ("S2", "qmpt"): 4}
    cost = {"S1": 1, "S3": 6, "S2": 30}
    tcost = {"qst": 1, "povmt": 1.5, "qpt": 6, "qmpt": 12}
    for (shape, tomo), n in n_of.items():
        for flag in (False, True):
            k = parts.get((shape, tomo), 1)
            per = int(math.ceil(n / k))
            for part in range(k):
                out.append({"tomo": tomo, "shape": shape, "flag": flag, "n": per, "start": part * per,
                            "weight": cost[shape] * tcost[tomo] * per})
    return out


# --------------------------------------------------------------- reference


def raw_list(obj):
    """raw parameter arrays of a quara object as a list of float arrays"""
    t = gen.type_of(obj)
    if t == "State":
        return [np.asarray(obj.vec, dtype=np.float64)]
    if t == "Povm":
        return [np.asarray(v, dtype=np.float64) for v in obj.vecs]
    if t == "Gate":
        return [np.asarray(obj.hs, dtype=np.float64)]
    if t == "MProcess":
        return [np.asarray(h, dtype=np.float64) for h in obj.hss]
    raise TypeError(t)


def raw_flat(obj):
    return np.hstack([np.ravel(a) for a in raw_list(obj)])


def ref_var(t, raws, flag):
    """variable vector of an object from its raw arrays (stated convention:
    with the equality constraint built in, the dependent parameters - first
    state coefficient, last POVM element, first HS row (of the last element) -
    are dropped; otherwise all raw parameters in storage order)."""
    if not flag:
        return np.hstack([np.ravel(a) for a in raws])
    if t == "State":
        return np.ravel(raws[0])[1:]
    if t == "Povm":
        return np.hstack([np.ravel(a) for a in raws[:-1]])
    if t == "Gate":
        return np.ravel(raws[0][1:, :])
    if t == "MProcess":
        return np.hstack([np.ravel(a) for a in raws[:-1]] + [np.ravel(raws[-1][1:, :])])
    raise TypeError(t)


class Forward:
    """Reference Born rule on raw coefficient arrays for one tomography object:
    p(schedule, outcome) from the testers read off the experiment."""

    def __init__(self, qt):
        exp = qt.experiment
        self.tomo = type(qt).__name__
        self.schedules = [list(map(tuple, s)) for s in exp.schedules]
        self.states = [None if s is None else np.asarray(s.vec, dtype=np.float64) for s in exp.states]
        self.povms = [None if p is None else [np.asarray(v, dtype=np.float64) for v in p.vecs] for p in exp.povms]
        tester = next(x for x in list(exp.states) + list(exp.povms) if x is not None)
        B = gen.basis_of(tester.composite_system)
        F = np.array([b.reshape(-1) for b in B])
        Ft = np.array([b.T.reshape(-1) for b in B])
        self.G = (Ft @ F.T)  # G[a,b] = Tr[B_a B_b]
        # p = m^T G s for an element vector m and a state vector s: rows m^T G per tester POVM, columns G s per tester state
        self.MG = [None if p is None else np.vstack(p) @ self.G for p in self.povms]
        self.Gs = [None if s is None else self.G @ s for s in self.states]

    def predict(self, raws):
        out = []
        for sch in self.schedules:
            idx = {k: i for k, i in sch}
            if self.tomo == "StandardQst":
                out.append(self.MG[idx["povm"]] @ raws[0])
            elif self.tomo == "StandardPovmt":
                out.append(np.vstack(raws) @ self.Gs[idx["state"]])
            elif self.tomo == "StandardQpt":
                out.append(self.MG[idx["povm"]] @ (raws[0] @ self.states[idx["state"]]))
            elif self.tomo == "StandardQmpt":
                for h in raws:  # mprocess outcome first (it happens first), tester outcome second
                    out.append(self.MG[idx["povm"]] @ (h @ self.states[idx["state"]]))
            else:
                raise TypeError(self.tomo)
        return np.real(np.hstack(out)).astype(np.float64)


def lin_info(A):
    A = np.asarray(A, dtype=np.float64)
    rows, cols = A.shape
    s = np.linalg.svd(A, compute_uv=False)
    smax = float(s[0]) if s.size else 0.0
    if rows < cols:
        return {"cls": "non-ic", "why": "underdetermined", "smax": smax, "kappa": float("inf"), "shape": [rows, cols]}
    smin = float(s[cols - 1])
    if smin <= 1e-11 * smax:
        return {"cls": "non-ic", "why": "rank-deficient", "smax": smax, "kappa": float("inf"), "shape": [rows, cols]}
    kappa = smax / smin
    return {"cls": "ic" if kappa <= 1e4 else "free", "why": "", "smax": smax, "kappa": kappa, "shape": [rows, cols]}


def data_vector(ds):
    return np.hstack([np.ravel(np.asarray(p)) for _, p in ds]).astype(np.float64)


def well_formed(seq, A, qt):
    try:
        for ds in seq:
            if len(ds) != qt.num_schedules:
                return False
            lens = {np.asarray(p).size for _, p in ds}
            if len(lens) != 1:
                return False
            f = data_vector(ds)
            if f.shape[0] != A.shape[0] or not np.all(np.isfinite(f)):
                return False
        return True
    except Exception:
        return False


# ------------------------------------------------------------------ monitor


class Judge:
    def __init__(self, ctx):
        self.ctx = ctx
        self.exact = {}      # id(dataset list) -> (dataset, truth dict)
        self.label = {}      # id(dataset list) -> (dataset, class string)
        self.registry = OrderedDict()  # id(result) -> entry
        self.fwd = OrderedDict()       # id(qt) -> (qt, Forward)
        self.kappas = []
        self.worst = {}
        # nested metamorphic re-estimations per observed call: all in the ordinary part (up to 4 datasets alone, 3 count
        # variants); in the history steps (lite) one dataset alone (first / last in rotation) and one count variant (in rotation)
        self.lite = False
        self.ncall = 0

    def forward(self, qt):
        c = self.fwd.get(id(qt))
        if c is None or c[0] is not qt:
            c = (qt, Forward(qt))
            self.fwd[id(qt)] = c
            while len(self.fwd) > 8:
                self.fwd.popitem(last=False)
        return c[1]

    def clear_case(self):
        self.exact.clear()
        self.label.clear()
        self.lite = False

    def cls_of(self, ds, qt=None):
        c = self.label.get(id(ds))
        if c is None or c[0] is not ds:
            return "unlabelled"
        e = self.exact.get(id(ds))
        if qt is not None and e is not None and e[0] is ds and not any(o is qt for o in e[2]):
            return c[1] + ":of-another-tomography"  # exact for its own testers, arbitrary data for this one
        return c[1]

    def set_truth(self, ds, truth, owners):
        """ds holds exact distributions of the true object for the tomographies in owners (same testers)"""
        self.exact[id(ds)] = (ds, truth, list(owners))

    def share_truth(self, ds, qt):
        c = self.exact.get(id(ds))
        if c is not None and c[0] is ds:
            c[2].append(qt)

    def truth_of(self, ds, qt):
        c = self.exact.get(id(ds))
        if c is None or c[0] is not ds or not any(o is qt for o in c[2]):
            return None
        return c[1]

    def adopt(self, clone, res):
        """a result object that is a copy (pickle round trip) of a judged one answers for the same estimates"""
        e = self.registry.get(id(res))
        if e is not None and e["res"] is res:
            self.registry[id(clone)] = dict(e, res=clone)

    def forget(self, qt):
        """drop every reference the monitor holds to a tomography (so that the object can really be freed)"""
        for k in [k for k, e in self.registry.items() if e["qt"] is qt]:
            del self.registry[k]
        for k in [k for k, c in self.fwd.items() if c[0] is qt]:
            del self.fwd[k]
        for k in [k for k, c in self.exact.items() if any(o is qt for o in c[2])]:
            del self.exact[k]
            self.label.pop(k, None)

    def num(self, oracle, err, tp, tf, key=None, info=None):
        """ctx.num + book-keeping of the worst err/tol_pass per oracle (margin)"""
        try:
            r = float(err) / tp if tp > 0 else (0.0 if float(err) == 0.0 else float("inf"))
            if math.isfinite(r):
                self.worst[oracle] = max(self.worst.get(oracle, 0.0), r)
        except Exception:  # noqa: BLE001
            pass
        return self.ctx.num(oracle, err, tp, tf, key=key, info=info)


def tomo_tag(qt):
    return f"{type(qt).__name__}:para_eq={'T' if qt.on_para_eq_constraint else 'F'}"


def normal_eq_error(A, b, f, v, smax):
    v = np.asarray(v, dtype=np.float64)
    r = A.T @ (A @ v + b - f)
    scale = smax * (smax * float(np.linalg.norm(v)) + float(np.linalg.norm(f)) + float(np.linalg.norm(b)))
    rn = float(np.linalg.norm(r))
    if rn == 0.0:
        return 0.0
    return rn / scale if scale > 0 else float("inf")


def tol_normal(kappa):
    tp = 1e-13 * max(10.0, kappa)
    return tp, max(1e-8, 1e3 * tp)


def tol_recover(kappa, smax=1.0, data_err=0.0):
    """exact data => recovery.  The estimator forms inv(A^T A): its forward error is c*cond(A)^2*eps (measured on the
    unchanged tree: err/cond^2 <= 2.3e-16 for cond 1..1e4), so tol_pass = max(cond*1e-13, cond^2*3e-14) and
    tol_fail = max(1e-8, cond*1e-10, 100*tol_pass).  Data that are exact only up to data_err (the circuit truncates
    probabilities below atol and renormalises) move the least-squares point by <= data_err / sigma_min."""
    shift = data_err * kappa / smax if smax > 0 else 0.0
    tp = max(1e-13 * max(1.0, kappa), 3e-14 * kappa * kappa)
    return tp + 10.0 * shift, max(1e-8, 1e-10 * kappa, 100.0 * tp) + 1e3 * shift


def install(ctx):
    from quara.protocol.qtomography.standard.linear_estimator import LinearEstimator
    from quara.protocol.qtomography.standard.standard_qtomography_estimator import StandardQTomographyEstimationResult
    import quara.simulation.consistency_check as cc

    hs = HookSet(ctx)
    J = Judge(ctx)
    PRE = "LinearEstimator.calc_estimate_sequence"

    def read_model(qt):
        A = np.asarray(qt.calc_matA(), dtype=np.float64)
        b = np.asarray(qt.calc_vecB(), dtype=np.float64)
        return A, b, lin_info(A)

    # ---- calc_estimate_sequence ------------------------------------------
    def pre_seq(est, qt, seq, *a, **kw):
        return {"digest": digest(seq)}

    def post_seq(result, snap, est, qt, seq, *a, **kw):
        tag = tomo_tag(qt)
        A, b, li = read_model(qt)
        info0 = {"tomo": tag, "A_shape": li["shape"], "kappa": li["kappa"], "n_datasets": len(seq)}
        if li["cls"] == "non-ic":
            why = li["why"]
            if why == "rank-deficient" and int(np.linalg.matrix_rank(A)) == A.shape[1]:
                # mechanism class only (not the verdict): sigma_min is at rounding level (<= 1e-11 sigma_max) yet
                # above numpy's default rank tolerance of a few eps
                why = "rank-deficient:rounding-noise-passes-default-rank-tolerance"
            # The property quantifies over informationally complete tester sets only; what the estimator does for
            # a non-IC set (raise, or return some vector) is recorded, not judged.  (Observed: the estimator's
            # guard compares the rank with min(A.shape), so under-determined sets get past it.)
            ctx.count(f"recorded-not-judged:non-IC:{why}:returns-value")
            return
        if li["cls"] == "free":
            ctx.skip("normal-equations")
            return
        kappa, smax = li["kappa"], li["smax"]
        J.kappas.append(kappa)
        if snap is not None:
            ctx.truth("data-not-mutated", digest(seq) == snap["digest"], key=f"{PRE}:mutates-data:{tag}", info=info0)
        vs = [np.array(v, dtype=np.float64, copy=True) for v in result.estimated_var_sequence]
        if not ctx.truth("sequence-length", len(vs) == len(seq), key=f"{PRE}:wrong-number-of-estimates:{tag}",
                         info=dict(info0, got=len(vs))):
            return
        fs = []
        tp, tf = tol_normal(kappa)
        for k, ds in enumerate(seq):
            f = data_vector(ds)
            fs.append(f)
            v = vs[k]
            cls = J.cls_of(ds, qt)
            ok_shape = v.ndim == 1 and v.shape[0] == A.shape[1]
            if not ctx.truth("estimate-shape", ok_shape, key=f"{PRE}:estimate-shape:{tag}", info=dict(info0, got=list(v.shape))):
                continue
            err = normal_eq_error(A, b, f, v, smax)
            J.num("normal-equations", err, tp, tf, key=f"{PRE}:normal-equations:{tag}",
                    info=dict(info0, data=cls, position=("first" if k == 0 else "later")))
            tr = J.truth_of(ds, qt)
            if tr is not None:
                vt = tr["var"]
                e = float(np.max(np.abs(v - vt))) / max(1.0, float(np.max(np.abs(vt))))
                rp, rf = tol_recover(kappa, smax, tr.get("data_err", 0.0))
                J.num("exact-data:estimated_var=var(true)", e, rp, rf, key=f"{PRE}:exact-data-not-recovered:{tag}",
                        info=dict(info0, data=cls, true_kind=tr["kind"], position=("first" if k == 0 else "later")))
        # ---- metamorphic: one at a time, other sample counts (unobserved nested calls)
        idxs = list(range(len(seq))) if len(seq) <= 4 else [0, 1, len(seq) // 2, len(seq) - 1]
        variants = (("scaled", lambda n, j: 3 * int(n) + 1 + j), ("ones", lambda n, j: 1), ("huge", lambda n, j: 10**9 + 7 * j))
        if J.lite:
            J.ncall += 1
            idxs = [0 if (J.ncall // 3) % 2 else len(seq) - 1]
            variants = variants[J.ncall % 3:][:1]
        tcf = max(1e-9, 1e-13 * kappa * kappa)
        for k in idxs:
            try:
                single = est.calc_estimate(qt, seq[k])
                v1 = np.asarray(single.estimated_var, dtype=np.float64)
            except Exception as e:  # noqa: BLE001
                ctx.truth("sequence=one-at-a-time", False, key=f"{PRE}:one-at-a-time-raises:{type(e).__name__}:{tag}", info=info0)
                continue
            same = v1.shape == vs[k].shape and np.array_equal(v1, vs[k])
            if same:
                ctx.count("sequence-vs-single:bitwise")
                d = 0.0
            else:
                ctx.count("sequence-vs-single:not-bitwise")
                d = (float(np.max(np.abs(v1 - vs[k]))) / max(1.0, float(np.max(np.abs(vs[k]))))) if v1.shape == vs[k].shape else float("inf")
            J.num("sequence=one-at-a-time", d, 1e-15, tcf, key=f"{PRE}:sequence-differs-from-one-at-a-time:{tag}",
                    info=dict(info0, position=("first" if k == 0 else "later"), data=J.cls_of(seq[k], qt)))
        for variant, fn in variants:
            seq2 = [[(fn(n, j), p) for j, (n, p) in enumerate(ds)] for ds in seq]
            try:
                r2 = est.calc_estimate_sequence(qt, seq2)
                vs2 = [np.asarray(v, dtype=np.float64) for v in r2.estimated_var_sequence]
            except Exception as e:  # noqa: BLE001
                ctx.truth("sample-counts-irrelevant", False, key=f"{PRE}:other-sample-counts-raise:{type(e).__name__}:{tag}",
                          info=dict(info0, variant=variant))
                continue
            same = len(vs2) == len(vs) and all(x.shape == y.shape and np.array_equal(x, y) for x, y in zip(vs2, vs))
            d = 0.0
            if not same:
                d = max((float(np.max(np.abs(x - y))) / max(1.0, float(np.max(np.abs(y)))) if x.shape == y.shape else float("inf"))
                        for x, y in zip(vs2, vs)) if len(vs2) == len(vs) else float("inf")
            ctx.truth("sample-counts-irrelevant", same, key=f"{PRE}:estimate-depends-on-sample-counts:{tag}",
                      info=dict(info0, variant=variant, max_rel_diff=d))
        entry = {"res": result, "qt": qt, "A": A, "b": b, "li": li, "fs": fs, "vs": vs, "seq": list(seq), "tag": tag}
        J.registry[id(result)] = entry
        while len(J.registry) > 64:
            J.registry.popitem(last=False)

    def exc_seq(exc, snap, est, qt, seq, *a, **kw):
        try:
            A, b, li = read_model(qt)
        except Exception:  # noqa: BLE001
            return
        tag = tomo_tag(qt)
        info0 = {"tomo": tag, "A_shape": li["shape"], "kappa": li["kappa"], "raised": type(exc).__name__}
        if li["cls"] == "non-ic":
            ctx.count("recorded-not-judged:non-IC:raises")
            ctx.count(f"non-IC:{li['why']}:raised:{type(exc).__name__}")
        elif li["cls"] == "ic" and well_formed(seq, A, qt):
            ctx.truth("IC:returns", False, key=f"{PRE}:raises-on-IC-tester-set:{type(exc).__name__}:{tag}", info=info0)
        else:
            ctx.skip("IC:returns")

    hs.method(LinearEstimator, "calc_estimate_sequence", pre=pre_seq, post=post_seq, on_exc=exc_seq)

    # ---- calc_estimate ----------------------------------------------------
    def post_one(result, snap, est, qt, ds, *a, **kw):
        tag = tomo_tag(qt)
        A, b, li = read_model(qt)
        if li["cls"] != "ic":
            return  # judged by the sequence hook
        vs = list(result.estimated_var_sequence)
        info0 = {"tomo": tag, "kappa": li["kappa"], "data": J.cls_of(ds, qt)}
        if not ctx.truth("calc_estimate:one-estimate", len(vs) == 1, key=f"LinearEstimator.calc_estimate:not-one-estimate:{tag}", info=info0):
            return
        f = data_vector(ds)
        v = np.asarray(result.estimated_var, dtype=np.float64)
        if v.ndim != 1 or v.shape[0] != A.shape[1]:
            ctx.truth("estimate-shape", False, key=f"LinearEstimator.calc_estimate:estimate-shape:{tag}", info=info0)
            return
        tp, tf = tol_normal(li["kappa"])
        J.num("calc_estimate:normal-equations", normal_eq_error(A, b, f, v, li["smax"]), tp, tf,
                key=f"LinearEstimator.calc_estimate:normal-equations:{tag}", info=info0)

    hs.method(LinearEstimator, "calc_estimate", post=post_one)

    # ---- accessors ----------------------------------------------------------
    R = StandardQTomographyEstimationResult
    RN = "EstimationResult"

    def entry_of(res):
        e = J.registry.get(id(res))
        return e if e is not None and e["res"] is res else None

    def post_var(result, snap, res):
        e = entry_of(res)
        if e is None:
            return
        ok = isinstance(result, np.ndarray) and result.shape == e["vs"][0].shape and np.array_equal(result, e["vs"][0])
        ctx.truth("estimated_var:is-the-estimate", ok, key=f"{RN}.estimated_var:not-the-first-estimate:{e['tag']}",
                  info={"n_datasets": len(e["vs"])})

    def post_var_seq(result, snap, res):
        e = entry_of(res)
        if e is None:
            return
        ok = len(result) == len(e["vs"]) and all(np.asarray(x).shape == y.shape and np.array_equal(x, y) for x, y in zip(result, e["vs"]))
        ctx.truth("estimated_var_sequence:is-the-estimates", ok, key=f"{RN}.estimated_var_sequence:differs-from-estimates:{e['tag']}",
                  info={"n_datasets": len(e["vs"]), "got": len(result)})

    def judge_qop(e, k, qop, label):
        tag = e["tag"]
        A, b, li = e["A"], e["b"], e["li"]
        kappa, smax = li["kappa"], li["smax"]
        v, f, ds = e["vs"][k], e["fs"][k], e["seq"][k]
        if v.ndim != 1 or v.shape[0] != A.shape[1] or f.shape[0] != A.shape[0]:
            return  # an estimate of the wrong size was reported where it was made (estimate-shape)
        want_t = e["qt"]._estimated_qoperation_type.__name__
        info0 = {"tomo": tag, "kappa": kappa, "data": J.cls_of(ds, e["qt"]), "position": "first" if k == 0 else "later"}
        if not ctx.truth("estimated_qoperation:type", gen.type_of(qop) == want_t, key=f"{RN}.{label}:wrong-type:{tag}",
                         info=dict(info0, got=gen.type_of(qop))):
            return
        raws = raw_list(qop)
        fwd = J.forward(e["qt"])
        try:
            p = fwd.predict(raws)
        except Exception as ex:  # noqa: BLE001 - malformed object
            ctx.truth("estimated_qoperation:prediction=A.v+b", False, key=f"{RN}.{label}:malformed-object:{type(ex).__name__}:{tag}", info=info0)
            return
        model = A @ v + b
        scale = max(1.0, smax * float(np.linalg.norm(v)) + float(np.linalg.norm(b)))
        d = float(np.max(np.abs(p - model))) / scale if p.shape == model.shape else float("inf")
        J.num("estimated_qoperation:prediction=A.v+b", d, 1e-12, 1e-8, key=f"{RN}.{label}:object-is-not-the-estimate:{tag}", info=info0)
        if p.shape != model.shape:
            return  # (object of another size: reported above; nothing more can be computed)
        r = A.T @ (p - f)
        sc = smax * (smax * float(np.linalg.norm(v)) + float(np.linalg.norm(f)) + float(np.linalg.norm(b)))
        rn = float(np.linalg.norm(r))
        err = 0.0 if rn == 0.0 else (rn / sc if sc > 0 else float("inf"))
        tp, tf = tol_normal(kappa)
        J.num("estimated_qoperation:residual-orthogonal", err, tp, tf, key=f"{RN}.{label}:residual-not-orthogonal:{tag}", info=info0)
        tr = J.truth_of(ds, e["qt"])
        if tr is not None:
            rt = tr["raw"]
            rf_ = np.hstack([np.ravel(x) for x in raws])
            ee = float(np.max(np.abs(rf_ - rt))) / max(1.0, float(np.max(np.abs(rt)))) if rf_.shape == rt.shape else float("inf")
            rp, rfail = tol_recover(kappa, smax, tr.get("data_err", 0.0))
            J.num("estimated_qoperation:recovers-true", ee, rp, rfail, key=f"{RN}.{label}:true-object-not-recovered:{tag}",
                    info=dict(info0, true_kind=tr["kind"]))

    def post_qop(result, snap, res):
        e = entry_of(res)
        if e is None:
            return
        judge_qop(e, 0, result, "estimated_qoperation")

    def post_qop_seq(result, snap, res):
        e = entry_of(res)
        if e is None:
            return
        if not ctx.truth("estimated_qoperation_sequence:length", len(result) == len(e["vs"]),
                         key=f"{RN}.estimated_qoperation_sequence:wrong-length:{e['tag']}", info={"got": len(result), "want": len(e["vs"])}):
            return
        for k, q in enumerate(result):
            judge_qop(e, k, q, "estimated_qoperation_sequence")

    hs.method(R, "estimated_var", post=post_var)
    hs.method(R, "estimated_var_sequence", post=post_var_seq)
    hs.method(R, "estimated_qoperation", post=post_qop)
    hs.method(R, "estimated_qoperation_sequence", post=post_qop_seq)

    # ---- the library's own consistency routine ---------------------------------
    def post_cc(result, snap, true_object, qtomography, estimator, *a, **kw):
        if not isinstance(estimator, LinearEstimator):
            return
        A, b, li = read_model(qtomography)
        if li["cls"] != "ic":
            return
        tag = tomo_tag(qtomography)
        mse, est = result
        kappa = li["kappa"]
        n = A.shape[1]
        # its data come from the circuit, which truncates probabilities below atol (1e-13) and renormalises
        smin = li["smax"] / kappa
        tp = max(1e-20, n * tol_recover(kappa)[0] ** 2, A.shape[0] * (1e-12 / smin) ** 2)
        tf = max(1e-16, 1e4 * tp)
        info0 = {"tomo": tag, "kappa": kappa}
        J.num("consistency_check:mse", float(mse), tp, tf, key=f"consistency_check.calc_mse_of_true_estimated:mse-not-zero:{tag}", info=info0)
        own = float(np.sum((raw_flat(est.estimated_qoperation) - raw_flat(true_object)) ** 2))
        J.num("consistency_check:own-squared-error", own, tp, tf,
                key=f"consistency_check.calc_mse_of_true_estimated:returned-estimate-is-not-true-object:{tag}", info=info0)

    hs.function(cc, "calc_mse_of_true_estimated", post=post_cc)
    return hs, J


# ----------------------------------------------------------------- workload


def n_povms_min(d, m):
    return int(math.ceil((d * d - 1) / (m - 1)))


def draw_tester_povms(d, rng, kind, extra, m=None):
    """list of POVMs (lists of matrices), all with the same number of outcomes"""
    if kind == "projective":
        m = d
        n = n_povms_min(d, m) + extra
        out = []
        for _ in range(n):
            u = ref.rand_unitary(d, rng)
            out.append([np.outer(u[:, i], u[:, i].conj()) for i in range(d)])
        return out, m
    m = int(m or rng.integers(2, 5))
    n = n_povms_min(d, m) + extra
    if kind == "rank1" and m >= d:
        return [ref.rand_povm(d, m, rng, 1) for _ in range(n)], m
    return [ref.rand_povm(d, m, rng) for _ in range(n)], m


def draw_tester_states(d, rng, kind, extra):
    n = d * d + extra
    if kind == "pure":
        return [ref.rand_density(d, rng, 1) for _ in range(n)]
    if kind == "mixed-rank":
        return [ref.rand_density(d, rng, int(rng.integers(1, d + 1))) for _ in range(n)]
    return [ref.rand_density(d, rng) for _ in range(n)]


def projective_sets(d, m, rng):
    u = ref.rand_unitary(d, rng)
    groups = np.array_split(np.arange(d), min(m, d))
    ps = [sum(np.outer(u[:, i], u[:, i].conj()) for i in g) for g in groups]
    while len(ps) < m:
        ps.append(np.zeros((d, d), dtype=complex))
    return ps


def draw_true(tomo, d, m, rng, kind):
    """operators of the true object; m = its number of outcomes (POVMT / QMPT)"""
    if tomo == "qst":
        if kind == "interior":
            return {"rho": ref.rand_density(d, rng)}
        if kind == "boundary":
            return {"rho": ref.rand_density(d, rng, max(1, d - 1))}
        return {"rho": ref.rand_density(d, rng, 1)}
    if tomo == "povmt":
        if kind == "interior":
            return {"ms": ref.rand_povm(d, m, rng)}
        if kind == "boundary":
            r = max(1, int(math.ceil(d / m)))
            return {"ms": ref.rand_povm(d, m, rng, r)}
        return {"ms": projective_sets(d, m, rng)}
    if tomo == "qpt":
        if kind == "interior":
            return {"sets": [ref.rand_kraus(d, d * d, rng)]}
        if kind == "boundary":
            return {"sets": [ref.rand_kraus(d, 2, rng)]}
        return {"sets": [[ref.rand_unitary(d, rng)]]}
    if tomo == "qmpt":
        if kind == "interior":
            return {"sets": ref.rand_instrument(d, m, rng, [d * d] * m)}
        if kind == "boundary":
            return {"sets": ref.rand_instrument(d, m, rng, [int(rng.integers(1, 3)) for _ in range(m)])}
        return {"sets": [[p] for p in projective_sets(d, m, rng)]}
    raise ValueError(tomo)


def make_true(tomo, c_sys, ops, **kw):
    if tomo == "qst":
        return gen.make_state(c_sys, ops["rho"], **kw)
    if tomo == "povmt":
        return gen.make_povm(c_sys, ops["ms"], **kw)
    if tomo == "qpt":
        return gen.make_gate(c_sys, kraus=ops["sets"][0], **kw)
    return gen.make_mprocess(c_sys, kraus_sets=ops["sets"], **kw)


def born_exact(tomo, schedules, st_mats, pv_mats, ops):
    """reference Born rule on operator matrices; list of distributions per schedule"""
    out = []
    for sch in schedules:
        idx = {k: i for k, i in sch}
        if tomo == "qst":
            out.append(ref.born(pv_mats[idx["povm"]], ops["rho"]))
        elif tomo == "povmt":
            out.append(ref.born(ops["ms"], st_mats[idx["state"]]))
        elif tomo == "qpt":
            sig = ref.kraus_map(ops["sets"][0])(st_mats[idx["state"]])
            out.append(ref.born(pv_mats[idx["povm"]], sig))
        else:
            ps = []
            for ks in ops["sets"]:
                sig = ref.kraus_map(ks)(st_mats[idx["state"]])
                ps += list(ref.born(pv_mats[idx["povm"]], sig))
            out.append(np.array(ps))
    return [np.asarray(p, dtype=np.float64) for p in out]


def build_qt(tomo, states, povms, m_true, flag, schedules="all", **opts):
    from quara.protocol.qtomography.standard.standard_povmt import StandardPovmt
    from quara.protocol.qtomography.standard.standard_qmpt import StandardQmpt
    from quara.protocol.qtomography.standard.standard_qpt import StandardQpt
    from quara.protocol.qtomography.standard.standard_qst import StandardQst

    if tomo == "qst":
        return StandardQst(povms, on_para_eq_constraint=flag, schedules=schedules, **opts)
    if tomo == "povmt":
        return StandardPovmt(states, m_true, on_para_eq_constraint=flag, schedules=schedules, **opts)
    if tomo == "qpt":
        return StandardQpt(states, povms, on_para_eq_constraint=flag, schedules=schedules, **opts)
    return StandardQmpt(states, povms, m_true, on_para_eq_constraint=flag, schedules=schedules, **opts)


def sample_data(ps, rng, lo=0.0, hi=4.0):
    out = []
    for p in ps:
        n = int(round(10 ** rng.uniform(lo, hi)))
        n = max(1, n)
        q = np.clip(np.asarray(p, dtype=np.float64), 0.0, None)
        q = q / q.sum()
        c = rng.multinomial(n, q)
        out.append((n, c / n))
    return out


ADVERSARIAL = ["negative", "scaled", "zeros", "int-counts", "huge", "spike", "tiny"]


def adversarial_data(kind, ps, rng):
    out = []
    for p in ps:
        k = len(p)
        n = int(rng.integers(1, 1000))
        if kind == "negative":
            x = rng.standard_normal(k)
        elif kind == "scaled":
            x = np.asarray(p) * float(rng.uniform(1.5, 40.0))
        elif kind == "zeros":
            x = np.zeros(k)
        elif kind == "int-counts":
            x = rng.integers(0, 50, size=k).astype(np.int64)
        elif kind == "huge":
            x = 1e6 * rng.uniform(-1, 1, size=k)
        elif kind == "spike":
            x = np.zeros(k)
            x[int(rng.integers(0, k))] = 1.0
        else:
            x = 1e-9 * rng.uniform(0, 1, size=k)
        out.append((n, x))
    return out


TESTER_POVM_KINDS = ["random", "random", "projective", "rank1"]
TESTER_STATE_KINDS = ["random", "pure", "mixed-rank"]
TRUE_KINDS = ["interior", "boundary", "pure"]


def non_ic_testers(tomo, d, rng, mode):
    """(state matrices, povm matrices, m_povm): a tester set that is not IC.
    mode 'rank-deficient': enough rows, but all POVMs (or all states) commute;
    mode 'underdetermined': fewer outcome rows than variables."""
    u = ref.rand_unitary(d, rng)

    def diag_povm(m):
        q = rng.dirichlet(np.ones(m), size=d).T  # m x d, columns sum to 1
        return [(u * q[x]) @ ref.dag(u) for x in range(m)]

    def diag_state():
        w = rng.dirichlet(np.ones(d))
        return (u * w) @ ref.dag(u)

    m = int(rng.integers(2, 4))
    if mode == "rank-deficient":
        npv = n_povms_min(d, m) + 2
        if tomo == "qst":
            return [], [diag_povm(m) for _ in range(npv)], m
        if tomo == "povmt":
            return [diag_state() for _ in range(d * d + 2)], [], m
        if rng.random() < 0.5:
            return [diag_state() for _ in range(d * d + 1)], [ref.rand_povm(d, m, rng) for _ in range(npv)], m
        return [ref.rand_density(d, rng) for _ in range(d * d + 1)], [diag_povm(m) for _ in range(npv)], m
    # underdetermined
    if tomo == "qst":
        return [], [ref.rand_povm(d, m, rng)], m
    if tomo == "povmt":
        return [ref.rand_density(d, rng) for _ in range(int(rng.integers(1, d * d)))], [], m
    return [ref.rand_density(d, rng) for _ in range(int(rng.integers(1, d + 1)))], [ref.rand_povm(d, m, rng)], m



# ------------------------------------------------------------ history steps

HISTORY_STEPS = ["twin-tomography", "twin-tomography:explicit-permuted-schedules", "twin-tomography:non-default-ctor-options",
                 "sibling-other-parametrisation",
                 "library-made-data:generate_empi_dists", "library-made-data:generate_empi_dists_sequence",
                 "library-made-data:calc_prob_dists-of-estimate", "via-pickle", "transient-tomography", "second-call"]
ACCESSORS = ("estimated_var", "estimated_var_sequence", "estimated_qoperation", "estimated_qoperation_sequence")
LITE_SIZE = 8000  # A.size above which the history steps run their reduced programme (qutrit / two-qubit process tomography)


class PhaseKeys:
    """Key suffixes for history steps.  While a step is active (`with ph.step(name)`) every violation recorded through
    ctx.num / ctx.truth / ctx.violation - by a hook or by the driver - whose key was NOT already produced by the ordinary
    (fresh-object) part of the same case gets the suffix ':<name>': such a key can only come from the history.  Within a
    case a key keeps the suffix of the step that showed it first."""

    def __init__(self, ctx):
        self.ctx, self.cur, self.fresh, self.first = ctx, None, set(), {}
        self._orig = ctx.violation
        ctx.violation = self._violation  # instance attribute: ctx.num / ctx.truth call self.violation

    def _violation(self, key, info=None):
        if self.cur is None:
            self.fresh.add(key)
        elif key not in self.fresh:
            if isinstance(info, dict):
                info = dict(info, history_step=self.cur)
            key = f"{key}:{self.first.setdefault(key, self.cur)}"
        self._orig(key, info)

    def new_case(self):
        self.cur, self.fresh, self.first = None, set(), {}

    @contextlib.contextmanager
    def step(self, name):
        prev, self.cur = self.cur, name
        try:
            yield
        finally:
            self.cur = prev

    def restore(self):
        self.ctx.__dict__.pop("violation", None)


def draw_opts(hrng, p):
    """non-default constructor options of the tomography classes (is_physicality_required=True is rejected by the
    library itself: its all-zero template object is not physical).  None of them enters the linear estimate."""
    o = {}
    if hrng.random() < p:
        o["is_estimation_object"] = True
    if hrng.random() < p:
        o["eps_proj_physical"] = float(10 ** hrng.uniform(-9, -5))
    if hrng.random() < p:
        o["eps_truncate_imaginary_part"] = float(10 ** hrng.uniform(-12, -6))
    if hrng.random() < p:
        o["seed_data"] = int(hrng.integers(0, 2**31 - 1))
    if not o:
        o["is_estimation_object"] = True
    return o


def rotated(mats_list, u):
    return [u @ np.asarray(m) @ ref.dag(u) for m in mats_list]


def ask(ctx, res, tag, order=ACCESSORS):
    """read a result object through its accessors (each answer is judged by the hooks)"""
    for acc in order:
        ok, val = ctx.attempt(getattr, res, acc)
        if not ok:
            ctx.violation(f"EstimationResult.{acc}:" + ctx.exc_key(val), {"tomo": tag})


def rel_diff(x, y):
    x, y = np.asarray(x, dtype=np.float64), np.asarray(y, dtype=np.float64)
    if x.shape != y.shape:
        return float("inf")
    return float(np.max(np.abs(x - y))) / max(1.0, float(np.max(np.abs(y)))) if x.size else 0.0


def run_history(ctx, hs, J, ph, hrng, est, cc, c):
    from quara.protocol.qtomography.standard.linear_estimator import LinearEstimator

    tomo, flag, c_sys, d, qt, li = c["tomo"], c["flag"], c["c_sys"], c["d"], c["qt"], c["li"]
    datasets, classes, truth, ops, true_obj = c["datasets"], c["classes"], c["truth"], c["ops"], c["true_obj"]
    tag = tomo_tag(qt)
    lite = li["shape"][0] * li["shape"][1] > LITE_SIZE
    PRE = "LinearEstimator.calc_estimate_sequence"
    # tolerance for "the same call again gives the same estimate": both answers satisfy the normal equations of one
    # full-rank model, so they agree to cond(A) * (normal-equation tolerance); nothing bitwise is demanded
    rp_tol = (1e-13 * max(10.0, li["kappa"]) * max(1.0, li["kappa"]), max(1e-8, 1e-10 * li["kappa"] * li["kappa"]))

    def label(ds, cls, exact_truth=None, owners=()):
        J.label[id(ds)] = (ds, cls)
        if exact_truth is not None:
            J.set_truth(ds, exact_truth, owners)
        return ds

    def estimate(e, q, data, many, *a, **kw):
        ok, r = ctx.attempt(e.calc_estimate_sequence if many else e.calc_estimate, q, data, *a, **kw)
        return r if ok else None  # an exception on an IC tester set is judged by the exception hook

    def twin_testers(u, copies):
        st2, pv2 = rotated(c["st_m"], u), [rotated(ms, u) for ms in c["pv_m"]]
        states2 = [gen.make_state(c_sys, r) for r in st2]
        povms2 = [gen.make_povm(c_sys, ms) for ms in pv2]
        if copies:
            states2 = [x.copy() if k % 2 else x for k, x in enumerate(states2)]
            povms2 = [x.copy() if k % 2 == 0 else x for k, x in enumerate(povms2)]
        return st2, pv2, states2, povms2

    def make_twin(testers, sched_arg, opts):
        st2, pv2, states2, povms2 = testers
        ok, q2 = ctx.attempt(build_qt, tomo, states2, povms2, c["m_true"], flag, schedules=sched_arg, **opts)
        if not ok:
            ctx.violation(f"{tomo}.ctor:" + ctx.exc_key(q2), {"options": sorted(opts), "schedules": "all" if sched_arg == "all" else "explicit"})
            return None
        with hs.paused():
            li2 = lin_info(q2.calc_matA())
            sch2 = [list(map(tuple, s)) for s in q2.experiment.schedules]
        if li2["cls"] != "ic" or li2["shape"] != li["shape"]:
            ctx.count("hist:twin-not-IC-or-other-size:skipped")
            return None
        return q2, st2, pv2, sch2

    with hs.paused():
        sch1 = [list(map(tuple, s)) for s in qt.experiment.schedules]

    # ---------------------------------------------------------------------- twin tomography
    def step_twin_tomography():
        sched_arg = "all"
        if hrng.random() < 0.6:
            sched_arg = [list(sch1[k]) for k in hrng.permutation(len(sch1))]
            ctx.count("hist:twin-tomography:explicit-permuted-schedules")
        opts2 = draw_opts(hrng, 0.5) if hrng.random() < 0.5 else {}
        if opts2:
            ctx.count("hist:twin-tomography:non-default-ctor-options")
        tw = make_twin(twin_testers(ref.rand_unitary(d, hrng), True), sched_arg, opts2)
        if tw is not None:
            ctx.count("hist:twin-tomography")
            qt2, st2, pv2, sch2 = tw
            true2 = true_obj.copy()
            ps2 = born_exact(tomo, sch2, st2, pv2, ops)
            exb2 = label([(int(hrng.integers(1, 10**5)), q) for q in ps2], "exact-born:twin", truth, [qt2])
            smp2 = label(sample_data(ps2, hrng), "sampled:twin")
            exc2 = None
            ok, pc2 = ctx.attempt(qt2.generate_prob_dists_sequence, true2)
            if not ok:
                ctx.violation(f"{tomo}.generate_prob_dists_sequence:" + ctx.exc_key(pc2), {"true_kind": c["true_kind"]})
            else:
                pc2 = [np.asarray(q, dtype=np.float64).ravel() for q in pc2]
                if len(pc2) == len(ps2) and all(a.shape == b.shape for a, b in zip(pc2, ps2)):
                    derr2 = float(np.linalg.norm(np.hstack(pc2) - np.hstack(ps2)))
                    if derr2 <= 1e-9:  # circuit-vs-Born agreement itself is judged in the ordinary part (and by C08)
                        exc2 = label([(int(hrng.integers(1, 10**5)), q) for q in pc2], "exact-circuit:twin",
                                     dict(truth, data_err=derr2), [qt2])
            smp, few = datasets[1], datasets[3]
            est2 = LinearEstimator()
            # first call on the twin: a single estimate; then the first tomography again with the twin's data as
            # arbitrary data, one dataset object twice; then the twin with the first one's dataset objects
            r_a = estimate(est, qt2, exb2, False, True)
            if r_a is not None:
                ask(ctx, r_a, tag, ACCESSORS[2:] + ACCESSORS[:2])
            r_b = estimate(est, qt, [exb2, smp, datasets[0], smp], True)
            r_c = estimate(est2, qt2, [smp, exc2 if exc2 is not None else exb2, smp2] + ([] if lite else [few]), True,
                           is_computation_time_required=bool(hrng.random() < 0.5))
            for r, order in ((r_b, ACCESSORS[::-1]), (r_c, ACCESSORS), (r_a, ACCESSORS), (r_b, ACCESSORS[1:2] + ACCESSORS[3:])):
                if r is not None:
                    ask(ctx, r, tag, order)
            if not lite:
                r_d = estimate(est2, qt, datasets[2], False)
                if r_d is not None:
                    ask(ctx, r_d, tag, ACCESSORS[2:] + ACCESSORS[:2])
            # the library's consistency routine: the SAME true object, now with the twin
            ok, val = ctx.attempt(cc.calc_mse_of_true_estimated, true_obj, qt2, est)
            if not ok:
                ctx.violation("consistency_check.calc_mse_of_true_estimated:" + ctx.exc_key(val), {"tomo": tag})

    # ------------------------------------------------------------------ other parametrisation, same tester objects
    def step_sibling_other_parametrisation():
        ok, sib = ctx.attempt(build_qt, tomo, c["states"], c["povms"], c["m_true"], not flag)
        if not ok:
            ctx.violation(f"{tomo}.ctor:" + ctx.exc_key(sib), {"testers": "re-used objects", "flag": not flag})
        else:
            with hs.paused():
                li_s = lin_info(sib.calc_matA())
                sch_s = [list(map(tuple, s)) for s in sib.experiment.schedules]
            if li_s["cls"] != "ic" or sch_s != sch1:
                ctx.count("hist:sibling-not-IC:skipped")
            else:
                ctx.count("hist:sibling-other-parametrisation")
                truth_s = dict(truth, var=ref_var(gen.type_of(true_obj), raw_list(true_obj), not flag))
                ex_s = label([(int(hrng.integers(1, 10**5)), q.copy()) for q in c["ps_born"]], "exact-born:sibling", truth_s, [sib])
                r_s = estimate(est, sib, ex_s, False)
                if r_s is not None:
                    ask(ctx, r_s, tag, ACCESSORS[::-1])
                # the first tomography and its earlier results after the sibling's estimate
                ask(ctx, c["res"], tag, ACCESSORS[2:])
                r_f = estimate(est, qt, [datasets[5], datasets[0]], True)
                if r_f is not None:
                    ask(ctx, r_f, tag)
                if r_s is not None and not lite:
                    ask(ctx, r_s, tag, ACCESSORS[2:3])

    # ------------------------------------------------------------------ data lists made by the library
    def step_library_made_data():
        n_shots = int(round(10 ** hrng.uniform(1.0, 4.0)))
        as_sequence = bool(hrng.random() < 0.5) and not lite
        if not as_sequence:
            ok, ed = ctx.attempt(qt.generate_empi_dists, true_obj, n_shots, int(hrng.integers(0, 2**31 - 1)))
            if ok:
                ctx.count("hist:library-made-data:generate_empi_dists")
                label(ed, "library-sampled")
                r = estimate(est, qt, ed, False)
                if r is not None:
                    ask(ctx, r, tag)
            else:
                ctx.count("hist:library-made-data:generator-raised:" + type(ed).__name__)  # sampling is C14's business
        else:
            ns = sorted(int(round(10 ** hrng.uniform(0.5, 3.5))) for _ in range(3))
            ok, eds = ctx.attempt(qt.generate_empi_dists_sequence, true_obj, ns, int(hrng.integers(0, 2**31 - 1)))
            if ok:
                ctx.count("hist:library-made-data:generate_empi_dists_sequence")
                for x in eds:
                    label(x, "library-sampled")
                r = estimate(est, qt, eds, True)
                if r is not None:
                    ask(ctx, r, tag, ACCESSORS[::-1])
            else:
                ctx.count("hist:library-made-data:generator-raised:" + type(eds).__name__)
        # model distributions of an exact-data estimate, as returned (rows are views of one array)
        ok = c["single0"] is not None  # the ordinary part's single estimate from the exact Born data
        if ok:
            with hs.paused():
                ok, q_est = ctx.attempt(getattr, c["single0"], "estimated_qoperation")
        if ok:
            ok, pm = ctx.attempt(qt.calc_prob_dists, q_est)
            if ok:
                rows = [np.asarray(x, dtype=np.float64) for x in pm]
                if len(rows) == len(c["ps_born"]) and all(a.shape == b.shape for a, b in zip(rows, c["ps_born"])):
                    derr = float(np.linalg.norm(np.hstack(rows) - np.hstack(c["ps_born"])))
                    ctx.count("hist:library-made-data:calc_prob_dists-of-estimate")
                    dm = [(int(hrng.integers(1, 10**5)), x) for x in pm]
                    if derr <= 1e-9:  # exact up to derr (the estimate it comes from was judged where it was made)
                        label(dm, "exact-model-of-estimate", dict(truth, data_err=derr), [qt])
                    else:             # otherwise just one more data vector
                        label(dm, "model-of-estimate")
                    r = estimate(est, qt, dm, False)
                    if r is not None:
                        ask(ctx, r, tag)

    # ------------------------------------------------------------------ pickle round trips
    def step_via_pickle():
        ok, clone = ctx.attempt(lambda: pickle.loads(pickle.dumps((qt, est, c["res"]))))
        if not ok:
            ctx.violation("pickle-round-trip:" + ctx.exc_key(clone), {"tomo": tag})
        else:
            ctx.count("hist:via-pickle")
            qt_p, est_p, res_p = clone
            for k in (0, 2):
                J.share_truth(datasets[k], qt_p)
            J.adopt(res_p, c["res"])
            ask(ctx, res_p, tag, ACCESSORS[::-1])
            r = estimate(est_p, qt_p, [datasets[0], datasets[1], datasets[2]], True)
            if r is not None:
                ask(ctx, r, tag)
            J.forget(qt_p)

    # ------------------------------------------------------------------ tomographies created and dropped in turn
    def step_transient_tomography():
        n_made = 0
        # all tester objects first: between dropping one tomography and building the next nothing else is created
        pending = [twin_testers(ref.rand_unitary(d, hrng), False) for _ in range(2 if lite else 3)]
        while pending:
            tw = make_twin(pending.pop(), "all", {})
            if tw is None:
                continue
            q_t, st_t, pv_t, sch_t = tw
            ps_t = born_exact(tomo, sch_t, st_t, pv_t, ops)
            ds_t = label([(1 + n_made, q) for q in ps_t], "exact-born:transient", truth, [q_t])
            r = estimate(est, q_t, ds_t, False)
            if r is not None:
                ask(ctx, r, tag, ACCESSORS[2:3])
            n_made += 1
            J.forget(q_t)
            del r, q_t, tw, ds_t  # nothing refers to this tomography any more: its address is free for the next one
        if n_made >= 2:
            ctx.count("hist:transient-tomography")

    # ------------------------------------------------------------------ everything again, at the end
    def step_second_call():
        ctx.count("hist:second-call")
        ok, val = ctx.attempt(qt.reset_seed, int(hrng.integers(0, 2**31 - 1)))
        if not ok:
            ctx.violation(f"{tomo}.reset_seed:" + ctx.exc_key(val), {"tomo": tag})
        # results of the ordinary part, read again after all the later estimates (other order, last one first)
        for r in c["held"][::-1]:
            ask(ctx, r, tag, ACCESSORS[3:] + ACCESSORS[:3])
        e0 = J.registry.get(id(c["res"]))
        if e0 is not None and e0["res"] is c["res"]:
            first = e0["vs"]  # copies taken when the first call returned
        else:
            with hs.paused():
                first = [np.array(v, dtype=np.float64, copy=True) for v in c["res"].estimated_var_sequence]
        # the first call again, on the same objects
        r2 = estimate(est, qt, c["seq"], True)
        if r2 is not None:
            ask(ctx, r2, tag)
            with hs.paused():
                again = [np.asarray(v, dtype=np.float64) for v in r2.estimated_var_sequence]
            dd = max(rel_diff(x, y) for x, y in zip(again, first)) if len(again) == len(first) else float("inf")
            J.num("repeated-call:same-estimates", dd, rp_tol[0], rp_tol[1],
                  key=f"{PRE}:repeated-call-gives-other-estimates:{tag}", info={"tomo": tag, "kappa": li["kappa"]})
        k = int(hrng.integers(0, len(c["seq"])))
        r3 = estimate(est, qt, c["seq"][k], False)
        if r3 is not None:
            ask(ctx, r3, tag, ACCESSORS[::-1])
            with hs.paused():
                v3 = np.asarray(r3.estimated_var, dtype=np.float64)
            J.num("repeated-call:same-estimates", rel_diff(v3, first[k]), rp_tol[0], rp_tol[1],
                  key=f"LinearEstimator.calc_estimate:repeated-call-gives-other-estimate-than-the-sequence:{tag}",
                  info={"tomo": tag, "kappa": li["kappa"], "data": J.cls_of(c["seq"][k], qt)})

    steps = [("twin-tomography", step_twin_tomography), ("sibling-other-parametrisation", step_sibling_other_parametrisation),
             ("library-made-data", step_library_made_data), ("via-pickle", step_via_pickle),
             ("transient-tomography", step_transient_tomography), ("second-call", step_second_call)]
    only = os.environ.get("QV_C09_ONLY_STEPS")  # diagnosis only (which step shows a fault on its own); the run is then inconclusive
    J.lite = True
    try:
        for name, fn in steps:
            if only and name not in only.split(","):
                continue
            with ph.step(name):
                fn()
    finally:
        J.lite = False


def run_shard(ctx):
    from quara.protocol.qtomography.standard.linear_estimator import LinearEstimator
    from quara.simulation import consistency_check as cc

    p = ctx.params
    tomo, shape, flag = p["tomo"], p["shape"], bool(p["flag"])
    dims = gen.SHAPES[shape]
    c_sys = gen.make_csys(dims)
    d = c_sys.dim
    hs, J = install(ctx)
    ph = PhaseKeys(ctx)
    est = LinearEstimator()
    uses_states = tomo != "qst"
    uses_povms = tomo != "povmt"
    try:
        for i in ctx.cases(p["n"], start=p.get("start", 0)):
            rng = ctx.rng()
            J.clear_case()
            # ------------------------------------------------------ non-IC instance
            if i % 4 == 3:
                if tomo == "qst" and flag:
                    mode = ["rank-deficient", "square-singular", "underdetermined", "square-singular"][(i // 4) % 4]
                else:
                    mode = ["rank-deficient", "underdetermined"][(i // 4) % 2]
                m_true = int(rng.integers(2, 4))
                if mode == "square-singular":
                    # one POVM with d^2-1 outcomes: A is square with rows summing to zero (rank d^2-2); the workload
                    # looks for instances whose rounding noise gets past the library's own full-rank test
                    for _ in range(100):
                        st_m, pv_m, m_pv = [], [ref.rand_povm(d, d * d - 1, rng)], d * d - 1
                        states, povms = [], [gen.make_povm(c_sys, pv_m[0])]
                        ok, qt = ctx.attempt(build_qt, tomo, states, povms, m_true, flag)
                        if not ok or qt.is_fullrank_matA():
                            break
                else:
                    st_m, pv_m, m_pv = non_ic_testers(tomo, d, rng, mode)
                    states = [gen.make_state(c_sys, r) for r in st_m]
                    povms = [gen.make_povm(c_sys, ms) for ms in pv_m]
                    ok, qt = ctx.attempt(build_qt, tomo, states, povms, m_true, flag)
                if not ok:
                    ctx.violation(f"{tomo}.ctor:" + ctx.exc_key(qt), {"mode": mode})
                    continue
                ops = draw_true(tomo, d, m_true, rng, "interior")
                with hs.paused():
                    scheds = [list(map(tuple, s)) for s in qt.experiment.schedules]
                ps = born_exact(tomo, scheds, st_m, pv_m, ops)
                ds = [(10, q) for q in ps]
                J.label[id(ds)] = (ds, "exact-born:non-IC")
                ok, val = ctx.attempt(est.calc_estimate_sequence, qt, [ds])
                ctx.count(f"non-IC:{mode}:" + ("returned" if ok else "raised"))
                ds2 = adversarial_data("negative", ps, rng)
                ok, val = ctx.attempt(est.calc_estimate, qt, ds2)
                ctx.nontrivial("non-ic", tomo, shape, flag, mode, len(states), len(povms), np.hstack([np.ravel(q) for q in ps]))
                continue
            # ---------------------------------------------------------- IC instance
            tk_p = str(rng.choice(TESTER_POVM_KINDS))
            tk_s = str(rng.choice(TESTER_STATE_KINDS))
            extra_p = int(rng.choice([0, 0, 1, 2, 3]))
            extra_s = int(rng.choice([0, 0, 1, 2, 3]))
            m_true = int(rng.integers(2, 5)) if tomo == "povmt" else int(rng.integers(2, 4))
            if shape != "S1" and tomo == "qmpt":
                m_true = 2
            m_req = None
            if shape == "S2" and tk_p != "projective":
                m_req = int(rng.integers(3, 5))
            qt = None
            hrng = ctx.rng(1)  # history steps and constructor options: own stream, the ordinary workload is unchanged
            ph.new_case()
            opts = draw_opts(hrng, 0.5) if (i > 0 and hrng.random() < 1.0 / 3.0) else {}
            if opts:
                ctx.count("cfg:non-default-ctor-options")
            for attempt in range(8):
                st_m = draw_tester_states(d, rng, tk_s, extra_s) if uses_states else []
                pv_m, m_pv = draw_tester_povms(d, rng, tk_p, extra_p, m_req) if uses_povms else ([], 0)
                states = [gen.make_state(c_sys, r) for r in st_m]
                povms = [gen.make_povm(c_sys, ms) for ms in pv_m]
                ok, qt = ctx.attempt(build_qt, tomo, states, povms, m_true, flag, **opts)
                if not ok:
                    break
                with hs.paused():
                    li = lin_info(qt.calc_matA())
                if li["cls"] == "ic" and li["kappa"] <= KAPPA_MAX:
                    break
                ctx.count("tester-set-redrawn:cond>%g" % KAPPA_MAX)
            if not ok:
                ctx.violation(f"{tomo}.ctor:" + ctx.exc_key(qt), {"tester_povms": tk_p, "tester_states": tk_s})
                continue
            if li["cls"] != "ic":
                ctx.count("case-skipped:no-IC-draw")
                continue
            ctx.count("kappa<=10" if li["kappa"] <= 10 else "kappa<=100" if li["kappa"] <= 100 else "kappa>100")
            true_kind = TRUE_KINDS[i % 3] if rng.random() < 0.7 else str(rng.choice(TRUE_KINDS))
            ops = draw_true(tomo, d, m_true, rng, true_kind)
            true_obj = make_true(tomo, c_sys, ops, on_para_eq_constraint=bool(rng.random() < 0.5))
            t_name = gen.type_of(true_obj)
            raws = raw_list(true_obj)
            truth = {"raw": np.hstack([np.ravel(a) for a in raws]), "var": ref_var(t_name, raws, flag), "kind": true_kind}
            with hs.paused():
                scheds = [list(map(tuple, s)) for s in qt.experiment.schedules]
            # exact data: reference Born rule and the library's circuit
            ps_born = born_exact(tomo, scheds, st_m, pv_m, ops)
            ok, ps_circ = ctx.attempt(qt.generate_prob_dists_sequence, true_obj)
            if not ok:
                ctx.violation(f"{tomo}.generate_prob_dists_sequence:" + ctx.exc_key(ps_circ), {"true_kind": true_kind})
                continue
            ps_circ = [np.asarray(q, dtype=np.float64).ravel() for q in ps_circ]
            same_layout = len(ps_circ) == len(ps_born) and all(a.shape == b.shape for a, b in zip(ps_circ, ps_born))
            dd = max(float(np.max(np.abs(a - b))) for a, b in zip(ps_circ, ps_born)) if same_layout else float("inf")
            # the circuit truncates probabilities below atol=1e-13 and renormalises: agreement only to a few atol
            J.num("exact-data:circuit=born-rule", dd, 1e-11, 1e-8,
                    key=f"generate_prob_dists_sequence:differs-from-born-rule:{type(qt).__name__}", info={"true_kind": true_kind})
            datasets, classes = [], []

            derr = float(np.linalg.norm(np.hstack(ps_circ) - np.hstack(ps_born))) if same_layout else 0.0
            truth_circ = dict(truth, data_err=derr)

            def add(ds, cls, exact=False):
                datasets.append(ds)
                classes.append(cls)
                J.label[id(ds)] = (ds, cls)
                if exact:
                    J.set_truth(ds, truth_circ if cls == "exact-circuit" else truth, [qt])

            cnt = lambda: int(rng.integers(1, 10**5))  # noqa: E731
            add([(cnt(), q) for q in ps_born], "exact-born", exact=True)
            add(sample_data(ps_born, rng), "sampled")
            add([(cnt(), q) for q in ps_circ], "exact-circuit", exact=True)
            add(sample_data(ps_born, rng, 0.0, 1.0), "sampled-few-shots")
            for kind in rng.choice(ADVERSARIAL, size=3, replace=False):
                add(adversarial_data(str(kind), ps_born, rng), "adversarial:" + str(kind))
            add([(cnt(), q.copy()) for q in ps_born], "exact-born", exact=True)
            order = rng.permutation(len(datasets))
            seq = [datasets[j] for j in order]
            # ---- the sequence call and all four accessors
            ok, res = ctx.attempt(est.calc_estimate_sequence, qt, seq, is_computation_time_required=bool(rng.random() < 0.3))
            if not ok:
                continue  # judged by the exception hook
            single0 = None
            held = [res]  # result objects of the ordinary part, read again at the end of the history steps
            for acc in ("estimated_var", "estimated_var_sequence", "estimated_qoperation", "estimated_qoperation_sequence"):
                ok2, val = ctx.attempt(getattr, res, acc)
                if not ok2:
                    ctx.violation(f"EstimationResult.{acc}:" + ctx.exc_key(val), {"tomo": tomo_tag(qt)})
            # ---- single-dataset calls
            for j in (0, int(rng.integers(1, len(datasets)))):
                ok, r1 = ctx.attempt(est.calc_estimate, qt, datasets[j])
                if not ok:
                    continue
                held.append(r1)
                if j == 0:
                    single0 = r1
                for acc in ("estimated_var", "estimated_qoperation", "estimated_var_sequence", "estimated_qoperation_sequence"):
                    ok2, val = ctx.attempt(getattr, r1, acc)
                    if not ok2:
                        ctx.violation(f"EstimationResult.{acc}:" + ctx.exc_key(val), {"tomo": tomo_tag(qt)})
            # ---- driver-level: random other sample counts
            seq3 = [[(int(rng.integers(1, 10**7)), q) for _, q in ds] for ds in seq]
            for ds3, ds in zip(seq3, seq):
                J.label[id(ds3)] = (ds3, J.cls_of(ds))
            ok, res3 = ctx.attempt(est.calc_estimate_sequence, qt, seq3)
            if ok:
                held.append(res3)
                with hs.paused():
                    a = [np.asarray(v) for v in res.estimated_var_sequence]
                    b = [np.asarray(v) for v in res3.estimated_var_sequence]
                same = len(a) == len(b) and all(x.shape == y.shape and np.array_equal(x, y) for x, y in zip(a, b))
                ctx.truth("sample-counts-irrelevant:random-counts", same,
                          key=f"LinearEstimator.calc_estimate_sequence:estimate-depends-on-sample-counts:{tomo_tag(qt)}",
                          info={"variant": "random"})
            # ---- the library's own consistency routine, for this true object
            ok, val = ctx.attempt(cc.calc_mse_of_true_estimated, true_obj, qt, est)
            if not ok:
                ctx.violation("consistency_check.calc_mse_of_true_estimated:" + ctx.exc_key(val), {"tomo": tomo_tag(qt)})
            # ---- history / combination steps on the same objects
            run_history(ctx, hs, J, ph, hrng, est, cc, dict(
                tomo=tomo, flag=flag, c_sys=c_sys, d=d, qt=qt, li=li, st_m=st_m, pv_m=pv_m, states=states, povms=povms,
                m_true=m_true, ops=ops,
                true_obj=true_obj, truth=truth, ps_born=ps_born, datasets=datasets, classes=classes, seq=seq, res=res,
                held=held, single0=single0, true_kind=true_kind))
            ctx.nontrivial("ic", tomo, shape, flag, tk_p if uses_povms else "-", tk_s if uses_states else "-",
                           len(states), len(povms), m_true, true_kind, truth["raw"])
            if i < 3:
                ctx.sample({"tomo": tomo_tag(qt), "shape": shape, "tester_povms": [tk_p, len(povms), m_pv] if uses_povms else None,
                            "tester_states": [tk_s, len(states)] if uses_states else None, "A_shape": li["shape"],
                            "cond_A": li["kappa"], "true_kind": true_kind, "true_var": truth["var"],
                            "datasets": [classes[j] for j in order]})
    finally:
        hs.uninstall()
        ph.restore()
    ctx.extra["hook_counts"] = hs.counts
    ctx.extra["worst_ratios"] = J.worst
    ctx.extra["kappa_max"] = max(J.kappas) if J.kappas else None
    if ctx.only_case is None:
        hs.require(["LinearEstimator.calc_estimate", "LinearEstimator.calc_estimate_sequence",
                    "StandardQTomographyEstimationResult.estimated_var",
                    "StandardQTomographyEstimationResult.estimated_var_sequence",
                    "StandardQTomographyEstimationResult.estimated_qoperation",
                    "StandardQTomographyEstimationResult.estimated_qoperation_sequence",
                    "consistency_check.calc_mse_of_true_estimated"])


def finalize(merged, ctx):
    worst, kmax = {}, 0.0
    for s in merged["extra"]:
        ex = s["extra"] or {}
        for k, v in (ex.get("worst_ratios") or {}).items():
            worst[k] = max(worst.get(k, 0.0), v)
        if ex.get("kappa_max"):
            kmax = max(kmax, ex["kappa_max"])
    for k, v in sorted(worst.items()):
        ctx.count(f"margin:worst-err-as-permille-of-tol_pass:{k}", int(math.ceil(1000 * v)))
    ctx.count("largest-cond(A)-judged", int(math.ceil(kmax)))
    c = merged["counters"]
    for need in ["cfg:non-default-ctor-options"] + ["hist:" + n for n in HISTORY_STEPS]:
        if c.get(need, 0) == 0:
            ctx.mark_inconclusive(f"workload never produced: {need}")
