"""C07  Tensor products and qutrit -> 2-qubit embeddings respect subsystem structure.

Contracts
  * on ``quara.objects.operators.tensor_product`` (every call, also quara's own
    recursive ones): the result lives on the union of the factors' subsystems
    listed in ascending name; the operator(s) it denotes equal the Kronecker
    product of the factors' operators arranged in that order (``kron_by_name``);
    for outcome-bearing results (Povm / MProcess / StateEnsemble) the reported
    shape is a permutation of the factors' outcome counts and the element the
    object's *own accessor* returns at a multi-index equals the Kronecker
    product of the factors' elements at the corresponding local indices;
  * on ``QOperation.embed_qoperation_from_qutrits_to_qubits``: subsystems of the
    result, physicality preserved.
The driver enumerates every argument order x every grouping (flat left fold,
list forms, all explicit nestings) and adds the end-to-end oracles: product
states stay product (partial traces), product gates act factor-wise, product
measurements on product states give product statistics, embedded circuits give
the statistics of the un-embedded ones.

Everything that decides a verdict is computed here / in qv.ref from raw
parameter arrays and basis matrices; quara is only asked for those arrays and
for its own accessors (vec(tuple), hs(tuple), state(tuple), prob_dist[tuple]).

History / combination steps (own RNG stream ``ctx.rng(1)``: the first pass of a
case is unchanged).  They only create histories; every verdict is still "the
product denotes the Kronecker product of the factors AS THEY ARE NOW, on the
union of their subsystems in ascending name" / "embedding keeps the statistics":
  * ``:re-used-operands``  the case's operand OBJECTS are multiplied a second time in
    another argument order and grouping (state left on operands / their composite
    systems / elemental systems by the first product);
  * ``:via-copy`` / ``:via-generate_from_var``  the second product takes operands obtained
    through ``copy()`` / ``generate_from_var(to_var())`` (judged by their own arrays);
  * ``:sibling-same-names``  a second operand set on NEW elemental systems with the same
    names and outcome counts (same or mirrored dimensions, other bases, other
    values) goes through the same call tree (caches keyed by names / sizes / class);
  * ``:after-set_zero``  product, public mutator ``set_zero()`` on that operand, product
    again (expected: the zero operator; an exception there is counted, not judged -
    the zero object is outside the property's physical factors);
  * ``:veteran-operand``  one long-lived operand per type (fixed data, subsystem name 20)
    is multiplied with an operand of every case of the shard, either side;
  * ``:held-result``  at the end of the case the FIRST result is judged again against
    its leaves (a result must not change because of later products);
  * embedding: the same sources (or their copies) are embedded a second time into
    OTHER qubits (``:second-embedding``), the first embedded objects are re-read
    afterwards (``:held-result``), and a measurement process with a non-default
    outcome ``shape`` is embedded (``:shaped-mprocess``; shape kept, statistics kept).
Every verdict reached while a step is in progress (hook or driver) carries the step
as a suffix of its ordinary key, with two exceptions that keep the ordinary key
(one mechanism, one key; info carries ``history_step``): exceptions for valid
operands, and the layout class of the known finding ``MProcess*MProcess ...
second-factor-major``.
"""
import contextlib
import itertools
import math
import os
import time

import numpy as np

from qv import gen, ref
from qv.monitor import HookSet

ID = "C07"
RULE = ("tensor_product over families State / Povm / Gate / MProcess / Gate+MProcess mix / State+StateEnsemble mix / "
        "MatrixBasis / SparseMatrixBasis / joint (entangled, multi-subsystem) factors: 2-4 single-subsystem leaves (or blocks) "
        "with dimensions in {2,3} (4 subsystems and 3-subsystem channels: qubits only), random non-contiguous names, "
        "random physical operands in several Hermitian bases, PAIRWISE DIFFERENT outcome counts; every permutation of "
        "the arguments x every grouping tree (flat fold, list call forms, all explicit nestings); plus qutrit->qubit "
        "embeddings of (state, povm, gate, gate, mprocess) tuples for 1 and 2 qutrits. A case is distinct by (family, "
        "dimensions, names, argument order, grouping tree, call forms, rounded operand parameters) and non-trivial when "
        "the arguments are out of ascending-name order, or there are >= 3 arguments / a nesting, or the factors carry "
        "outcomes, or the dimensions are mixed, or it is an embedding. HISTORY steps after the first pass of every case "
        "(same oracles): the operand objects multiplied again in another order / grouping, operands obtained through copy() / "
        "generate_from_var, a sibling operand set on new systems with the same names, product - set_zero() - product, a "
        "long-lived veteran operand shared by all cases of a shard, the first result judged again at the end; embeddings: "
        "second embedding of the same sources (or copies) into other qubits, first results re-read, MProcess with a "
        "non-default outcome shape")
ANCHORS = [
    "quara/objects/operators.py:tensor_product",
    "quara/objects/operators.py:_tensor_product",
    "quara/objects/operators.py:_tensor_product_hs_hs",
    "quara/objects/operators.py:_tensor_product_State_State",
    "quara/objects/operators.py:_tensor_product_Povm_Povm",
    "quara/objects/operators.py:_tensor_product_Gate_Gate",
    "quara/objects/operators.py:_tensor_product_Gate_MProcess",
    "quara/objects/operators.py:_tensor_product_MProcess_Gate",
    "quara/objects/operators.py:_tensor_product_MProcess_MProcess",
    "quara/objects/operators.py:_tensor_product_StateEnsemble_StateEnsemble",
    "quara/utils/matrix_util.py:calc_permutation_matrix",
    "quara/utils/matrix_util.py:_left_permutation_matrix",
    "quara/utils/matrix_util.py:convert_list_by_permutation_matrix",
    "quara/objects/composite_system.py:CompositeSystem.__init__",
    "quara/objects/qoperation.py:QOperation.embed_qoperation_from_qutrits_to_qubits",
    "quara/objects/qoperation.py:QOperation._calc_matrix_from_qutrits_to_qubits",
    "quara/objects/state.py:State._embed_qoperation_from_qutrits_to_qubits",
    "quara/objects/povm.py:Povm._embed_qoperation_from_qutrits_to_qubits",
    "quara/objects/gate.py:Gate._embed_qoperation_from_qutrits_to_qubits",
    "quara/objects/mprocess.py:MProcess._embed_qoperation_from_qutrits_to_qubits",
]
REQUIRED_REACH = ANCHORS
REQUIRED_ORACLES = [
    "call.subsystem-order", "call.operator", "call.outcome-layout", "call.shape-is-permutation", "call.basis-elements",
    "fold.operator", "fold.outcome-layout", "product-state.partial-trace", "product-gate.factorwise",
    "product-statistics", "embed.subsystems", "embed.physicality", "embed.statistics",
]
MIN_EVALS = {"quick": 5000, "thorough": 50000}
WATCHDOG = {"quick": 900, "thorough": 3600}
EXHAUSTIVE = {"quick": False, "thorough": True}
EXHAUSTIVE_SCOPE = ("thorough enumerates every argument order x every grouping tree (flat, partial and full nestings) for 2-4 "
                    "operands of every family and dimension pattern; operand values, names, bases and call forms are sampled")
ASSUMPTIONS = [
    "a MatrixBasis product lists its elements row-major in argument order (the convention every vec in quara relies on)",
    "when outcome counts of the factors coincide (never in the driver) a layout is accepted if SOME assignment of "
    "reported axes to factors explains it",
]

TP, TF = 1e-10, 1e-7
KNOWN_MP_LAYOUT = "layout-vs-shape:second-factor-major"
PROFILE = bool(os.environ.get("QV_C07_PROFILE"))  # per-unit CPU counters (cost calibration only)
QOP = ("State", "Povm", "Gate", "MProcess", "StateEnsemble")
BASIS = ("MatrixBasis", "SparseMatrixBasis")
# result type of a pairwise product (documented table of tensor_product)
PAIR = {("State", "State"): "State", ("State", "StateEnsemble"): "StateEnsemble",
        ("StateEnsemble", "State"): "StateEnsemble", ("StateEnsemble", "StateEnsemble"): "StateEnsemble",
        ("Povm", "Povm"): "Povm", ("Gate", "Gate"): "Gate", ("Gate", "MProcess"): "MProcess",
        ("MProcess", "Gate"): "MProcess", ("MProcess", "MProcess"): "MProcess",
        ("MatrixBasis", "MatrixBasis"): "MatrixBasis", ("SparseMatrixBasis", "SparseMatrixBasis"): "SparseMatrixBasis"}


def prod(xs):
    out = 1
    for x in xs:
        out *= int(x)
    return out


# ------------------------------------------------------------------ reference


def sup_of_kraus(ks):
    """row-major Liouville matrix of X -> sum K X K^dagger :  vec(KXK^+) = (K (x) conj K) vec X"""
    return sum(np.kron(k, k.conj()) for k in ks)


def sup_kron(sups, dims):
    """Liouville matrix (row-major vec) of E_1 (x) ... (x) E_K from those of the factors (block dims `dims`)."""
    K = len(dims)
    big = ref.kron_all(sups)  # rows ((i1,i1'),(i2,i2'),..), cols likewise
    shape = []
    for d in dims:
        shape += [d, d]
    t = big.reshape(shape + shape)
    row = [2 * k for k in range(K)] + [2 * k + 1 for k in range(K)]
    col = [2 * K + a for a in row]
    D = prod(dims)
    return t.transpose(row + col).reshape(D * D, D * D)


def new_to_old(dims, perm):
    """flat index table: position in the permuted ordering -> position in the original ordering"""
    D = prod(dims)
    return np.arange(D).reshape(list(dims)).transpose(list(perm)).reshape(-1)


def choi_of_sup(S, D):
    """Choi = sum_ij E(|i><j|) (x) |i><j|  from the row-major Liouville matrix"""
    return S.reshape(D, D, D, D).transpose(0, 2, 1, 3).reshape(D * D, D * D)


def tp_defect_of_sup(S, D):
    t = S.reshape(D, D, D, D)
    return float(np.max(np.abs(np.einsum("aaij->ij", t) - np.eye(D))))


class View:
    """operator view of one composite system, read from its basis matrices"""

    def __init__(self, c_sys):
        es = list(c_sys.elemental_systems)
        self.names = [e.name for e in es]
        self.dims = [int(e.dim) for e in es]
        self.D = prod(self.dims)
        B = ref.basis_list(c_sys.basis())
        self.F = np.array([b.reshape(-1) for b in B]).T  # columns = row-major vec(B_a)
        self._Finv = None
        self._keep = es

    @property
    def Finv(self):
        if self._Finv is None:
            self._Finv = np.linalg.pinv(self.F) if self.F.shape[0] != self.F.shape[1] else np.linalg.inv(self.F)
        return self._Finv

    def op(self, vec):
        return (self.F @ np.asarray(vec)).reshape(self.D, self.D)

    def sup(self, hs):
        return self.F @ np.asarray(hs) @ self.Finv


class Views:
    def __init__(self):
        self.cache = {}

    def get(self, c_sys):
        key = tuple(id(e) for e in c_sys.elemental_systems)
        v = self.cache.get(key)
        if v is None:
            if len(self.cache) > 400:
                self.cache.clear()
            v = self.cache[key] = View(c_sys)
        return v


def tname(x):
    return type(x).__name__


class Fac:
    """one factor (or the result) of a tensor product, seen through raw arrays and its own accessors"""

    def __init__(self, obj, views):
        self.obj = obj
        self.t = t = tname(obj)
        self.views = views
        if t == "StateEnsemble":
            self.c_sys = obj.states[0].composite_system
            self.axes = tuple(int(a) for a in obj.prob_dist.shape)
            self.n_flat = len(obj.states)
        elif t == "Povm":
            self.c_sys = obj.composite_system
            self.axes = tuple(int(a) for a in obj.nums_local_outcomes)
            self.n_flat = len(obj.vecs)
        elif t == "MProcess":
            self.c_sys = obj.composite_system
            self.axes = tuple(int(a) for a in obj.shape)
            self.n_flat = len(obj.hss)
        else:
            self.c_sys = obj.composite_system
            self.axes = ()
            self.n_flat = 1
        self.v = views.get(self.c_sys)
        self.kind = "sup" if t in ("Gate", "MProcess") else "op"
        self._at = {}
        self._flat = {}

    def at(self, idx):
        """(array, weight) at a multi-index, through the object's own accessor"""
        idx = tuple(int(i) for i in idx)
        r = self._at.get(idx)
        if r is not None:
            return r
        o, t = self.obj, self.t
        if t == "State":
            r = (self.v.op(o.vec), None)
        elif t == "Gate":
            r = (self.v.sup(o.hs), None)
        elif t == "Povm":
            r = (self.v.op(o.vec(idx)), None)
        elif t == "MProcess":
            r = (self.v.sup(o.hs(idx)), None)
        else:
            s = o.state(idx)
            r = (self.views.get(s.composite_system).op(s.vec), float(o.prob_dist[idx]))
        self._at[idx] = r
        return r

    def flat(self, i):
        """(array, weight) of the i-th entry of the raw list"""
        r = self._flat.get(i)
        if r is not None:
            return r
        o, t = self.obj, self.t
        if t == "State":
            r = (self.v.op(o.vec), None)
        elif t == "Gate":
            r = (self.v.sup(o.hs), None)
        elif t == "Povm":
            r = (self.v.op(o.vecs[i]), None)
        elif t == "MProcess":
            r = (self.v.sup(o.hss[i]), None)
        else:
            s = o.states[i]
            r = (self.views.get(s.composite_system).op(s.vec), float(np.asarray(o.prob_dist.ps).ravel()[i]))
        self._flat[i] = r
        return r


class Arrange:
    """where the factors of one call sit: names/dims concatenated in argument order and the permutation to
    ascending name; `combine` is kron_by_name"""

    def __init__(self, facs):
        self.names_cat = [n for f in facs for n in f.v.names]
        self.dims_cat = [d for f in facs for d in f.v.dims]
        self.block_dims = [f.v.D for f in facs]
        self.n = len(self.names_cat)
        self.disjoint = len(set(self.names_cat)) == self.n
        self.perm = sorted(range(self.n), key=lambda i: self.names_cat[i])
        self.names_sorted = [self.names_cat[i] for i in self.perm]
        self.dims_sorted = [self.dims_cat[i] for i in self.perm]
        self.sorted = self.perm == list(range(self.n))
        self.D = prod(self.dims_cat)
        self.kind = facs[0].kind
        self._n2o = None
        self._n2o2 = None

    def combine(self, arrs):
        """Kronecker product of the factors' operators (or channels) arranged in ascending subsystem name"""
        if self.kind == "op":
            M = ref.kron_all(arrs)
            if self.sorted:
                return M
            return ref.permute_subsystems(M, self.dims_cat, self.perm)
        S = sup_kron(arrs, self.block_dims)
        if self.sorted:
            return S
        if self._n2o2 is None:
            n2o = new_to_old(self.dims_cat, self.perm)
            self._n2o2 = (n2o[:, None] * self.D + n2o[None, :]).reshape(-1)
        return S[np.ix_(self._n2o2, self._n2o2)]


def kron_by_name(named_ops):
    """[(names, dims, operator)] -> (sorted names, sorted dims, operator on the subsystems in ascending name)"""
    names = [n for ns, _, _ in named_ops for n in ns]
    dims = [d for _, ds, _ in named_ops for d in ds]
    perm = sorted(range(len(names)), key=lambda i: names[i])
    M = ref.kron_all([m for _, _, m in named_ops])
    return [names[i] for i in perm], [dims[i] for i in perm], ref.permute_subsystems(M, dims, perm)


def helper_self_test(rng):
    bad = list(ref.self_test())
    # Liouville kron + subsystem permutation against the Kraus definition
    k1 = ref.rand_kraus(6, 2, rng)  # on (a:2, c:3)
    k2 = ref.rand_kraus(2, 2, rng)  # on (b:2)
    perm = [0, 2, 1]
    ks = [ref.permute_subsystems(np.kron(a, b), [2, 3, 2], perm) for a in k1 for b in k2]
    direct = sup_of_kraus(ks)

    class _F:
        pass

    f1, f2 = _F(), _F()
    f1.v, f2.v = _F(), _F()
    f1.v.names, f1.v.dims, f1.v.D, f1.kind = [0, 7], [2, 3], 6, "sup"
    f2.v.names, f2.v.dims, f2.v.D, f2.kind = [4], [2], 2, "sup"
    arr = Arrange([f1, f2])
    got = arr.combine([sup_of_kraus(k1), sup_of_kraus(k2)])
    if not np.max(np.abs(got - direct)) < 1e-12:
        bad.append("sup_kron/permutation")
    if arr.names_sorted != [0, 4, 7] or arr.dims_sorted != [2, 2, 3]:
        bad.append("arrange")
    rho = ref.rand_density(12, rng)
    out = sum(k @ rho @ ref.dag(k) for k in ks)
    if not np.max(np.abs((direct @ rho.reshape(-1)).reshape(12, 12) - out)) < 1e-12:
        bad.append("liouville-action")
    C = choi_of_sup(direct, 12)
    if not np.max(np.abs(C - ref.choi_of_map(ref.kraus_map(ks), 12))) < 1e-12:
        bad.append("choi_of_sup")
    if not tp_defect_of_sup(direct, 12) < 1e-12:
        bad.append("tp_defect")
    n, d, m = kron_by_name([([5], [2], k2[0]), ([1, 9], [2, 3], k1[0])])
    if n != [1, 5, 9] or not np.max(np.abs(m - ref.permute_subsystems(np.kron(k2[0], k1[0]), [2, 2, 3], [1, 0, 2]))) < 1e-14:
        bad.append("kron_by_name")
    return bad


def phys_violations(fac):
    """reference eq / ineq violation sizes of a State / Povm / Gate / MProcess from its raw arrays"""
    t, o, v = fac.t, fac.obj, fac.v
    D = v.D
    if t == "State":
        r = v.op(o.vec)
        return {"eq": float(abs(np.trace(r) - 1)), "ineq": max(ref.psd_violation(r), ref.herm_violation(r) / 2)}
    if t == "Povm":
        ms = [v.op(x) for x in o.vecs]
        return {"eq": float(np.max(np.abs(sum(ms) - np.eye(D)))),
                "ineq": max(max(ref.psd_violation(m) for m in ms), max(ref.herm_violation(m) for m in ms) / 2)}
    if t == "Gate":
        S = v.sup(o.hs)
        C = choi_of_sup(S, D)
        return {"eq": tp_defect_of_sup(S, D), "ineq": max(ref.psd_violation(C), ref.herm_violation(C) / 2)}
    if t == "MProcess":
        Ss = [v.sup(h) for h in o.hss]
        Cs = [choi_of_sup(S, D) for S in Ss]
        return {"eq": tp_defect_of_sup(sum(Ss), D),
                "ineq": max(max(ref.psd_violation(C) for C in Cs), max(ref.herm_violation(C) for C in Cs) / 2)}
    raise TypeError(t)


# -------------------------------------------------------------------- oracles


def flatten_args(elements):
    out = []
    for e in elements:
        if type(e) == list:  # noqa: E721 - the documented call form: a list of operands
            out.extend(e)
        else:
            out.append(e)
    return out


def fold_type(types):
    """result type of the documented left fold, or None when some pair is not in the table"""
    cur = types[0]
    for t in types[1:]:
        cur = PAIR.get((cur, t))
        if cur is None:
            return None
    return cur


def label_of(types):
    u = sorted(set(types))
    if len(u) == 1:
        return f"{u[0]}*{u[0]}"
    return "*".join(u)


def maxdiff(a, b):
    if a.shape != b.shape:
        return float("inf")
    return float(np.max(np.abs(a - b))) if a.size else 0.0


def pair_err(r, e):
    err = maxdiff(r[0], e[0])
    if e[1] is not None or r[1] is not None:
        err = max(err, abs((r[1] if r[1] is not None else 1.0) - (e[1] if e[1] is not None else 1.0)))
    return err


class Judge:
    def __init__(self, ctx):
        self.ctx = ctx
        self.views = Views()
        self.reported = set()  # ids of exceptions already turned into a violation (kept alive in self._exc)
        self._exc = []
        self.status = {}  # id(result) -> (result, status dict)
        self.embedded = []  # (source, result, e_sys names) seen by the embed hook
        self.step = ""  # name of the history step in progress (hooks: info only; ordinary keys)
        self.lenient = False  # step whose operands are outside the property's quantifier: an exception is counted only

    @contextlib.contextmanager
    def in_step(self, name, lenient=False):
        old = (self.step, self.lenient)
        self.step, self.lenient = name, lenient
        try:
            yield
        finally:
            self.step, self.lenient = old

    # ---------------------------------------------------------- helpers
    def keybase(self, facs, arr):
        L = label_of([f.t for f in facs])
        tag = ""
        if any(f.t == "Povm" and len(f.axes) < len(f.v.names) for f in facs):
            tag = ":joint-factor"
        return L, f"tensor_product:{L}{tag}:n={arr.n}:{'sorted' if arr.sorted else 'unsorted'}"

    def remember(self, result, st):
        if len(self.status) > 256:
            self.status.clear()
        self.status[id(result)] = (result, st)

    def status_of(self, result):
        r = self.status.get(id(result))
        return r[1] if r is not None and r[0] is result else None

    # ------------------------------------------------- tensor_product
    def judge(self, result, elems, where, suffix=""):
        """post-condition of one tensor product `result` of the operands `elems` (quara objects); `suffix` names the
        history step when the DRIVER judges inside one (hook verdicts keep their ordinary keys)"""
        ctx = self.ctx
        types = [tname(e) for e in elems]
        if types[0] in BASIS:
            return self.judge_basis(result, elems, where, suffix)
        facs = [Fac(e, self.views) for e in elems]
        arr = Arrange(facs)
        L, base = self.keybase(facs, arr)
        info = {"types": types, "names_in_argument_order": [f.v.names for f in facs], "dims": [f.v.dims for f in facs],
                "factor_outcome_counts": [list(f.axes) for f in facs], "where": where}
        if suffix or self.step:
            info["history_step"] = suffix or self.step
        st = {"ok": False, "assign": None, "layout": None}
        want = fold_type(types)
        if tname(result) != want:
            ctx.truth(f"{where}.result-type", False, key=f"{base}:result-type{suffix}", info=dict(info, got=tname(result), want=want))
            return st
        rf = Fac(result, self.views)
        info["result_names"] = rf.v.names
        info["result_outcome_counts"] = list(rf.axes)
        ok = rf.v.names == arr.names_sorted and rf.v.dims == arr.dims_sorted
        if ok and rf.t == "StateEnsemble":
            for s in result.states:
                es = list(s.composite_system.elemental_systems)
                ok = ok and [e.name for e in es] == arr.names_sorted and [int(e.dim) for e in es] == arr.dims_sorted
        ctx.truth(f"{where}.subsystem-order", ok, key=f"{base}:subsystem-order{suffix}", info=info)
        if not ok:
            return st
        fax = [(k, l, c) for k, f in enumerate(facs) for l, c in enumerate(f.axes)]
        if not rf.axes and not fax:
            e = arr.combine([f.at(())[0] for f in facs])
            err = maxdiff(rf.at(())[0], e)
            v = ctx.num(f"{where}.operator", err, TP, TF, key=f"{base}:operator{suffix}", info=info)
            st["ok"] = v == "pass"
            return st
        # ---- outcome-bearing result: shape, then element at each multi-index through the accessor
        ok = sorted(rf.axes) == sorted(c for _, _, c in fax) and prod(rf.axes) == rf.n_flat
        ctx.truth(f"{where}.shape-is-permutation", ok, key=f"{base}:shape-not-permutation{suffix}", info=info)
        if not ok:
            return st
        cands = self.assignments(rf.axes, fax)
        if cands is None:
            ctx.skip(f"{where}.outcome-layout")
            return st
        ok_acc, table = ctx.attempt(lambda: {x: rf.at(x) for x in np.ndindex(*rf.axes)})
        if not ok_acc:
            ctx.violation(f"{base}:accessor:" + ctx.exc_key(table) + suffix, info)
            return st
        best, best_assign = float("inf"), None
        for assign in cands:
            err = 0.0
            for x in np.ndindex(*rf.axes):
                e = self.expected_at(arr, facs, assign, x)
                err = max(err, pair_err(table[x], e))
                if err >= best:
                    break
            if err < best:
                best, best_assign = err, assign
        key = None
        if best >= TF:
            cls = self.classify_layout(rf, facs, arr, best_assign)
            st["layout"] = cls
            if rf.t == "MProcess" and sum(1 for f in facs if f.t == "MProcess") >= 2:
                # one mechanism, one key: the known second-factor-major layout is the same defect in every step
                key = f"tensor_product:MProcess*MProcess:{cls}" + ("" if cls == KNOWN_MP_LAYOUT else suffix)
            else:
                key = f"{base}:{cls}{suffix}"
            info = dict(info, unambiguous=len(cands) == 1, err=best)
        v = ctx.num(f"{where}.outcome-layout", best, TP, TF, key=key, info=info)
        st["ok"] = v == "pass"
        st["assign"] = best_assign
        return st

    @staticmethod
    def assignments(raxes, fax, cap=24):
        """all maps  (factor k, local axis l) -> result axis j  compatible with the outcome counts"""
        by_count_r, by_count_f = {}, {}
        for j, c in enumerate(raxes):
            by_count_r.setdefault(c, []).append(j)
        for k, l, c in fax:
            by_count_f.setdefault(c, []).append((k, l))
        n = 1
        for c, js in by_count_r.items():
            n *= math.factorial(len(js))
        if n > cap:
            return None
        counts = sorted(by_count_r)
        out = []
        for combo in itertools.product(*[itertools.permutations(by_count_r[c]) for c in counts]):
            m = {}
            for c, js in zip(counts, combo):
                for kl, j in zip(by_count_f[c], js):
                    m[kl] = j
            out.append(m)
        return out

    @staticmethod
    def expected_at(arr, facs, assign, x):
        arrs, w = [], None
        for k, f in enumerate(facs):
            loc = tuple(x[assign[(k, l)]] for l in range(len(f.axes)))
            a, wk = f.at(loc)
            arrs.append(a)
            if wk is not None:
                w = wk if w is None else w * wk
        return arr.combine(arrs), w

    def classify_layout(self, rf, facs, arr, assign):
        """mechanism class of a result whose accessor contradicts the reported shape"""
        # hypothesis T: the raw list runs over the factors' raw lists with the FIRST factor fastest
        # (second-factor-major), while the reported shape promises the first factor slowest
        try:
            ns = [f.n_flat for f in facs]
            worst = 0.0
            for idx in np.ndindex(*ns):
                s, stride = 0, 1
                for i, n in zip(idx, ns):
                    s += i * stride
                    stride *= n
                arrs, w = [], None
                for f, i in zip(facs, idx):
                    a, wk = f.flat(int(i))
                    arrs.append(a)
                    if wk is not None:
                        w = wk if w is None else w * wk
                worst = max(worst, pair_err(rf.flat(int(s)), (arr.combine(arrs), w)))
                if worst > TP:
                    break
            if worst <= TP:
                return "layout-vs-shape:second-factor-major"
            # right elements in some other order?
            pool = [rf.flat(i) for i in range(rf.n_flat)]
            used = set()
            for x in np.ndindex(*rf.axes):
                e = self.expected_at(arr, facs, assign, x)
                hit = None
                for i, r in enumerate(pool):
                    if i not in used and pair_err(r, e) <= TP:
                        hit = i
                        break
                if hit is None:
                    return "element-operator"
                used.add(hit)
            return "layout-vs-shape:other-order"
        except Exception as e:  # noqa: BLE001 - classification only
            return f"layout-vs-shape:unclassified-{type(e).__name__}"

    def judge_basis(self, result, elems, where, suffix=""):
        ctx = self.ctx
        types = [tname(e) for e in elems]
        L = label_of(types)
        base = f"tensor_product:{L}:k={len(elems)}"
        want = fold_type(types)
        st = {"ok": False}
        if tname(result) != want:
            ctx.truth(f"{where}.result-type", False, key=f"{base}:result-type{suffix}", info={"got": tname(result), "want": want})
            return st
        mats = [[ref.dense(b) for b in e] for e in elems]
        lens = [len(m) for m in mats]
        info = {"types": types, "dims": [m[0].shape[0] for m in mats], "lens": lens}
        if suffix or self.step:
            info["history_step"] = suffix or self.step
        got = [ref.dense(b) for b in result]
        if not ctx.truth(f"{where}.basis-count", len(got) == prod(lens), key=f"{base}:count{suffix}", info=info):
            return st
        exp = [ref.kron_all([m[i] for m, i in zip(mats, idx)]) for idx in np.ndindex(*lens)]
        err = max(maxdiff(g, e) for g, e in zip(got, exp))
        key = None
        if err >= TF:
            used, cls = set(), "element-order"
            for e in exp:
                hit = next((i for i, g in enumerate(got) if i not in used and maxdiff(g, e) <= TP), None)
                if hit is None:
                    cls = "elements"
                    break
                used.add(hit)
            key = f"{base}:{cls}{suffix}"
        v = ctx.num(f"{where}.basis-elements", err, TP, TF, key=key, info=info)
        st["ok"] = v == "pass"
        return st

    # hook entry points -------------------------------------------------
    def post_tp(self, result, snap, *elements):
        elems = flatten_args(elements)
        types = [tname(e) for e in elems]
        if len(elems) < 2 or fold_type(types) is None:
            self.ctx.count("tensor_product.returned-for-undocumented-combination")
            return
        # inside a history step the verdicts of this hook carry the step's suffix, except exceptions and the known
        # MProcess*MProcess layout class (one mechanism, one key)
        st = self.judge(result, elems, "call", suffix=self.step)
        self.remember(result, st)

    def exc_tp(self, exc, snap, *elements):
        ctx = self.ctx
        if id(exc) in self.reported:
            ctx.count("tensor_product.exception-propagated")
            return
        elems = flatten_args(elements)
        types = [tname(e) for e in elems]
        valid = len(elems) >= 2 and fold_type(types) is not None
        base = None
        if valid and types[0] not in BASIS:
            facs = [Fac(e, self.views) for e in elems]
            arr = Arrange(facs)
            ids = [id(e) for f in facs for e in f.c_sys.elemental_systems]
            valid = arr.disjoint and len(set(ids)) == len(ids)
            _, base = self.keybase(facs, arr)
            info = {"types": types, "names_in_argument_order": [f.v.names for f in facs], "dims": [f.v.dims for f in facs],
                    "factor_outcome_counts": [list(f.axes) for f in facs], "message": str(exc)[:200]}
        elif valid:
            base = f"tensor_product:{label_of(types)}:k={len(elems)}"
            info = {"types": types, "message": str(exc)[:200]}
        if not valid:
            ctx.count("tensor_product.rejected-invalid-input")
            return
        self.reported.add(id(exc))
        self._exc.append(exc)
        if self.lenient:
            ctx.count(f"history{self.step}:rejected-operand-outside-quantifier")
            return
        if self.step:
            info["history_step"] = self.step
        ctx.truth("call.returns-for-valid-operands", False, key=f"{base}:" + ctx.exc_key(exc), info=info)

    # ------------------------------------------------------- embedding
    def embed_valid(self, qop, e_syss):
        if tname(qop) not in ("State", "Povm", "Gate", "MProcess"):
            return False
        try:
            es = list(qop.composite_system.elemental_systems)
            if any(int(e.dim) != 3 for e in es):
                return False
            e_syss = list(e_syss)
            names = [e.name for e in e_syss]
            return (len(e_syss) == 2 * len(es) and all(int(e.dim) == 2 for e in e_syss) and len(set(names)) == len(names)
                    and len(set(id(e) for e in e_syss)) == len(e_syss))
        except Exception:  # noqa: BLE001
            return False

    def post_embed(self, result, snap, qop, e_syss):
        ctx = self.ctx
        if not self.embed_valid(qop, e_syss):
            ctx.count("embed.returned-for-invalid-input")
            return
        t = tname(qop)
        src = Fac(qop, self.views)
        q = len(src.v.names)
        base = f"embed:{t}:q={q}"
        before = phys_violations(src)
        info = {"type": t, "qutrits": src.v.names, "qubits_given": [e.name for e in e_syss], "before": before}
        if self.step:
            info["history_step"] = self.step
        if tname(result) != t:
            ctx.truth("embed.result-type", False, key=f"{base}:result-type{self.step}", info=dict(info, got=tname(result)))
            return
        rf = Fac(result, self.views)
        ok = rf.v.names == sorted(e.name for e in e_syss) and all(d == 2 for d in rf.v.dims) and rf.axes == src.axes
        ctx.truth("embed.subsystems", ok, key=f"{base}:subsystems-or-shape{self.step}", info=dict(info, result_names=rf.v.names, axes=[list(src.axes), list(rf.axes)]))
        if not ok:
            return
        if max(before["eq"], before["ineq"]) > 1e-12:
            ctx.skip("embed.physicality")
        else:
            after = phys_violations(rf)
            ctx.num("embed.physicality", after["eq"], TP, TF, key=f"{base}:physicality:eq{self.step}", info=dict(info, after=after))
            ctx.num("embed.physicality", after["ineq"], TP, TF, key=f"{base}:physicality:ineq{self.step}", info=dict(info, after=after))
        self.embedded.append((qop, result))

    def exc_embed(self, exc, snap, qop, e_syss):
        ctx = self.ctx
        if not self.embed_valid(qop, e_syss):
            ctx.count("embed.rejected-invalid-input")
            return
        src = Fac(qop, self.views)
        before = phys_violations(src)
        if max(before["eq"], before["ineq"]) > 1e-12 and getattr(qop, "is_physicality_required", False):
            ctx.count("embed.rejected-unphysical-input")
            return
        self.reported.add(id(exc))
        self._exc.append(exc)
        ctx.truth("embed.returns-for-valid-operands", False,
                  key=f"embed:{tname(qop)}:q={len(src.v.names)}:" + ctx.exc_key(exc),
                  info={"qutrits": src.v.names, "qubits_given": [e.name for e in e_syss], "before": before, "message": str(exc)[:200]})


def install(ctx):
    import quara.objects.operators as ops
    from quara.objects.qoperation import QOperation

    hs = HookSet(ctx)
    J = Judge(ctx)
    hs.function(ops, "tensor_product", post=J.post_tp, on_exc=J.exc_tp, label="tensor_product")
    hs.method(QOperation, "embed_qoperation_from_qutrits_to_qubits", post=J.post_embed, on_exc=J.exc_embed, label="embed")
    return hs, J, ops, QOperation


# ------------------------------------------------------------------- workload


def trees(seq):
    """all ordered trees whose leaves are `seq` in order and whose inner nodes have >= 2 children:
    the flat call, every partial and every full nesting"""
    seq = list(seq)
    if len(seq) == 1:
        return [seq[0]]
    out = []
    n = len(seq)
    for k in range(2, n + 1):
        for cuts in itertools.combinations(range(1, n), k - 1):
            parts = [seq[a:b] for a, b in zip((0,) + cuts, cuts + (n,))]
            for combo in itertools.product(*[trees(p) for p in parts]):
                out.append(tuple(combo))
    return out


def tree_str(t):
    if not isinstance(t, tuple):
        return str(t)
    return "(" + " ".join(tree_str(c) for c in t) + ")"


def leaves_of(t):
    if not isinstance(t, tuple):
        return [t]
    return [x for c in t for x in leaves_of(c)]


FAMILIES = ("State", "Povm", "Ensemble", "Gate", "MProcess", "GateMProcess", "Basis", "SparseBasis", "Joint", "Embed")
HERM_KINDS = ["std", "std", "nherm", "nggm", "unnorm", "rot"]   # State / Povm / Gate accept any Hermitian basis
MP_KINDS = ["std", "std", "nggm"]                                 # MProcess: orthonormal, Hermitian, identity first
BASIS_KINDS = ["std", "nherm", "nggm", "unnorm", "comp", "rot"]


def all_cases(blocks):
    """(argument order, grouping tree) over `blocks` operands"""
    out = []
    for perm in itertools.permutations(range(blocks)):
        for t in trees(list(range(blocks))):
            out.append((list(perm), t))
    return out


# measured CPU seconds per case (one core, machine under load: conservative), by total dimension D
_COST = {
    "State": {4: .01, 6: .015, 9: .03, 8: .025, 12: .045, 18: .11, 27: .55, 16: .07},
    "Povm": {4: .025, 6: .03, 9: .045, 8: .06, 12: .1, 18: .22, 27: 1.2, 16: .12},
    "Ensemble": {4: .03, 6: .07, 9: .17, 8: .3, 12: .35, 18: .7, 27: 3.5, 16: .5},
    "Gate": {4: .2, 6: .6, 9: 1.0, 8: .3},
    "MProcess": {4: .15, 6: 1.0, 9: 2.5, 8: 1.3},
    "GateMProcess": {4: .15, 6: .9, 9: 1.7, 8: .8},
    "Basis": {4: .01, 6: .01, 9: .02, 8: .02, 12: .04, 18: .09, 27: .5, 16: .08},
    "SparseBasis": {4: .01, 6: .015, 9: .04, 8: .045, 12: .1, 18: .24, 27: .8, 16: .17},
}


def units(tier):
    """work units {family, dims, reps, take}: `take` = how many of the enumerated (order, tree) cases per repetition"""
    q = tier == "quick"
    U = []

    def add(family, dims, reps=1, take=None, cost=None, **kw):
        if cost is None:
            cost = _COST[kw.get("sub") or family][prod(dims)]
        U.append(dict(family=family, dims=list(dims), cost=cost, reps=reps, take=take, **kw))

    two = list(itertools.product((2, 3), repeat=2))
    three = list(itertools.product((2, 3), repeat=3))
    for fam in ("State", "Povm", "Ensemble"):
        ens = fam == "Ensemble"
        for d in two:
            add(fam, d, reps=4 if q else (20 if ens else 60))
        for d in three:
            D = prod(d)
            if fam == "State":
                take = None
            elif fam == "Povm":
                take = 9 if D == 27 else None
            else:
                take = 18 if D == 8 else 9
            add(fam, d, reps=1 if q else ((4 if D < 27 else 2) if ens else (8 if D < 27 else 4)), take=take if q else None)
        add(fam, (2, 2, 2, 2), reps=1 if q else (2 if ens else 4), take=(33 if ens else 88) if q else None)
    for fam in ("Gate", "MProcess", "GateMProcess"):
        for d in two:
            D = prod(d)
            add(fam, d, reps=(6 if D == 4 else (3 if D == 6 else 2)) if q else (40 if D < 9 else 12))
        add(fam, (2, 2, 2), reps=1 if q else 10)
    for fam in ("Basis", "SparseBasis"):
        for d in two:
            add(fam, d, reps=2 if q else 20)
        for d in three:
            add(fam, d, reps=1 if q else 6, take=(6 if prod(d) == 27 else 9) if q else None)
        add(fam, (2, 2, 2, 2), reps=1, take=16 if q else None)
    # joint (entangled / multi-subsystem) factors: blocks of 2+1 subsystems, names interleaved or not
    for sub in ("State", "Povm"):
        for d in three:
            add("Joint", d, reps=4 if q else 16, sub=sub, cost=1.3 * _COST[sub][prod(d)])
    for sub in ("Gate", "MProcess"):
        add("Joint", (2, 2, 2), reps=4 if q else 16, sub=sub, cost=.2 if sub == "Gate" else 1.0)
    add("Embed", (3,), reps=60 if q else 500, q=1, cost=.5)
    add("Embed", (3, 3), reps=3 if q else 16, q=2, cost=8.0)
    return U


def unit_cases(u, seed):
    """deterministic case list of a unit: (order, tree, repetition)"""
    if u["family"] == "Embed":
        return [(None, None, r) for r in range(u["reps"])]
    blocks = 2 if u["family"] == "Joint" else len(u["dims"])
    cases = all_cases(blocks)
    if u.get("take") and u["take"] < len(cases):
        stride = len(cases) // u["take"]
        off = seed % stride
        cases = cases[off::stride][: u["take"]]
    return [(p, t, r) for r in range(u["reps"]) for (p, t) in cases]


def shards(tier, seed):
    target = 12.0 if tier == "quick" else 110.0  # seconds of estimated work per shard
    out = []
    for ui, u in enumerate(units(tier)):
        n = len(unit_cases(u, seed))
        total = n * u["cost"]
        parts = max(1, min(n, int(math.ceil(total / target))))
        for part in range(parts):
            k = len(range(part, n, parts))
            out.append({"unit": ui, "family": u["family"], "sub": u.get("sub"), "dims": u["dims"], "part": part, "parts": parts,
                        "n": k, "weight": round(k * u["cost"], 3)})
    # merge the many tiny shards of one family into one process each (start-up dominates them)
    merged, small = [], {}
    for s in out:
        if s["weight"] < target / 4 and s["parts"] == 1:
            small.setdefault(s["family"], []).append(s)
        else:
            merged.append({"members": [s], "family": s["family"], "weight": s["weight"]})
    for fam, ss in small.items():
        cur, w = [], 0.0
        for s in ss:
            cur.append(s)
            w += s["weight"]
            if w >= target / 2:
                merged.append({"members": cur, "family": fam, "weight": round(w, 3)})
                cur, w = [], 0.0
        if cur:
            merged.append({"members": cur, "family": fam, "weight": round(w, 3)})
    return merged


# ------------------------------------------------------------ operand builders


def make_es(Q, name, d, kind):
    return Q.ElementalSystem(int(name), gen.local_basis(int(d), kind))


def pick_names(rng, n):
    """n distinct non-contiguous subsystem names, ascending"""
    while True:
        names = sorted(int(x) for x in rng.choice(14, size=n, replace=False))
        if n == 1 or any(b - a > 1 for a, b in zip(names, names[1:])):
            return names


def distinct_counts(rng, k, lo, hi, cap=None):
    """k pairwise different outcome counts in lo..hi (product <= cap)"""
    while True:
        c = [int(x) for x in rng.choice(np.arange(lo, hi + 1), size=k, replace=False)]
        if cap is None or prod(c) <= cap:
            return c


def rand_ensemble(Q, c_sys, m, rng):
    from quara.objects.multinomial_distribution import MultinomialDistribution
    from quara.objects.state_ensemble import StateEnsemble

    states = [gen.rand_state(c_sys, rng, rank=int(rng.integers(1, c_sys.dim + 1))) for _ in range(m)]
    p = rng.dirichlet(np.ones(m)) * 0.6 + 0.4 / m  # bounded away from quara's eps_zero clipping
    p = p / p.sum()
    return StateEnsemble(states, MultinomialDistribution(np.array(p, dtype=np.float64)))


def build_operand(Q, ctx, typ, c_sys, rng, count, required):
    d = c_sys.dim
    kw = {"is_physicality_required": bool(required)}

    def mk():
        if typ == "State":
            return gen.rand_state(c_sys, rng, rank=int(rng.integers(1, d + 1)), **kw)
        if typ == "Povm":
            return gen.rand_povm(c_sys, count, rng, rank=int(rng.integers(1, d + 1)) if count >= d else None, **kw)
        if typ == "Gate":
            return gen.rand_gate(c_sys, rng, r=int(rng.integers(1, 4)), **kw)
        if typ == "MProcess":
            return gen.rand_mprocess(c_sys, count, rng, [int(rng.integers(1, 3)) for _ in range(count)], **kw)
        if typ == "StateEnsemble":
            return rand_ensemble(Q, c_sys, count, rng)
        raise ValueError(typ)

    ok, obj = ctx.attempt(mk)
    if not ok and required:
        # quara's own physicality verdict is C01's business; fall back to an unchecked operand
        ctx.count("operand.physicality-required-rejected")
        kw["is_physicality_required"] = False
        obj = mk()
    elif not ok:
        raise obj
    return obj


def call_tp(ops, args, rng):
    """one call of tensor_product in one of the documented call forms"""
    form = int(rng.integers(0, 4))
    if form == 0 or len(args) < 2:
        return ops.tensor_product(*args)
    if form == 1:
        return ops.tensor_product(list(args))
    if form == 2:
        return ops.tensor_product(args[0], list(args[1:]))
    return ops.tensor_product(list(args[:-1]), args[-1])


def eval_tree(ops, t, operands, rng):
    if not isinstance(t, tuple):
        return operands[t]
    return call_tp(ops, [eval_tree(ops, c, operands, rng) for c in t], rng)


def relabel(t, order):
    if not isinstance(t, tuple):
        return order[t]
    return tuple(relabel(c, order) for c in t)


def build_operands(Q, ctx, spec, rng):
    """the operands of one product case on NEW elemental systems: one per block of `spec`"""
    typ, names, dims = spec["typ"], spec["names"], spec["dims"]
    operands = []
    for g, cnt, kt in zip(spec["groups"], spec["counts"], spec["kinds_t"]):
        pool = MP_KINDS if typ in ("MProcess", "GateMProcess") else HERM_KINDS
        es = [make_es(Q, names[i], dims[i], str(rng.choice(pool))) for i in g]
        c_sys = Q.CompositeSystem(es)
        operands.append(build_operand(Q, ctx, kt, c_sys, rng, cnt, spec["required"]))
    return operands


# ------------------------------------------------------------------- histories


class Veterans:
    """long-lived qubit operands (per type: one on subsystem name 6, one on 7, one on 20), built lazily from FIXED data (so
    every run and every replay of a shard builds the same ones); every case of the shard multiplies one of its operands
    with a veteran whose name the case does not use (6 / 7: in the middle of the cases' names 0..13, so the veteran sorts
    before some partners and after others; 20: always last)"""

    NAMES = (6, 7, 20)
    COUNT = {"Povm": 7, "MProcess": 5}  # different from every outcome count the cases draw

    def __init__(self, Q, ctx):
        self.Q, self.ctx, self.objs = Q, ctx, {}

    def get(self, typ, used_names, hr):
        free = [n for n in self.NAMES if n not in used_names]
        name = free[int(hr.integers(0, len(free)))]
        o = self.objs.get((typ, name))
        if o is None:
            rng = np.random.default_rng([20260928, QOP.index(typ), name])
            es = make_es(self.Q, name, 2, "nggm" if typ in ("Gate", "MProcess") else "nherm")
            o = build_operand(self.Q, self.ctx, typ, self.Q.CompositeSystem([es]), rng, self.COUNT.get(typ), False)
            self.objs[(typ, name)] = o
        return o


def derive(ctx, o, how):
    """an operand with the content of `o` obtained through a public route (judged by its OWN arrays afterwards)"""
    t = tname(o)
    if how == "same" or t not in ("State", "Povm", "Gate", "MProcess"):
        return o
    ok, c = ctx.attempt((lambda: o.copy()) if how == "copy" else (lambda: o.generate_from_var(o.to_var())))
    if not ok or tname(c) != t:
        ctx.count(f"history:step-unavailable:{how}:{t}")  # producing the object is C03 / C13 business
        return o
    return c


def other_order(n, first_order, hr):
    """a random argument order different from the first one (when there is one) and a random grouping tree"""
    for _ in range(8):
        order = [int(i) for i in hr.permutation(n)]
        if order != list(first_order):
            break
    ts = trees(list(range(n)))
    return relabel(ts[int(hr.integers(0, len(ts)))], order)


# (probability of: re-used operands, provenance, sibling, set_zero), probability of that main step at all, of the veteran
# step, of the held-result judgement - set from measured CPU so that the histories cost < half of the first passes
_HIST_PLAN = {
    "State": ((.35, .25, .2, .2), .8, .5, .5),
    "Povm": ((.35, .25, .2, .2), .8, .5, .5),
    "Ensemble": ((.45, .2, .1, .25), .5, .5, .3),
    "Gate": ((.35, .25, .2, .2), .8, .5, .5),
    "MProcess": ((.35, .25, .2, .2), .7, .4, .5),
    "GateMProcess": ((.35, .25, .2, .2), .8, .5, .5),
    "Joint": ((.35, .25, .2, .2), .7, .5, .5),
}


def history_product(ctx, J, ops, Q, vets, fam, spec, operands, args_tree, in_order, res, desc):
    """history / combination steps of one product case (see the module docstring); `res` is the first result"""
    hr = ctx.rng(1)
    n = len(operands)
    probs, p_main, p_vet, p_held = _HIST_PLAN[fam]
    step = ("reuse", "prov", "sibling", "setzero")[int(hr.choice(4, p=probs))]
    if hr.random() >= p_main:
        step = "none"
    first_order = leaves_of(args_tree)
    ctx.count("history:step:" + step)

    def product(tree, objs, suffix, lenient=False):
        """one more product through the hooked function (hooks judge each call), then the driver's leaf judgement"""
        leaves = [objs[i] for i in leaves_of(tree)]
        with J.in_step(suffix, lenient=lenient):
            ok, r = ctx.attempt(eval_tree, ops, tree, objs, hr)
        if not ok:
            if lenient:
                ctx.count(f"history{suffix}:exception-not-judged")
            elif id(r) not in J.reported:
                fs = [Fac(o, J.views) for o in leaves]
                ctx.violation(f"{J.keybase(fs, Arrange(fs))[1]}:unjudged-" + ctx.exc_key(r) + suffix, dict(desc, history_step=suffix))
            return None
        if len(leaves) > 2:  # (a pairwise product has just been judged against exactly these leaves by the hook)
            J.judge(r, leaves, "history", suffix=suffix)
        return r

    if step == "none":
        pass
    elif step == "reuse":
        product(other_order(n, first_order, hr), operands, ":re-used-operands")
    elif step == "prov":
        how = "copy" if hr.random() < 0.6 else "generate_from_var"
        derived = [derive(ctx, o, how) for o in operands]
        if any(d is not o for d, o in zip(derived, operands)):
            product(other_order(n, first_order, hr) if hr.random() < 0.5 else args_tree, derived, ":via-" + how)
        else:
            product(other_order(n, first_order, hr), operands, ":re-used-operands")
    elif step == "sibling":
        spec2 = dict(spec)
        if hr.random() < 0.5 and spec["typ"] != "Ensemble":
            spec2["dims"] = list(reversed(spec["dims"]))  # same names, mirrored dimensions (same total size)
        ok, sib = ctx.attempt(build_operands, Q, ctx, spec2, hr)
        if ok:
            product(args_tree, sib, ":sibling-same-names")
        else:
            ctx.count("history:step-unavailable:sibling")
    else:
        # product - public mutator set_zero() on one operand (a copy: the case's own operands stay as they are) - product
        j, k = (int(i) for i in hr.choice(n, size=2, replace=False))
        c = derive(ctx, operands[j], "copy")
        if c is operands[j]:
            product(other_order(n, first_order, hr), operands, ":re-used-operands")
        else:
            pair = [c, operands[k]] if hr.random() < 0.5 else [operands[k], c]
            if product((0, 1), pair, ":via-copy") is not None:
                ok, _ = ctx.attempt(c.set_zero)
                if ok:
                    product((0, 1), pair, ":after-set_zero", lenient=True)
                else:
                    ctx.count("history:step-unavailable:set_zero")
    # ---- the shard's veteran of the matching type with one single-subsystem operand of this case, either side
    if vets is not None and hr.random() < p_vet:
        def single(o):  # channels: qubit partners only (cost of the 36x36 / 81x81 Liouville products)
            f = Fac(o, J.views)
            return len(f.v.names) == 1 and (f.kind == "op" or f.v.D == 2)

        singles = [o for o in operands if single(o)]
        if singles:
            o = singles[int(hr.integers(0, len(singles)))]
            t = tname(o)
            vt = "State" if t == "StateEnsemble" else t
            if spec["typ"] in ("MProcess", "GateMProcess") and hr.random() < 0.5:
                vt = "Gate" if t == "MProcess" else "MProcess"  # (MProcess demands orthonormal identity-first bases: these families have them)
            v = vets.get(vt, spec["names"], hr)
            product((0, 1), [v, o] if hr.random() < 0.5 else [o, v], ":veteran-operand")
    # ---- the first result again, against its leaves, after everything above
    if hr.random() < p_held:
        J.judge(res, in_order, "history", suffix=":held-result")


# --------------------------------------------------------------- case runners


def run_product_case(ctx, J, ops, Q, fam, sub, dims, order, tree, rng, vets=None):
    """one (argument order, grouping) case of a product family"""
    views = J.views
    typ = sub or fam
    nsub = len(dims)
    names = pick_names(rng, nsub)
    # ---- operands
    if fam == "Joint":
        # two blocks: a joint operand on two subsystems and a single-subsystem one; which names go together is random
        pos = [int(x) for x in rng.permutation(nsub)]
        groups = [sorted(pos[:2]), pos[2:]]
    else:
        groups = [[i] for i in range(nsub)]
    nb = len(groups)
    Dtot = prod(dims)
    if typ == "GateMProcess":
        kinds_t = ["Gate"] * nb
        while len(set(kinds_t)) < 2:
            kinds_t = [str(rng.choice(["Gate", "MProcess"])) for _ in range(nb)]
    elif typ == "Ensemble":
        # every ensemble element costs one quara state product (a new CompositeSystem each): bound their number
        cap = 120 if Dtot <= 9 else (24 if Dtot <= 16 else 12)
        kmax = max(k for k in range(1, 5) if math.factorial(k + 1) <= cap)
        kinds_t = ["State"] * nb
        while not 1 <= kinds_t.count("StateEnsemble") <= kmax:
            kinds_t = [str(rng.choice(["State", "StateEnsemble", "StateEnsemble"])) for _ in range(nb)]
    else:
        kinds_t = [typ] * nb
    if typ == "Povm":
        counts = distinct_counts(rng, nb, 2, 6 if nb <= 3 else 5)
    elif typ == "Ensemble":
        cs = distinct_counts(rng, kinds_t.count("StateEnsemble"), 2, 5, cap=cap)
        counts = [cs.pop() if kt == "StateEnsemble" else None for kt in kinds_t]
    elif typ in ("MProcess", "GateMProcess"):
        counts = distinct_counts(rng, nb, 1, 4, cap=8 if Dtot >= 8 else 12)
    else:
        counts = [None] * nb
    big = prod(dims) >= 8
    required = (not big or typ in ("State", "Povm", "Ensemble")) and rng.random() < 0.5
    spec = dict(typ=typ, names=names, dims=list(dims), groups=groups, counts=counts, kinds_t=kinds_t, required=required)
    operands = build_operands(Q, ctx, spec, rng)
    args_tree = relabel(tree, order)
    arg_order = leaves_of(args_tree)
    in_order = [operands[i] for i in arg_order]
    facs = [Fac(o, views) for o in in_order]
    arr = Arrange(facs)
    L, base = J.keybase(facs, arr)
    desc = {"family": fam, "types": [f.t for f in facs], "dims_by_name": dict(zip(names, dims)),
            "argument_names": [f.v.names for f in facs], "grouping": tree_str(args_tree), "counts": [list(f.axes) for f in facs],
            "physicality_required": bool(required)}
    if (not arr.sorted) or len(operands) >= 3 or any(f.axes for f in facs) or len(set(dims)) > 1:
        ctx.nontrivial(fam, sub, dims, names, arg_order, tree_str(args_tree),
                       [np.hstack([np.ravel(a) for a in _raw(o)]) for o in in_order])
    ctx.sample(desc)
    # ---- the product, through the hooked function (hook judges every call on the way)
    ok, res = ctx.attempt(eval_tree, ops, args_tree, operands, rng)
    if not ok:
        if id(res) not in J.reported:
            ctx.violation(f"{base}:unjudged-" + ctx.exc_key(res), desc)
        return
    # ---- end-to-end against the LEAVES (independent of the per-call bookkeeping)
    st = J.judge(res, in_order, "fold")
    first_pass_product_case(ctx, J, ops, views, fam, facs, arr, res, st, desc, rng)
    t0 = time.process_time()
    history_product(ctx, J, ops, Q, vets, fam, spec, operands, args_tree, in_order, res, desc)
    if PROFILE:
        ctx.count("prof_hist_ms:%s" % fam, int(1000 * (time.process_time() - t0)))


def first_pass_product_case(ctx, J, ops, views, fam, facs, arr, res, st, desc, rng):
    """end-to-end oracles of the first pass (product states stay product, gates act factor-wise, product statistics)"""
    rf = Fac(res, views)
    leaf_rho = [ref.rand_density(f.v.D, rng, int(rng.integers(1, f.v.D + 1))) for f in facs]
    rho_total = arr.combine(leaf_rho) if arr.kind == "op" else Arrange(_as_op(facs)).combine(leaf_rho)
    ordtag = "sorted" if arr.sorted else "unsorted"
    if rf.t == "State":
        rho = rf.at(())[0]
        pos = {n: i for i, n in enumerate(arr.names_sorted)}
        err = 0.0
        for f in facs:
            keep = [pos[n] for n in f.v.names]
            want = f.at(())[0] * np.prod([np.trace(g.at(())[0]) for g in facs if g is not f])
            err = max(err, maxdiff(ref.partial_trace(rho, arr.dims_sorted, keep), want))
        ctx.num("product-state.partial-trace", err, TP, TF, key=f"product-state:n={arr.n}:{ordtag}:partial-trace", info=desc)
    if rf.t == "Gate":
        out = (rf.at(())[0] @ rho_total.reshape(-1)).reshape(arr.D, arr.D)
        want = Arrange(_as_op(facs)).combine([(f.at(())[0] @ r.reshape(-1)).reshape(f.v.D, f.v.D) for f, r in zip(facs, leaf_rho)])
        ctx.num("product-gate.factorwise", maxdiff(out, want), TP, TF, key=f"product-gate:n={arr.n}:{ordtag}:factorwise", info=desc)
    if rf.t in ("Povm", "MProcess"):
        if not st["ok"]:
            ctx.skip("product-statistics")  # layout already reported by the contract; the mapping is undefined
        else:
            assign = st["assign"]
            err = 0.0
            for x in np.ndindex(*rf.axes):
                el = rf.at(x)[0]
                if rf.t == "Povm":
                    p = np.trace(el @ rho_total).real
                else:
                    p = np.trace((el @ rho_total.reshape(-1)).reshape(arr.D, arr.D)).real
                want = 1.0
                for k, (f, r) in enumerate(zip(facs, leaf_rho)):
                    if f.t == "Gate":
                        continue
                    loc = tuple(x[assign[(k, l)]] for l in range(len(f.axes)))
                    a = f.at(loc)[0]
                    want *= np.trace(a @ r).real if f.t == "Povm" else np.trace((a @ r.reshape(-1)).reshape(f.v.D, f.v.D)).real
                err = max(err, abs(p - want))
            ctx.num("product-statistics", err, TP, TF, key=f"product-statistics:{rf.t}:n={arr.n}:{ordtag}", info=desc)
            if rf.t == "Povm" and fam != "Joint":
                # the same measurement on quara's own product state of the same subsystems (other order / grouping)
                sts = [gen.make_state(f.c_sys, r) for f, r in zip(facs, leaf_rho)]
                o2 = [int(i) for i in rng.permutation(len(sts))]
                ok2, S = ctx.attempt(call_tp, ops, [sts[i] for i in o2], rng)
                if ok2 and (J.status_of(S) or {}).get("ok"):
                    rs = Fac(S, views).at(())[0]
                    err = 0.0
                    for x in np.ndindex(*rf.axes):
                        want = 1.0
                        for k, (f, r) in enumerate(zip(facs, leaf_rho)):
                            want *= np.trace(f.at(tuple(x[assign[(k, l)]] for l in range(len(f.axes))))[0] @ r).real
                        err = max(err, abs(np.trace(rf.at(x)[0] @ rs).real - want))
                    ctx.num("product-statistics", err, TP, TF, key=f"product-statistics:Povm.State:n={arr.n}:{ordtag}", info=desc)
                else:
                    ctx.skip("product-statistics")


def _as_op(facs):
    class _O:
        pass

    out = []
    for f in facs:
        o = _O()
        o.v, o.kind = f.v, "op"
        out.append(o)
    return out


def _raw(o):
    t = tname(o)
    if t == "StateEnsemble":
        return [s.vec for s in o.states] + [np.asarray(o.prob_dist.ps)]
    if t in BASIS:
        return [ref.dense(b) for b in o]
    r = gen.raw_params(o)
    return r if isinstance(r, list) else [r]


def run_basis_case(ctx, J, ops, Q, fam, dims, order, tree, rng):
    from quara.objects.matrix_basis import MatrixBasis, SparseMatrixBasis

    cls = SparseMatrixBasis if fam == "SparseBasis" else MatrixBasis
    operands = []
    kinds = []
    for d in dims:
        k = str(rng.choice(BASIS_KINDS))
        kinds.append(k)
        operands.append(cls([ref.dense(b) for b in gen.local_basis(d, k)]))
    args_tree = relabel(tree, order)
    arg_order = leaves_of(args_tree)
    in_order = [operands[i] for i in arg_order]
    desc = {"family": fam, "dims_in_argument_order": [dims[i] for i in arg_order], "basis_kinds": [kinds[i] for i in arg_order],
            "grouping": tree_str(args_tree)}
    ctx.nontrivial(fam, [dims[i] for i in arg_order], [kinds[i] for i in arg_order], tree_str(args_tree))
    ctx.sample(desc)
    ok, res = ctx.attempt(eval_tree, ops, args_tree, operands, rng)
    if not ok:
        if id(res) not in J.reported:
            ctx.violation(f"tensor_product:{cls.__name__}*{cls.__name__}:k={len(dims)}:unjudged-" + ctx.exc_key(res), desc)
        return
    J.judge(res, in_order, "fold")
    # ---- history: the same basis OBJECTS in another order / grouping (or a sibling set of the same dimensions and other
    # kinds through the same tree), then the first result again
    hr = ctx.rng(1)
    if hr.random() < 0.6:
        objs, tree2, suffix = operands, other_order(len(dims), arg_order, hr), ":re-used-operands"
    else:
        objs = [cls([ref.dense(b) for b in gen.local_basis(d, str(hr.choice(BASIS_KINDS)))]) for d in dims]
        tree2, suffix = args_tree, ":sibling-same-dims"
    ctx.count("history:step:basis" + suffix)
    leaves = [objs[i] for i in leaves_of(tree2)]
    with J.in_step(suffix):
        ok, res2 = ctx.attempt(eval_tree, ops, tree2, objs, hr)
    if ok:
        if len(leaves) > 2:
            J.judge(res2, leaves, "history", suffix=suffix)
    elif id(res2) not in J.reported:
        ctx.violation(f"tensor_product:{cls.__name__}*{cls.__name__}:k={len(dims)}:unjudged-" + ctx.exc_key(res2) + suffix, desc)
    if hr.random() < 0.5:
        J.judge(res, in_order, "history", suffix=":held-result")


def run_embed_case(ctx, J, QOperation, Q, nq, rng, ops=None):
    if ops is None:
        import quara.objects.operators as ops
    views = J.views
    emb = QOperation.embed_qoperation_from_qutrits_to_qubits
    names3 = pick_names(rng, nq)
    names2 = [int(x) for x in rng.permutation(pick_names(rng, 2 * nq))]
    c3 = Q.CompositeSystem([make_es(Q, n, 3, "std") for n in names3])
    qubits = [make_es(Q, n, 2, "std") for n in names2]
    d = c3.dim
    required = nq == 1 and rng.random() < 0.5
    m_povm, m_mp = int(rng.integers(2, 5)), int(rng.integers(2, 4))
    src = {
        "state": build_operand(Q, ctx, "State", c3, rng, None, required),
        "povm": build_operand(Q, ctx, "Povm", c3, rng, m_povm, required),
        "gate": build_operand(Q, ctx, "Gate", c3, rng, None, required),
        "gate2": build_operand(Q, ctx, "Gate", c3, rng, None, required),
        "mprocess": build_operand(Q, ctx, "MProcess", c3, rng, m_mp, required),
    }
    desc = {"family": "Embed", "qutrit_names": names3, "qubit_names_given": names2, "povm_outcomes": m_povm,
            "mprocess_outcomes": m_mp, "physicality_required": bool(required)}
    ctx.nontrivial("Embed", names3, names2, [np.hstack([np.ravel(a) for a in _raw(o)]) for o in src.values()])
    ctx.sample(desc)
    out = {}
    for k, o in src.items():
        ok, e = ctx.attempt(emb, o, list(qubits))
        if not ok:
            if id(e) not in J.reported:
                ctx.violation(f"embed:{tname(o)}:q={nq}:unjudged-" + ctx.exc_key(e), desc)
            continue
        out[k] = e
    if "state" not in out or "povm" not in out:
        return

    def stats(objs):
        f = {k: Fac(o, views) for k, o in objs.items()}
        D = f["state"].v.D
        r = f["state"].at(())[0].reshape(-1)
        ms = [f["povm"].flat(i)[0] for i in range(f["povm"].n_flat)]

        def born(vec):
            X = vec.reshape(D, D)
            return np.array([np.trace(m @ X) for m in ms])

        res = {"povm.state": born(r)}
        if "gate" in f:
            g = f["gate"].at(())[0]
            res["povm.gate.state"] = born(g @ r)
            if "gate2" in f:
                res["povm.gate.gate.state"] = born(f["gate2"].at(())[0] @ (g @ r))
        if "mprocess" in f:
            es = [f["mprocess"].flat(i)[0] for i in range(f["mprocess"].n_flat)]
            res["povm.mprocess.state"] = np.array([born(e @ r) for e in es])
            if "gate" in f:
                res["povm.gate.mprocess.state"] = np.array([born(f["gate"].at(())[0] @ (e @ r)) for e in es])
        return res

    if nq == 2:
        # Embedding respects the subsystem structure: qutrit k (ascending name) goes to the k-th pair of qubits
        # (ascending name), i.e. embedding commutes with the tensor product.  Separately embedded one-qutrit states,
        # tensored, must be the joint embedding of their product (this is how embedded inputs of a jointly embedded
        # two-qutrit gate / POVM are built; a layout that is only self-consistent for all-joint embeddings is not
        # enough - missed seeded change C07-3).
        es3 = sorted(c3.elemental_systems, key=lambda e: e.name)
        q_sorted = sorted(qubits, key=lambda e: e.name)
        ca, cb = Q.CompositeSystem([es3[0]]), Q.CompositeSystem([es3[1]])
        ra, rb = ref.rand_density(3, rng), ref.rand_density(3, rng)
        sa, sb = gen.make_state(ca, ra), gen.make_state(cb, rb)
        ok1, joint = ctx.attempt(emb, ops.tensor_product(sa, sb), list(qubits))
        ok2, ea = ctx.attempt(emb, sa, q_sorted[0:2])
        ok3, eb = ctx.attempt(emb, sb, q_sorted[2:4])
        if ok1 and ok2 and ok3:
            ok4, prod_ab = ctx.attempt(ops.tensor_product, ea, eb)
            if ok4:
                Bj = gen.basis_of(joint.composite_system)
                Bp = gen.basis_of(prod_ab.composite_system)
                same_sys = [e.name for e in joint.composite_system.elemental_systems] == [e.name for e in prod_ab.composite_system.elemental_systems]
                err = float(np.max(np.abs(ref.op(Bj, joint.vec) - ref.op(Bp, prod_ab.vec)))) if same_sys else float("inf")
                ctx.num("embed.commutes-with-tensor-product", err, TP, TF, key="embed:State:q=2:joint-embedding-differs-from-product-of-embeddings",
                        info=dict(desc, note="embed(rhoA (x) rhoB) vs embed(rhoA) (x) embed(rhoB)"))
    before = stats({k: src[k] for k in out})
    after = stats(out)
    for chain in before:
        b, a = before[chain], after[chain]
        err = float(np.max(np.abs(a - b))) if a.shape == b.shape else float("inf")
        ctx.num("embed.statistics", err, TP, TF, key=f"embed:statistics:{chain}:q={nq}", info=dict(desc, before=b, after=a))
    # ---- history: the same sources (or their copies) embedded a second time, into OTHER qubits (two qutrits: state and
    # POVM only, for cost); each embedded set is compared with the statistics of the very objects that were embedded
    t0 = time.process_time()
    hr = ctx.rng(1)
    how = "same" if hr.random() < 0.5 else "copy"
    suffix = ":second-embedding" + ("" if how == "same" else ":via-copy")
    ctx.count("history:step:embed" + suffix)
    names_b = [int(x) for x in hr.permutation(pick_names(hr, 2 * nq))]
    qubits_b = [make_es(Q, n, 2, "std") for n in names_b]
    desc_b = dict(desc, history_step=suffix, qubit_names_given_second=names_b)
    full = nq == 1 and hr.random() < 0.5
    src_b = {k: derive(ctx, src[k], how) for k in (list(out) if full else ("state", "povm"))}
    out_b = {}
    with J.in_step(suffix):
        for k, o in src_b.items():
            ok, e = ctx.attempt(emb, o, list(qubits_b))
            if ok:
                out_b[k] = e
            elif id(e) not in J.reported:
                ctx.violation(f"embed:{tname(o)}:q={nq}:unjudged-" + ctx.exc_key(e) + suffix, desc_b)

    def compare(b4, aft, sfx, info):
        for chain in b4:
            b, a = b4[chain], aft[chain]
            err = float(np.max(np.abs(a - b))) if a.shape == b.shape else float("inf")
            ctx.num("history.embed.statistics", err, TP, TF, key=f"embed:statistics:{chain}:q={nq}{sfx}", info=dict(info, before=b, after=a))

    if "state" in out_b and "povm" in out_b:
        compare(stats({k: src_b[k] for k in out_b}), stats(out_b), suffix, desc_b)
        if nq == 1 and not full:
            # option: a measurement process with a NON-DEFAULT outcome shape; the hook demands the same reported shape,
            # here every outcome multi-index (through the objects' own accessor hs(tuple)) keeps its statistics
            shape = [(2, 2), (2, 3), (3, 2)][int(hr.integers(0, 3))]
            ok, mp = ctx.attempt(gen.rand_mprocess, c3, prod(shape), hr, None, shape=shape, is_physicality_required=bool(required))
            if not ok:
                ctx.count("history:step-unavailable:shaped-mprocess")
            else:
                with J.in_step(":shaped-mprocess"):
                    ok, emp = ctx.attempt(emb, mp, list(qubits_b))
                if not ok:
                    if id(emp) not in J.reported:
                        ctx.violation(f"embed:MProcess:q={nq}:unjudged-" + ctx.exc_key(emp) + ":shaped-mprocess", desc_b)
                elif tuple(emp.shape) == tuple(shape):  # (a dropped shape is the hook's verdict embed.subsystems)
                    def table(state, povm, m):
                        fs, fp, fm = Fac(state, views), Fac(povm, views), Fac(m, views)
                        r = fs.at(())[0].reshape(-1)
                        ms = [fp.flat(i)[0] for i in range(fp.n_flat)]
                        D = fs.v.D
                        return np.array([[np.trace(e @ (fm.at(x)[0] @ r).reshape(D, D)) for e in ms] for x in np.ndindex(*shape)])

                    ok, tabs = ctx.attempt(lambda: (table(src_b["state"], src_b["povm"], mp), table(out_b["state"], out_b["povm"], emp)))
                    if ok:
                        compare({"povm.mprocess(multi-index).state": tabs[0]}, {"povm.mprocess(multi-index).state": tabs[1]},
                                ":shaped-mprocess", dict(desc_b, history_step=":shaped-mprocess", shape=list(shape)))
                    else:
                        ctx.violation(f"embed:MProcess:q={nq}:accessor:" + ctx.exc_key(tabs) + ":shaped-mprocess", desc_b)
    # the first embedded objects again, after the later embeddings
    compare(before, stats(out), ":held-result", dict(desc, history_step=":held-result"))
    if PROFILE:
        ctx.count("prof_hist_ms:Embed", int(1000 * (time.process_time() - t0)))


# ------------------------------------------------------------------ run_shard


def run_shard(ctx):
    Q = gen.q()
    bad = helper_self_test(np.random.default_rng(20260927))
    if bad:
        ctx.mark_inconclusive(f"reference self-test failed: {bad}")
        return
    hs, J, ops, QOperation = install(ctx)
    vets = Veterans(Q, ctx)
    members = ctx.params["members"]
    us = units(ctx.tier)
    plan = []
    for mem in members:
        u = us[mem["unit"]]
        cs = unit_cases(u, ctx.seed)
        for c in cs[mem["part"]::mem["parts"]]:
            plan.append((u, c))
    try:
        for i in ctx.cases(len(plan)):
            u, (order, tree, rep) = plan[i]
            rng = ctx.rng()
            fam = u["family"]
            t_case = time.process_time()
            if fam == "Embed":
                run_embed_case(ctx, J, QOperation, Q, u["q"], rng, ops)
            elif fam in ("Basis", "SparseBasis"):
                run_basis_case(ctx, J, ops, Q, fam, u["dims"], order, tree, rng)
            else:
                run_product_case(ctx, J, ops, Q, fam, u.get("sub"), u["dims"], order, tree, rng, vets)
            if PROFILE:
                ctx.count("prof_ms:%s:%s:%s" % (fam, u.get("sub"), "x".join(map(str, u["dims"]))), int(1000 * (time.process_time() - t_case)))
                ctx.count("prof_n:%s:%s:%s" % (fam, u.get("sub"), "x".join(map(str, u["dims"]))))
    finally:
        hs.uninstall()
    ctx.extra["hook_counts"] = hs.counts
    ctx.extra["cpu_s"] = round(time.process_time(), 2)
    ctx.count("cpu_ms." + ctx.params["family"], int(1000 * time.process_time()))
    if ctx.only_case is None:
        hs.require(["embed"] if ctx.params["family"] == "Embed" else ["tensor_product"])


def finalize(merged, ctx):
    """bookkeeping only (no verdicts): CPU seconds per shard, for the cost figures in the evidence"""
    cpu = [float((e.get("extra") or {}).get("cpu_s", 0.0)) for e in merged["extra"]]
    if cpu:
        ctx.count("cpu_ms.max_shard", int(1000 * max(cpu)))
        ctx.count("cpu_ms.total", int(1000 * sum(cpu)))
