"""C11  Loss minimisation attains the constrained optimum.

Hooks
  ProjectedGradientDescentBacktracking.optimize          -> trace checker over the returned iteration history
  LossMinimizationEstimator.calc_estimate_sequence       -> optimality gap of every returned estimate
  CvxpyLossMinimizationEstimator.calc_estimate_sequence  -> optimality gap / feasibility / reported loss
The driver adds: agreement of the two estimators, rejection of the unsupported
parametrisation by the CVXPY estimator.

History / combination steps (the statement holds for every estimate, whatever the
objects did before; only calc_estimate / calc_estimate_sequence are used, which
document that they re-set the loss and the algorithm; draws come from ctx.rng(1),
so the base workload of a case is unchanged):
  re-use            two cases of three use estimator / loss / algorithm objects kept
                    for the whole shard (coordinator's step, ordinary keys)
  :second-call      the cheapest criterion-stopped run of the case once more with the
                    very same objects and data through the estimator's DEFAULT path
                    (no iteration history: judged when the first call vouches for a
                    criterion stop and no limit warning was printed; the estimate must
                    be physical) or with only one of the two result flags
  :dataset-sequence calc_estimate_sequence with two data sets (the case's and a second
                    one, half of them sampled by the library from generate_from_var /
                    generate_empi_dists), same objects, both estimators
  :twin-tomography / :sibling-tomography, :after-...
                    the same objects serve a second tomography (same sizes = twin;
                    other number of schedules / outcomes / other parametrisation flag
                    = sibling) and then the case's tomography again; the CVXPY loss must
                    accept / reject each by its own flag
  :result-re-read   every result object still held is read again at the end of the
                    case: estimate unchanged (1e-12 / 1e-9 relative, three-zone), still
                    a minimiser for ITS data, iteration history still passes the trace
                    checker
The key of the known finding (Povm, >= 3 outcomes, flag on) and exception keys are
never tagged.

Reference (never calls quara to decide): the loss is recomputed from its
defining formula on p = A.var + b (A, b read from the tomography object, q read
from the data), physical sets come from qv.refopt, the optimum comes from the
same convex programme written here in cvxpy over Hermitian PSD variables and
solved with Clarabel (quara's own estimator uses SCS).
"""
import json
import os

import numpy as np

from qv import gen, ref, refopt
from qv.monitor import HookSet

ID = "C11"
RULE = ("a case = one data set (random informationally complete testers, true object interior / boundary / pure, "
        "N in {10,1e2,1e3,1e5} shots per schedule or exact probabilities) x loss family (squared error / relative entropy, "
        "identity weights) for QST, POVMT (2-3 outcomes), QPT on one qubit and QST on a qutrit, both parametrisation flags; "
        "per case several fresh backtracking runs (generic / fast loss x 4 stopping modes x eps x history window x "
        "gamma / mu / start point) and one CVXPY(SCS) estimate, on two cases of three with estimator / loss / algorithm "
        "objects kept for the whole shard; then history steps with the SAME objects (rotating: second call through the "
        "estimator's default path / calc_estimate_sequence with a second data set / a twin or sibling tomography between two "
        "calls; CVXPY: sibling then sequence in every case) and a re-read of every held result object; distinct by "
        "(tomography, flag, rounded data, loss, algorithm options, history step); non-trivial when the start point is not "
        "already optimal (loss at the start exceeds the reference optimum by more than 1e-6)")
ANCHORS = [
    "quara/minimization_algorithm/projected_gradient_descent_backtracking.py:ProjectedGradientDescentBacktracking.optimize",
    "quara/minimization_algorithm/projected_gradient_descent_backtracking.py:ProjectedGradientDescentBacktracking._is_doing_for_alpha",
    "quara/protocol/qtomography/standard/loss_minimization_estimator.py:LossMinimizationEstimator.calc_estimate_sequence",
    "quara/interface/cvxpy/qtomography/standard/estimator.py:CvxpyLossMinimizationEstimator.calc_estimate_sequence",
    "quara/interface/cvxpy/qtomography/standard/minimization_algorithm.py:CvxpyMinimizationAlgorithm.optimize",
    "quara/interface/cvxpy/qtomography/standard/loss_function.py:CvxpyRelativeEntropy.value_cvxpy",
    "quara/interface/cvxpy/qtomography/standard/loss_function.py:CvxpyUniformSquaredError.value_cvxpy",
    "quara/interface/cvxpy/conversion.py:generate_cvxpy_constraints_from_cvxpy_variable_with_sparsity",
    "quara/minimization_algorithm/projected_gradient_descent.py:ProjectedGradientDescent.set_constraint_from_standard_qt_and_option",
]
REQUIRED_REACH = ANCHORS
REQUIRED_ORACLES = ["estimator:returns-algorithm-value", "trace:loss-non-increasing", "trace:armijo", "trace:iterates-feasible", "trace:step-recurrence",
                    "trace:error-values-match-mode", "trace:stops-iff-criterion", "trace:direction-is-projected-gradient",
                    "pgdb:optimal:reference-solver", "pgdb:optimal:random-physical", "pgdb:optimal:feasible-direction",
                    "cvxpy:optimal:reference-solver", "cvxpy:optimal:random-physical", "agree:loss", "agree:point",
                    "cvxpy:rejects-flag-off"]
MIN_EVALS = {"quick": 3000, "thorough": 30000}
WATCHDOG = {"quick": 1500, "thorough": 3600}
ASSUMPTIONS = ["cvxpy + Clarabel solve the reference programme to ~1e-9 in the loss (cross-checked by the solver-free competitor and "
               "feasible-direction oracles)",
               "qv.refopt stacked <-> variable maps (validated against quara by C03/C05)"]

MODES = ["single_difference_loss", "sum_absolute_difference_loss", "sum_absolute_difference_variable",
         "sum_absolute_difference_projected_gradient"]
MAX_ITER = 20000
# In the projected-gradient mode the run can stall on boundary optima (alpha collapses while |y| stays above eps) and then
# always runs into the limit; such runs are grey for the optimality oracles anyway, so the limit is lower there (cost).
MAX_ITER_BY_MODE = {"sum_absolute_difference_projected_gradient": 1000}
Q_CLIP = 1e-10  # quara's documented clipping of q and p in the relative entropy

TOMOS = {"qst": "State", "povmt": "Povm", "qpt": "Gate"}


# ===================================================================== reference model


class Model:
    """affine geometry of one tomography set-up: p = A.var + b, var <-> stacked parameters <-> operators"""

    def __init__(self, t, B, d, m, flag, A, b, eps_proj):
        self.t, self.B, self.d, self.m, self.flag = t, B, d, m, bool(flag)
        self.A = np.asarray(A, dtype=np.float64)
        self.b = np.asarray(b, dtype=np.float64)
        self.eps_proj = float(eps_proj)
        self.N = refopt.n_stack(t, d, m)
        self.nv = refopt.n_var(t, d, m, self.flag)
        # var = P s  (linear: dropping the entries implied by the equality constraint, or identity)
        self.P = np.array([refopt.var_from_stack(t, d, m, e, self.flag) for e in np.eye(self.N)]).T
        self.M = self.A @ self.P  # p = M s + b
        self.G = _geometry(t, B, d, m)
        if t == "Povm":
            ops_c, self.lam_centre = [np.eye(d) / m for _ in range(m)], 1.0 / m
        elif t == "State":
            ops_c, self.lam_centre = [np.eye(d) / d], 1.0 / d
        else:
            ops_c, self.lam_centre = [np.eye(d * d) / d], 1.0 / d
        self.centre = refopt.stack_from_ops(t, B, d, m, ops_c)
        # reduced (equality built in) coordinates: s = S v + s0 ; used for uniqueness / strong convexity
        nr = refopt.n_var(t, d, m, True)
        s0 = refopt.stack_from_var(t, d, m, np.zeros(nr), True)
        S = np.array([refopt.stack_from_var(t, d, m, e, True) - s0 for e in np.eye(nr)]).T
        MS = self.M @ S
        sv = np.linalg.svd(MS, compute_uv=False)
        self.sigma_min = float(sv[-1]) if sv.size == nr else 0.0
        self.S_max = float(np.linalg.svd(S, compute_uv=False)[0])

    def stack(self, v):
        return refopt.stack_from_var(self.t, self.d, self.m, v, self.flag)

    def var(self, s):
        return refopt.var_from_stack(self.t, self.d, self.m, s, self.flag)

    def probs_s(self, s):
        return self.M @ s + self.b

    def probs_v(self, v):
        return self.A @ np.asarray(v, dtype=np.float64) + self.b

    def lam_min(self, s):
        v = self.G.T @ s
        D = self.G.D
        out = np.inf
        for i in range(self.G.k):
            Mx = v[i * D * D:(i + 1) * D * D].reshape(D, D)
            out = min(out, ref.lambda_min(Mx))
        return out

    def eq_viol(self, s):
        return float(np.max(np.abs(s - refopt.proj_eq(self.t, self.d, self.m, s))))

    def fast_viol(self, s):
        return self.eq_viol(s), max(0.0, -self.lam_min(s))

    def make_feasible(self, s):
        """an exactly physical point next to s (affine projection onto the equality set, then the smallest mixing with
        the centre of the set that restores positivity; lambda_min is concave so the bound is rigorous)"""
        s1 = refopt.proj_eq(self.t, self.d, self.m, np.array(s, dtype=np.float64))
        lam = self.lam_min(s1)
        if lam >= 0:
            return s1
        eta = min(1.0, (-lam) / (self.lam_centre - lam) * (1 + 1e-6) + 1e-15)
        return (1 - eta) * s1 + eta * self.centre

    def proj_tol(self, a_norm):
        """accuracy of quara's physical projection (see c05.tol): sigma = sqrt(eps_proj_physical)"""
        sigma = np.sqrt(self.eps_proj)
        floor = 1e-12 * (1.0 + a_norm)
        return 30 * sigma + floor, 3000 * sigma + 100 * floor


_GEO = {}


def _geometry(t, B, d, m):
    k = (t, d, m)
    if k not in _GEO:
        _GEO[k] = refopt.Geometry(t, B, d, m)
    return _GEO[k]


class RefLoss:
    """defining formulas, identity weights.
    se : sum_j sum_x (p_jx - q_jx)^2
    re : sum_j sum_{x: q_jx >= 1e-10} q_jx log(q_jx / max(p_jx, 1e-10))   (quara's documented clipping)"""

    def __init__(self, fam, q):
        self.fam = fam
        self.q = np.asarray(q, dtype=np.float64)
        self.k = self.q >= Q_CLIP

    def value_p(self, p):
        if self.fam == "se":
            r = p - self.q
            return float(r @ r)
        qk = self.q[self.k]
        return float(np.sum(qk * np.log(qk / np.maximum(p[self.k], Q_CLIP))))

    def grad_p(self, p):
        """dL/dp"""
        if self.fam == "se":
            return 2 * (p - self.q)
        g = np.zeros_like(p)
        g[self.k] = -self.q[self.k] / np.maximum(p[self.k], Q_CLIP)
        return g

    def near_clip(self, p):
        """the point touches the clipping region, where the formula stops being the convex loss"""
        if self.fam == "se":
            return False
        return bool(np.any(p[self.k] <= 1e-8))


def solve_reference(model, fam, q):
    """argmin of the loss over the physical set (stacked vector), by cvxpy + Clarabel, from the definition"""
    import cvxpy as cp

    t, d = model.t, model.d
    G = model.G
    Xs = [cp.Variable((G.D, G.D), hermitian=True) for _ in range(G.k)]
    cons = [X >> 0 for X in Xs]
    if t == "State":
        cons.append(cp.real(cp.trace(Xs[0])) == 1)
    elif t == "Povm":
        cons.append(sum(Xs) == np.eye(d))
    else:
        cons.append(cp.partial_trace(sum(Xs), [d, d], axis=0) == np.eye(d))
    vecs = cp.hstack([cp.vec(X, order="C") for X in Xs])
    s = cp.real(G.Tinv @ vecs)  # stacked parameters of the operators (isometry)
    p = model.M @ s + model.b
    if fam == "se":
        obj = cp.sum_squares(p - q)
    else:
        kk = np.where(q >= Q_CLIP)[0]
        obj = cp.sum(cp.rel_entr(q[kk], p[kk]))
    prob = cp.Problem(cp.Minimize(obj), cons)
    try:
        prob.solve(solver="CLARABEL", tol_gap_abs=1e-11, tol_gap_rel=1e-11, tol_feas=1e-11, max_iter=300)
    except Exception as e:  # noqa: BLE001 - solver failure = no reference, never a verdict
        return None, f"{type(e).__name__}"
    if prob.status not in ("optimal", "optimal_inaccurate") or any(X.value is None for X in Xs):
        return None, prob.status
    # (the returned point is only ever used as a *competitor*: it is made exactly physical and its loss is evaluated
    #  here, so an inaccurate solve can weaken the oracle but never make it unsound)
    ops = [np.asarray(X.value) for X in Xs]
    return refopt.stack_from_ops(t, model.B, d, model.m, ops), prob.status


# ===================================================================== tolerances (loss units)

# Worst optimality gap  L(estimate) - L(best competitor)  of criterion-terminated runs seen on the unchanged tree
# (seeds 0,1,2 quick + thorough seed 0; State / Povm / Gate, both flags, sampled and exact data), per
# (loss family, stopping mode, eps).  Povm with >= 3 outcomes and on_para_eq_constraint=True is excluded from the
# calibration: there the run stops at a non-optimal point (gaps 1e-4 .. 1e-1), which is what the oracle reports.
WORST = {
    ("re", "single_difference_loss", "1e-10"): 1.6e-07,
    ("re", "single_difference_loss", "default"): 1.9e-07,
    ("re", "sum_absolute_difference_loss", "1e-10"): 2.5e-07,
    ("re", "sum_absolute_difference_loss", "default"): 2.5e-07,
    ("re", "sum_absolute_difference_projected_gradient", "1e-05"): 2.2e-09,
    ("re", "sum_absolute_difference_projected_gradient", "1e-07"): 3.2e-13,
    ("re", "sum_absolute_difference_variable", "1e-05"): 1.2e-06,
    ("re", "sum_absolute_difference_variable", "1e-07"): 2.5e-07,
    ("se", "single_difference_loss", "1e-10"): 2.5e-08,
    ("se", "single_difference_loss", "default"): 1.1e-08,
    ("se", "sum_absolute_difference_loss", "1e-10"): 3.8e-08,
    ("se", "sum_absolute_difference_loss", "default"): 1.1e-08,
    ("se", "sum_absolute_difference_projected_gradient", "1e-05"): 1.0e-08,
    ("se", "sum_absolute_difference_projected_gradient", "1e-07"): 1.1e-08,
    ("se", "sum_absolute_difference_variable", "1e-05"): 3.3e-08,
    ("se", "sum_absolute_difference_variable", "1e-07"): 8.8e-09,
}
# cells with few criterion-terminated runs (or options outside the calibrated grid) get at least the family's level
WORST_FLOOR = {"se": 1e-8, "re": 5e-8}
WORST_UNKNOWN = {"se": 5e-8, "re": 1.5e-6}


def eps_label(eps):
    return "default" if eps is None or abs(eps - 1e-14) < 1e-20 else f"{eps:.0e}"


def pgdb_tol(fam, mode, eps_lab, L_start):
    """(tol_pass, tol_fail) in loss units: tol_pass = 100 x worst observed, tol_fail = 1e4 x worst observed but not above
    1e-3 L(start) (a run must at least achieve 99.9 % of the attainable reduction) -- and never below 100 x worst
    observed, so that no calibrated behaviour can raise an alarm on a flat problem; tol_pass <= tol_fail / 100."""
    w = WORST.get((fam, mode, eps_lab))
    w = WORST_UNKNOWN[fam] if w is None else max(w, WORST_FLOOR[fam])
    tf = min(1e4 * w, max(1e-3 * L_start, 100 * w))
    tp = min(100 * w, tf / 100)
    return tp, tf


SCS_TOL = (1e-6, 1e-4)  # SCS with eps = 1e-9


# ===================================================================== data set + competitors


class DataSet:
    """everything the oracles know about one estimation problem"""

    def __init__(self, model, q, n_sched, regime, truth_s=None):
        self.model, self.q, self.J, self.regime, self.truth_s = model, np.asarray(q, dtype=np.float64), n_sched, regime, truth_s
        self._comp = {}
        self._loss = {}
        self.random = None
        self.plin = "unset"
        self.solver_status = {}

    def loss(self, fam):
        if fam not in self._loss:
            self._loss[fam] = RefLoss(fam, self.q)
        return self._loss[fam]

    def L_s(self, fam, s):
        return self.loss(fam).value_p(self.model.probs_s(s))

    def L_v(self, fam, v):
        return self.loss(fam).value_p(self.model.probs_v(v))

    def competitors(self, fam, rng, plin_fn=None):
        """dict class -> list of exactly physical stacked points"""
        if fam in self._comp:
            return self._comp[fam]
        md = self.model
        if self.random is None:
            self.random = [md.make_feasible(refopt.random_physical(md.t, md.B, md.d, md.m, rng)) for _ in range(50)]
        out = {"random-physical": self.random}
        if self.truth_s is not None:
            out["truth"] = [md.make_feasible(self.truth_s)]
        if self.plin == "unset":
            self.plin = None
            if plin_fn is not None:
                v = plin_fn()
                if v is not None:
                    self.plin = md.make_feasible(md.stack(v))
        if self.plin is not None:
            out["projected-linear"] = [self.plin]
        s, status = solve_reference(md, fam, self.q)
        self.solver_status[fam] = status
        if s is not None:
            out["reference-solver"] = [md.make_feasible(s)]
        self._comp[fam] = out
        return out

    def best(self, fam):
        c = self._comp.get(fam) or {}
        vals = [self.L_s(fam, z) for zs in c.values() for z in zs]
        return min(vals) if vals else None


def judge_gap(ctx, who, key, ds, fam, v_hat, tp, tf, rng, info, plin_fn=None):
    """optimality of the estimate v_hat (variable vector): no competitor and no feasible direction does better.
    Returns the gap against the best competitor (None when nothing could be judged)."""
    md = ds.model
    L = ds.loss(fam)
    p_hat = md.probs_v(v_hat)
    names = ["truth", "projected-linear", "random-physical", "reference-solver", "feasible-direction"]
    if L.near_clip(p_hat):
        for n in names:
            ctx.skip(f"{who}:optimal:{n}")
        ctx.count("estimate-in-clipping-region")
        return None
    L_hat = L.value_p(p_hat)
    comp = ds.competitors(fam, rng, plin_fn)
    s_hat = md.stack(v_hat)
    worst_all = -np.inf
    worst_dir = -np.inf
    for n in names[:-1]:
        zs = comp.get(n)
        if not zs:
            ctx.skip(f"{who}:optimal:{n}")
            continue
        g = max(L_hat - ds.L_s(fam, z) for z in zs)
        worst_all = max(worst_all, g)
        ctx.num(f"{who}:optimal:{n}", max(g, 0.0), tp, tf, key=key, info=dict(info, competitor=n, gap=g, L_estimate=L_hat))
        # feasible directions: points on the segment from the estimate toward each competitor
        for z in zs:
            for tt in (0.5, 0.1, 1e-2, 1e-3):
                pz = md.probs_s(s_hat + tt * (z - s_hat))
                if L.near_clip(pz):
                    continue
                worst_dir = max(worst_dir, L_hat - L.value_p(pz))
    if worst_dir == -np.inf:
        ctx.skip(f"{who}:optimal:feasible-direction")
    else:
        ctx.num(f"{who}:optimal:feasible-direction", max(worst_dir, 0.0), tp, tf, key=key,
                info=dict(info, competitor="segment toward a competitor", gap=worst_dir, L_estimate=L_hat))
    return max(worst_all, worst_dir)


# ===================================================================== reading quara objects (raw data only)


def fam_of_loss(loss):
    n = type(loss).__name__
    if "SquaredError" in n:
        return "se"
    if "RelativeEntropy" in n and "Approximate" not in n:
        return "re"
    return None


def model_of_qt(qt, cache):
    k = id(qt)
    c = cache.get(k)
    if c is not None and c[0] is qt:
        return c[1]
    tn = type(qt).__name__
    t = {"StandardQst": "State", "StandardPovmt": "Povm", "StandardQpt": "Gate"}.get(tn)
    if t is None:
        return None
    obj = qt.generate_empty_estimation_obj_with_setting_info()
    c_sys = obj.composite_system
    B = gen.basis_of(c_sys)
    d = c_sys.dim
    m = len(obj.vecs) if t == "Povm" else 0
    md = Model(t, B, d, m, obj.on_para_eq_constraint, qt.calc_matA(), qt.calc_vecB(), obj.eps_proj_physical)
    if len(cache) > 8:
        cache.clear()
    cache[k] = (qt, md)
    return md


def stop_analysis(ev, eps, h, max_iter):
    """(stopped_by_criterion, windows) from the recorded error values, exactly as the option documents it"""
    K = len(ev)
    W = [float(np.sum(ev[max(0, j + 1 - h):j + 1])) for j in range(K)]
    by_crit = K > 0 and W[-1] <= eps
    return by_crit, W


# ===================================================================== trace checker


def check_trace(ctx, md, loss_obj, fam, opt, res, tag="", q=None, light=False, counting=True):
    """offline checker over the iteration history returned by ProjectedGradientDescentBacktracking.optimize.
    tag: suffix of every key (history steps); q: the data the run was made for (default: read from the loss object, which
    is right at the time optimize returns; a history held by the caller is re-checked later with the data of its own
    call); light: skip the Dykstra direction oracle and the reference-routine feasibility samples (re-reads)."""
    mode = opt.mode_stopping_criterion_gradient_descent
    eps = float(opt.eps)
    h = int(opt.num_history_stopping_criterion_gradient_descent)
    gamma = float(opt.gamma)
    max_iter = int(opt.max_iteration_optimization)
    nv = md.nv
    start = opt.var_start
    mu = float(opt.mu) if opt.mu else 3 / (2 * np.sqrt(len(start) if start is not None else nv))
    pre = f"pgdb:{md.t}:{fam}:{mode}"
    info = {"type": md.t, "flag": md.flag, "loss": type(loss_obj).__name__, "mode": mode, "eps": eps, "history": h, "gamma": gamma,
            "mu": mu, "k": res.k}
    if tag:
        info["history_step"] = tag
    xs = [np.asarray(x, dtype=np.float64) for x in res.x]
    ys = [np.asarray(y, dtype=np.float64) for y in res.y]
    fx = np.array([float(f) for f in res.fx])
    al = np.array([float(a) for a in res.alpha])
    ev = np.array([float(e) for e in res.error_values])
    K = len(ev)
    ok_len = len(xs) == len(fx) == K + 1 and len(ys) == len(al) == K and res.k == K and K >= 1
    ctx.truth("trace:lengths-and-k", ok_len, key=f"{pre}:history-lengths-inconsistent-with-k{tag}",
              info=dict(info, lens=[len(xs), len(fx), len(ys), len(al), K]))
    if not ok_len:
        return None
    if counting:
        ctx.count("pgdb-iterations", K)
    ctx.truth("trace:value-is-last-x", np.array_equal(np.asarray(res.value), xs[-1]), key=f"{pre}:returned-value-is-not-last-iterate{tag}", info=info)
    if q is None:
        q = np.concatenate([np.asarray(v, dtype=np.float64) for v in loss_obj.prob_dists_q])
    L = RefLoss(fam, q)
    ps = [md.probs_v(x) for x in xs]
    clip = np.array([L.near_clip(p) for p in ps])
    Lr = np.array([L.value_p(p) for p in ps])
    sc = 1.0 + float(np.max(np.abs(Lr)))
    # ---- recorded fx is the loss at the recorded x
    if np.all(clip):
        ctx.skip("trace:fx-is-loss-at-x")
    else:
        e = float(np.max(np.abs(fx - Lr)[~clip]))
        ctx.num("trace:fx-is-loss-at-x", e / sc, 1e-11, 1e-8, key=f"{pre}:recorded-fx-is-not-the-loss-at-recorded-x{tag}", info=info)
    # ---- the loss never increases (recorded and recomputed values)
    inc_rec = float(np.max(np.diff(fx)))
    ok2 = ~(clip[1:] | clip[:-1])
    inc_ref = float(np.max(np.diff(Lr)[ok2])) if np.any(ok2) else 0.0
    ctx.num("trace:loss-non-increasing", max(inc_rec, inc_ref, 0.0) / sc, 1e-13, 1e-10, key=f"{pre}:loss-increases-along-run{tag}",
            info=dict(info, increase_recorded=inc_rec, increase_reference=inc_ref))
    # ---- x_{k+1} = x_k + alpha_k y_k ; 0 < alpha <= 1
    rec = max(float(np.max(np.abs(xs[j + 1] - (xs[j] + al[j] * ys[j])))) for j in range(K))
    xsc = 1.0 + max(float(np.max(np.abs(x))) for x in xs)
    ctx.num("trace:step-recurrence", rec / xsc, 1e-14, 1e-10, key=f"{pre}:next-iterate-is-not-x-plus-alpha-y{tag}", info=dict(info, alpha_min=float(al.min())))
    ctx.truth("trace:alpha-in-unit-interval", bool(np.all((al > 0) & (al <= 1))), key=f"{pre}:alpha-outside-unit-interval{tag}", info=info)
    # ---- Armijo with the option's own gamma:  f(x_{k+1}) <= f(x_k) + gamma alpha <y, grad f(x_k)>
    worst_arm = -np.inf
    for j in range(K):
        if clip[j] or clip[j + 1]:
            continue
        g = md.A.T @ L.grad_p(ps[j])
        worst_arm = max(worst_arm, Lr[j + 1] - (Lr[j] + gamma * al[j] * float(ys[j] @ g)))
    if worst_arm == -np.inf:
        ctx.skip("trace:armijo")
    else:
        ctx.num("trace:armijo", max(worst_arm, 0.0) / sc, 1e-12, 1e-9, key=f"{pre}:accepted-step-violates-armijo{tag}", info=info)
    # ---- every iterate physical (promised when the start point is: convex combinations of projections)
    s0 = md.stack(xs[0])
    start_ok = max(md.fast_viol(s0)) <= 1e-9
    if not start_ok:
        ctx.skip("trace:iterates-feasible")
    else:
        idx = range(K + 1)
        an = 1.0 + float(np.linalg.norm(s0)) + float(np.linalg.norm(md.A.T @ L.grad_p(ps[0]))) / mu
        tp, tf = md.proj_tol(an)
        weq = wineq = 0.0
        for j in idx:
            e1, e2 = md.fast_viol(md.stack(xs[j]))
            weq, wineq = max(weq, e1), max(wineq, e2)
        # the reference routine itself on head / tail / stride (the fast path above uses the same geometry, vectorised)
        smp = sorted(set(list(range(min(3, K + 1))) + [K] + list(range(0, K + 1, max(1, (K + 1) // 6)))))
        for j in ([] if light else smp):
            e1, e2 = refopt.violations(md.t, md.B, md.d, md.m, md.stack(xs[j]))
            weq, wineq = max(weq, e1), max(wineq, e2)
        if md.flag:
            ctx.num("trace:iterates-feasible", weq, 1e-12, 1e-9, key=f"pgdb:{md.t}:iterate-violates-built-in-equality-constraint{tag}", info=info)
        else:
            ctx.num("trace:iterates-feasible", weq, tp, tf, key=f"pgdb:{md.t}:iterate-violates-equality-constraint{tag}", info=info)
        ctx.num("trace:iterates-feasible", wineq, tp, tf, key=f"pgdb:{md.t}:iterate-violates-inequality-constraint{tag}", info=info)
    # ---- y_k is the projected-gradient direction  P(x_k - grad f(x_k)/mu) - x_k   (sampled iterations)
    smp = [] if light else sorted(set([0, min(1, K - 1), K // 2, K - 1]))
    worst_dir = -np.inf
    tp_d = tf_d = None
    for j in smp:
        if clip[j]:
            continue
        g = md.A.T @ L.grad_p(ps[j])
        a = md.stack(xs[j] - g / mu)
        pr, its, conv = md.G.dykstra(a, tol=1e-24, max_iter=4000)
        if not conv:
            continue
        y_ref = md.var(pr) - xs[j]
        tp_d, tf_d = md.proj_tol(float(np.linalg.norm(a)))
        worst_dir = max(worst_dir, float(np.linalg.norm(ys[j] - y_ref)))
    if light:
        pass
    elif worst_dir == -np.inf:
        ctx.skip("trace:direction-is-projected-gradient")
    else:
        ctx.num("trace:direction-is-projected-gradient", worst_dir, tp_d, tf_d, key=f"pgdb:{md.t}:{fam}:direction-is-not-projected-gradient-step{tag}",
                info=info)
    # ---- error values as the selected mode documents them
    if mode == "single_difference_loss":
        want = fx[:-1] - fx[1:]
    elif mode == "sum_absolute_difference_loss":
        want = np.abs(fx[:-1] - fx[1:])
    elif mode == "sum_absolute_difference_variable":
        want = np.array([np.sqrt(np.sum((xs[j] - xs[j + 1]) ** 2)) for j in range(K)])
    else:
        want = np.array([np.sqrt(np.sum(ys[j] ** 2)) for j in range(K)])
    ctx.num("trace:error-values-match-mode", float(np.max(np.abs(ev - want))) / (sc if "loss" in mode else xsc), 1e-13, 1e-9,
            key=f"{pre}:error-values-are-not-the-selected-criterion{tag}", info=info)
    # ---- stop <=> windowed sum <= eps (or limit hit)
    by_crit, W = stop_analysis(ev, eps, h, max_iter)
    early = [j for j in range(K - 1) if W[j] <= eps]
    ctx.truth("trace:stops-iff-criterion", not early, key=f"{pre}:continues-although-criterion-met{tag}",
              info=dict(info, first_met=early[:1], window=W[early[0]] if early else None))
    limit = K >= max_iter
    ctx.truth("trace:stops-iff-criterion", by_crit or limit, key=f"{pre}:stops-although-criterion-not-met{tag}",
              info=dict(info, last_window=W[-1]))
    if limit and not by_crit and counting:
        ctx.count("limit-hit-runs")
    return {"by_criterion": bool(by_crit), "K": K, "L_start": float(Lr[0])}


# ===================================================================== workload


def rand_tester_povm(c_sys, d, rng, kind, m):
    if kind == "projective":
        u = ref.rand_unitary(d, rng)
        groups = np.array_split(np.arange(d), min(m, d))
        ms = [sum(np.outer(u[:, i], u[:, i].conj()) for i in g) for g in groups]
        return gen.make_povm(c_sys, ms)
    return gen.make_povm(c_sys, ref.rand_povm(d, m, rng, 1 if kind == "rank1" else None))


def draw_true_ops(t, d, m, rng, kind):
    if t == "State":
        r = {"interior": None, "boundary": max(1, d - 1), "pure": 1}[kind]
        return [ref.rand_density(d, rng, r)]
    if t == "Povm":
        r = {"interior": None, "boundary": max(1, -(-d // m)), "pure": 1}[kind]
        return ref.rand_povm(d, m, rng, r)
    r = {"interior": d * d, "boundary": 2, "pure": 1}[kind]
    return ref.rand_kraus(d, r, rng)


def build_problem(tomo, shape, flag, rng):
    """random informationally complete testers + true object; returns (qt, model-ingredients, truth stacked, probs)"""
    from quara.protocol.qtomography.standard.standard_povmt import StandardPovmt
    from quara.protocol.qtomography.standard.standard_qpt import StandardQpt
    from quara.protocol.qtomography.standard.standard_qst import StandardQst

    c_sys = gen.make_csys(gen.SHAPES[shape])
    B = gen.basis_of(c_sys)
    d = c_sys.dim
    t = TOMOS[tomo]
    m = 0
    for _ in range(60):
        if tomo == "qst":
            style = str(rng.choice(["many-2", "many-d", "single"]))
            if style == "single":
                povms = [rand_tester_povm(c_sys, d, rng, "rank1", d * d + int(rng.integers(0, 3)))]
            else:
                mo = 2 if style == "many-2" else d
                k = (d * d - 1) // (mo - 1) + 1 + int(rng.integers(0, 2))
                povms = [rand_tester_povm(c_sys, d, rng, str(rng.choice(["projective", "random"])), mo) for _ in range(k)]
            qt = StandardQst(povms, on_para_eq_constraint=flag)
        elif tomo == "povmt":
            m = int(rng.integers(2, 4))
            states = [gen.rand_state(c_sys, rng, rank=1 if rng.random() < 0.7 else None) for _ in range(d * d + int(rng.integers(0, 2)))]
            qt = StandardPovmt(states, m, on_para_eq_constraint=flag)
        else:
            if d == 2 and rng.random() < 0.7:
                # randomly rotated Pauli eigenstates / Pauli measurements: well conditioned
                u1, u2 = ref.rand_unitary(2, rng), ref.rand_unitary(2, rng)
                kets = [np.array([1, 0]), np.array([0, 1]), np.array([1, 1]) / np.sqrt(2), np.array([1, 1j]) / np.sqrt(2)]
                states = [gen.make_state(c_sys, np.outer(u1 @ k, (u1 @ k).conj())) for k in kets]
                paulis = [np.array([[0, 1], [1, 0]]), np.array([[0, -1j], [1j, 0]]), np.array([[1, 0], [0, -1]])]
                povms = [gen.make_povm(c_sys, [(np.eye(2) + sg * u2 @ pm @ ref.dag(u2)) / 2 for sg in (1, -1)]) for pm in paulis]
            else:
                states = [gen.rand_state(c_sys, rng, rank=1) for _ in range(d * d + 1)]
                povms = [rand_tester_povm(c_sys, d, rng, "projective", d) for _ in range(d + 2)]
            qt = StandardQpt(states, povms, on_para_eq_constraint=flag)
        A = np.asarray(qt.calc_matA(), dtype=np.float64)
        sv = np.linalg.svd(A, compute_uv=False)
        if sv.size == A.shape[1] and sv[-1] > 0.03 * sv[0]:
            break
    else:
        raise RuntimeError("could not draw informationally complete testers")
    return qt, c_sys, B, d, t, m


def loss_classes(fam, fast):
    if fam == "se":
        if fast:
            from quara.loss_function.standard_qtomography_based_weighted_probability_based_squared_error import (
                StandardQTomographyBasedWeightedProbabilityBasedSquaredError as L,
                StandardQTomographyBasedWeightedProbabilityBasedSquaredErrorOption as O)
        else:
            from quara.loss_function.weighted_probability_based_squared_error import (
                WeightedProbabilityBasedSquaredError as L, WeightedProbabilityBasedSquaredErrorOption as O)
    else:
        if fast:
            from quara.loss_function.standard_qtomography_based_weighted_relative_entropy import (
                StandardQTomographyBasedWeightedRelativeEntropy as L, StandardQTomographyBasedWeightedRelativeEntropyOption as O)
        else:
            from quara.loss_function.weighted_relative_entropy import WeightedRelativeEntropy as L, WeightedRelativeEntropyOption as O
    return L, O


EPS_BY_MODE = {
    "single_difference_loss": [None, 1e-10],
    "sum_absolute_difference_loss": [None, 1e-10],
    "sum_absolute_difference_variable": [1e-5, 1e-7],
    "sum_absolute_difference_projected_gradient": [1e-5, 1e-7],
}

N_GROUPS = {"few": [10, 100], "many": [1000, 100000], "exact": [None]}
COST = {("qst", "S1"): 1.0, ("qst", "S3"): 4.0, ("povmt", "S1"): 12.0, ("qpt", "S1"): 25.0}


def shards(tier, seed):
    out = []
    plan = {  # (cases, runs per case) per tier
        ("qst", "S1"): {"quick": (5, 4), "thorough": (40, 8)},
        ("qst", "S3"): {"quick": (3, 4), "thorough": (20, 8)},
        ("povmt", "S1"): {"quick": (3, 3), "thorough": (16, 6)},
        ("qpt", "S1"): {"quick": (2, 3), "thorough": (10, 6)},
    }
    for (tomo, shape), cost in COST.items():
        n, runs = plan[(tomo, shape)][tier]
        for flag in (True, False):
            for fam in ("se", "re"):
                for grp in ("few", "many", "exact"):
                    out.append({"tomo": tomo, "shape": shape, "flag": flag, "fam": fam, "grp": grp, "n": n, "runs": runs,
                                "weight": n * runs * cost * (1.5 if not flag else 1.0) * (1.5 if fam == "re" else 1.0)
                                * (2.0 if grp == "exact" else 1.0)})
    return out


def shape_offset(P):
    """which history step the first case of a shard takes (the cases of a shard rotate through the three steps; the offset
    spreads them over the shards, some of which have two cases only)"""
    return (["few", "many", "exact"].index(P["grp"]) + (1 if P["fam"] == "re" else 0) + (2 if P["flag"] else 0)
            + ["qst", "povmt", "qpt"].index(P["tomo"]) + (1 if P["shape"] != "S1" else 0))


def run_shard(ctx):
    P = ctx.params
    tomo, shape, flag, fam, grp = P["tomo"], P["shape"], P["flag"], P["fam"], P["grp"]
    import contextlib
    import io

    from quara.interface.cvxpy.qtomography.standard.estimator import CvxpyLossMinimizationEstimator
    from quara.interface.cvxpy.qtomography.standard.loss_function import (CvxpyLossFunctionOption, CvxpyRelativeEntropy,
                                                                         CvxpyUniformSquaredError)
    from quara.interface.cvxpy.qtomography.standard.minimization_algorithm import (CvxpyMinimizationAlgorithm,
                                                                                   CvxpyMinimizationAlgorithmOption)
    from quara.minimization_algorithm.projected_gradient_descent_backtracking import (
        ProjectedGradientDescentBacktracking, ProjectedGradientDescentBacktrackingOption)
    from quara.protocol.qtomography.standard.loss_minimization_estimator import LossMinimizationEstimator
    from quara.protocol.qtomography.standard.projected_linear_estimator import ProjectedLinearEstimator

    hs = HookSet(ctx)
    # tag: suffix of the keys of verdicts taken while the driver is in a history step; ds_cache: the data sets the driver
    # registered for the current case (second data set, sibling tomography); opt_log: what the optimize hook saw during the
    # estimator call in progress; vouch / stdout: see the history-free branch of post_est
    st = {"ds": None, "rng": None, "qt_stack": [], "models": {}, "runs": [], "cvx": [], "tag": "", "ds_cache": [],
          "opt_log": [], "vouch": None, "stdout": None, "cur_seq": None}

    def gap_key(md, tag):
        """mechanism key of the optimality verdict: object class + parametrisation (loss family and stopping mode are in
        the witness info; which of them show the defect varies with the seed).  The key of the known finding is never
        tagged: a history step must not turn it into an unlisted key."""
        tdesc = md.t if md.t != "Povm" else ("Povm(m=2)" if md.m == 2 else "Povm(m>=3)")
        key = f"pgdb:{tdesc}:on_para_eq_constraint={md.flag}:estimate-is-not-a-minimiser"
        if not (md.t == "Povm" and md.m >= 3 and md.flag):
            key += tag
        return tdesc, key

    # ---------------------------------------------------------------- hooks
    def dataset_for(qt, empi_dists):
        """the driver's data set when it is the one being estimated, otherwise one built from the call's own arguments"""
        md = model_of_qt(qt, st["models"])
        if md is None:
            return None
        q = np.concatenate([np.asarray(e[1], dtype=np.float64) for e in empi_dists])
        for ds in [st["ds"]] + st["ds_cache"]:
            if ds is not None and ds.model is md and ds.q.shape == q.shape and np.array_equal(ds.q, q):
                return ds
        ns = {int(e[0]) for e in empi_dists}
        ds2 = DataSet(md, q, len(empi_dists), "sampled", None)
        ds2.equal_counts = len(ns) == 1
        st["ds_cache"].append(ds2)
        ctx.count("data-set-built-from-call-arguments")
        return ds2

    def plin_fn_for(qt, empi_dists):
        def fn():
            try:
                r = ProjectedLinearEstimator().calc_estimate(qt, [(int(n), np.array(p, dtype=np.float64)) for n, p in empi_dists])
                return np.asarray(r.estimated_var, dtype=np.float64)
            except Exception:  # noqa: BLE001 - a competitor we cannot have
                return None
        return fn

    def pre_est(self, qtomography, *a, **kw):
        st["qt_stack"].append(qtomography)
        if len(st["qt_stack"]) == 1:
            st["opt_log"] = []
            seq = a[0] if a else kw.get("empi_dists_sequence")
            try:
                # the data of the call in progress, copied before the library sees them: the trace checker judges the
                # run for the data set the estimator was ASKED about (position = number of optimisations so far)
                st["cur_seq"] = [np.concatenate([np.array(e[1], dtype=np.float64) for e in empi]) for empi in seq]
            except Exception:  # noqa: BLE001 - malformed data: the loss object's own copy is used
                st["cur_seq"] = None
        return len(st["qt_stack"])

    def exc_est(exc, snap, *a, **kw):
        if snap is not None:
            del st["qt_stack"][snap - 1:]

    def post_optimize(result, snap, self, loss_function, loss_function_option, algorithm_option, on_iteration_history=False):
        # the array object the shard's shared algorithm object returned LAST (whichever step asked): the warm start of
        # a later run hands exactly this object back to it
        if st.get("shared_algo") is self:
            st["warm"] = getattr(result, "value", None)
        if not on_iteration_history:
            ctx.count("optimize-without-history")
            st["opt_log"].append(None)
            return
        qt = st["qt_stack"][-1] if st["qt_stack"] else getattr(self, "_qt", None)
        md = model_of_qt(qt, st["models"]) if qt is not None else None
        fam_ = fam_of_loss(loss_function)
        if md is None or fam_ is None or getattr(loss_function_option, "mode_weight", None) != "identity":
            ctx.count("optimize-outside-quantifier")
            st["opt_log"].append(None)
            return
        q_call = None
        if len(st["qt_stack"]) == 1 and st.get("cur_seq") is not None and len(st["opt_log"]) < len(st["cur_seq"]):
            q_call = st["cur_seq"][len(st["opt_log"])]
        st["opt_log"].append(check_trace(ctx, md, loss_function, fam_, algorithm_option, result, tag=st["tag"], q=q_call))

    def post_est(result, snap, self, qtomography, empi_dists_sequence, loss, loss_option, algo, algo_option,
                 is_computation_time_required=False, is_detailed_results_required=False):
        if snap is not None:
            del st["qt_stack"][snap - 1:]
        if type(algo).__name__ != "ProjectedGradientDescentBacktracking":
            ctx.count("estimate-with-other-algorithm")
            return
        fam_ = fam_of_loss(loss)
        if fam_ is None or getattr(loss_option, "mode_weight", None) != "identity":
            ctx.count("estimate-outside-quantifier")
            return
        det = result.detailed_results
        tag = st["tag"]
        log = st["opt_log"] if len(st["opt_log"]) == len(empi_dists_sequence) else None
        names = ["truth", "projected-linear", "random-physical", "reference-solver", "feasible-direction"]
        for i, empi in enumerate(empi_dists_sequence):
            ds = dataset_for(qtomography, empi)
            if ds is None:
                continue
            md = ds.model
            v_hat = np.asarray(result.estimated_var_sequence[i], dtype=np.float64)
            mode = algo_option.mode_stopping_criterion_gradient_descent
            el = eps_label(algo_option.eps)
            tdesc, key = gap_key(md, tag)
            info = {"type": md.t, "flag": md.flag, "loss": type(loss).__name__, "mode": mode, "eps": algo_option.eps,
                    "history": algo_option.num_history_stopping_criterion_gradient_descent, "regime": ds.regime}
            if tag:
                info["history_step"] = tag
            rec = {"fam": fam_, "mode": mode, "eps": el, "v": v_hat, "v0": np.array(v_hat, copy=True), "ds": ds, "judged": False,
                   "gap": None, "ok": False, "loss_name": type(loss).__name__, "tag": tag, "by_crit": False, "k": None, "key": key,
                   "info": info}
            st["runs"].append(rec)
            d_i = det[i] if det is not None else None
            if d_i is not None:
                # wiring: the estimate handed back is the algorithm's result
                ctx.truth("estimator:returns-algorithm-value", np.array_equal(v_hat, np.asarray(d_i.value, dtype=np.float64)),
                          key="LossMinimizationEstimator:estimated-var-is-not-the-algorithm-result" + tag, info=info)
            lg = log[i] if log is not None else None
            if d_i is not None and d_i.error_values is not None:
                by_crit, _ = stop_analysis(np.array([float(e) for e in d_i.error_values]), float(algo_option.eps),
                                           int(algo_option.num_history_stopping_criterion_gradient_descent),
                                           int(algo_option.max_iteration_optimization))
                k_run = d_i.k
                L_start = ds.L_v(fam_, np.asarray(d_i.x[0], dtype=np.float64))
            elif lg is not None:
                # the iteration history was produced (and checked by the optimize hook) but not handed to the caller
                by_crit, k_run, L_start = lg["by_criterion"], lg["K"], lg["L_start"]
                ctx.count("estimates-judged-from-the-optimize-hook")
            else:
                # no iteration history at all (the default path of the estimator).  Whether the run ended by its criterion
                # cannot be read from the result; the verdict is taken only when the driver vouches that the very same
                # configuration (same tomography, data and option values) ended by its criterion within half of the
                # iteration limit a moment ago, and the library printed no "exceeds the limit" warning during this call
                vouch = st["vouch"]
                warned = st["stdout"] is not None and "exceeds the limit" in st["stdout"].getvalue()
                if vouch is None or warned or vouch["ds"] is not ds:
                    for n in names:
                        ctx.skip(f"pgdb:optimal:{n}")
                    ctx.count("estimate-without-history")
                    continue
                by_crit, k_run, L_start = True, None, vouch["L_start"]
                ctx.count("estimates-judged-without-history")
                # (with a history the trace checker sees every iterate; here the estimate itself must be physical)
                L = ds.loss(fam_)
                p_hat = md.probs_v(v_hat)
                mu_ = float(algo_option.mu) if algo_option.mu else 3 / (2 * np.sqrt(md.nv))
                s_hat = md.stack(v_hat)
                an = 1.0 + float(np.linalg.norm(s_hat)) + (0.0 if L.near_clip(p_hat) else float(np.linalg.norm(md.A.T @ L.grad_p(p_hat))) / mu_)
                tpf, tff = md.proj_tol(an)
                e1, e2 = refopt.violations(md.t, md.B, md.d, md.m, s_hat)
                if md.flag:
                    ctx.num("pgdb:estimate-feasible", e1, 1e-12, 1e-9, key=f"pgdb:{md.t}:estimate-violates-built-in-equality-constraint{tag}", info=info)
                else:
                    ctx.num("pgdb:estimate-feasible", e1, tpf, tff, key=f"pgdb:{md.t}:estimate-violates-equality-constraint{tag}", info=info)
                ctx.num("pgdb:estimate-feasible", e2, tpf, tff, key=f"pgdb:{md.t}:estimate-violates-inequality-constraint{tag}", info=info)
            info["k"] = k_run
            rec.update(by_crit=bool(by_crit), k=k_run)
            if not by_crit:
                # cut off by the iteration limit: nothing is promised about optimality (grey), the trace was still checked
                for n in names:
                    ctx.skip(f"pgdb:optimal:{n}")
                ctx.count("estimates-not-stopped-by-criterion")
                continue
            tp, tf = pgdb_tol(fam_, mode, el, L_start)
            gap = judge_gap(ctx, "pgdb", key, ds, fam_, v_hat, tp, tf, st["rng"], dict(info, L_start=L_start),
                            plin_fn_for(qtomography, empi))
            rec.update(judged=gap is not None, gap=gap, ok=(gap is not None and gap < tf), tp=tp, tf=tf, L_start=L_start)
            if gap is not None:
                cell = f"{tdesc}|{md.flag}|{fam_}|{mode}|{el}|{ds.regime}"
                g = ctx.extra.setdefault("gaps", {})
                g[cell] = max(g.get(cell, -1.0), gap)
                b = ds.best(fam_)
                if b is not None and L_start - b > 1e-6:
                    ctx.nontrivial(md.t, md.flag, ds.q, fam_, type(loss).__name__, mode, el, info["history"],
                                   float(algo_option.gamma), algo_option.mu, algo_option.var_start, tag)

    def post_cvx(result, snap, self, qtomography, empi_dists_sequence, loss, loss_option, algo, algo_option,
                 is_computation_time_required=False):
        fam_ = fam_of_loss(loss)
        if fam_ is None or algo_option.name_solver != "scs" or algo_option.mode_constraint != "physical":
            ctx.count("cvxpy-estimate-outside-quantifier")
            return
        scale = max(1.0, float(algo_option.eps_tol) / 1e-9)
        tp, tf = SCS_TOL[0] * scale, SCS_TOL[1] * scale
        tag = st["tag"]
        for i, empi in enumerate(empi_dists_sequence):
            ds = dataset_for(qtomography, empi)
            if ds is None:
                continue
            md = ds.model
            v_hat = np.asarray(result.estimated_var_sequence[i], dtype=np.float64)
            lname = type(loss).__name__
            key = f"cvxpy-scs:{md.t}:{fam_}:estimate-is-not-a-minimiser{tag}"
            info = {"type": md.t, "flag": md.flag, "loss": lname, "eps_tol": algo_option.eps_tol, "regime": ds.regime}
            if tag:
                info["history_step"] = tag
            L_start = ds.L_s(fam_, md.centre)
            gap = judge_gap(ctx, "cvxpy", key, ds, fam_, v_hat, tp, tf, st["rng"], info, plin_fn_for(qtomography, empi))
            e1, e2 = refopt.violations(md.t, md.B, md.d, md.m, md.stack(v_hat))
            ctx.num("cvxpy:estimate-feasible", max(e1, e2), tp, tf, key=f"cvxpy-scs:{md.t}:{fam_}:estimate-not-physical{tag}", info=dict(info, eq=e1, ineq=e2))
            # reported loss = the cvxpy loss (schedule weights N_j/N) at the returned point
            rep = result.estimated_loss_sequence[i] if result.estimated_loss_sequence else None
            if rep is not None and getattr(ds, "equal_counts", True) and gap is not None:
                ctx.num("cvxpy:reported-loss", abs(float(rep) - ds.L_v(fam_, v_hat) / ds.J), tp, tf,
                        key=f"cvxpy-scs:{md.t}:{fam_}:reported-loss-is-not-the-loss-at-the-estimate{tag}", info=info)
            st["cvx"].append({"fam": fam_, "v": v_hat, "v0": np.array(v_hat, copy=True), "ds": ds, "gap": gap,
                              "ok": gap is not None and gap < tf, "tag": tag, "tp": tp, "tf": tf, "key": key, "info": info,
                              "rep": None if rep is None else float(rep)})
            if gap is not None:
                g = ctx.extra.setdefault("gaps", {})
                cell = f"cvx|{md.t}|{fam_}|{ds.regime}"
                g[cell] = max(g.get(cell, -1.0), gap)
                b = ds.best(fam_)
                if b is not None and L_start - b > 1e-6:
                    ctx.nontrivial("cvx", md.t, ds.q, fam_, lname, tag)

    hs.method(ProjectedGradientDescentBacktracking, "optimize", post=post_optimize)
    hs.method(LossMinimizationEstimator, "calc_estimate_sequence", pre=pre_est, post=post_est, on_exc=exc_est)
    hs.method(CvxpyLossMinimizationEstimator, "calc_estimate_sequence", post=post_cvx)

    # ---------------------------------------------------------------- driver
    # objects kept for the whole shard: on two cases of three the estimates are made with these RE-USED estimator / loss /
    # algorithm objects (each case has another tomography of the same shape and other data), on the others with fresh
    # ones; the oracles are the same - a minimiser is a minimiser whatever the objects did before
    shared = {}

    def obj(reuse, name, factory):
        if not reuse:
            return factory()
        if name not in shared:
            shared[name] = factory()
        else:
            ctx.count("re-used:" + name.split(":")[0])
        return shared[name]

    def copy_emp(empd):
        return [(n, np.array(p, dtype=np.float64)) for n, p in empd]

    def sample_data(md_, J_, truth_s_, N_, rng_):
        """empirical distributions for the model's tomography, exactly as the base workload makes them"""
        pj_ = np.clip(md_.probs_s(truth_s_).reshape(J_, -1), 0.0, None)
        if N_ is None:
            qs_ = [r / r.sum() for r in pj_]
            qs_ = [np.where(r < 1e-9, 0.0, r) for r in qs_]
            qs_ = [r / r.sum() for r in qs_]
            n_rec_ = 100000
        else:
            qs_ = [rng_.multinomial(N_, r / r.sum()) / N_ for r in pj_]
            n_rec_ = N_
        return [(n_rec_, np.array(r, dtype=np.float64)) for r in qs_]

    def register(md_, empd, regime, truth_s_):
        """a data set the driver is about to hand to the library: the hooks find it by its values"""
        q_ = np.concatenate([np.asarray(p, dtype=np.float64) for _, p in empd])
        for d_ in [st["ds"]] + st["ds_cache"]:
            if d_ is not None and d_.model is md_ and d_.q.shape == q_.shape and np.array_equal(d_.q, q_):
                return d_
        d_ = DataSet(md_, q_, len(empd), regime, truth_s_)
        d_.equal_counts = len({int(n) for n, _ in empd}) == 1
        st["ds_cache"].append(d_)
        return d_

    def shape_sig(qt_):
        return (type(qt_).__name__, bool(qt_.on_para_eq_constraint), int(qt_.num_schedules), int(qt_.num_variables),
                tuple(int(qt_.num_outcomes(j)) for j in range(qt_.num_schedules)))

    def pgdb_call(h, qt_, seqs, tag, timed=True, detailed=True, single=True):
        """one more estimate with the loss / loss option / algorithm / estimator objects of the held run h"""
        st["tag"] = tag
        n0 = len(st["runs"])
        try:
            fn = h["est"].calc_estimate if single else h["est"].calc_estimate_sequence
            ok, res = ctx.attempt(fn, qt_, seqs, h["loss"], h["lopt"], h["algo"], h.get("opt_now", h["opt"]),
                                  is_computation_time_required=timed, is_detailed_results_required=detailed)
        finally:
            st["tag"] = ""
        if not ok:
            # (exception keys are never tagged: one of them names a known finding)
            ctx.violation(f"pgdb:{fam}:" + ctx.exc_key(res),
                          {"type": TOMOS[tomo], "flag": flag, "loss": type(h["loss"]).__name__, "mode": h["mode"], "history_step": tag,
                           "message": str(res)[:200]})
            return None, []
        ctx.count("pgdb-estimates" + tag)
        return res, st["runs"][n0:]

    try:
        for i in ctx.cases(P["n"]):
            rng = ctx.rng()
            hrng = ctx.rng(1)  # all draws of the history steps: the base workload of a case is what it was without them
            reuse = (i % 3 != 0)
            st["rng"] = rng
            st["runs"], st["cvx"], st["ds_cache"], st["tag"], st["vouch"], st["stdout"] = [], [], [], "", None, None
            st["models"].clear()  # (never mid-case: the data sets of a case are recognised by their model object)
            qt, c_sys, B, d, t, m = build_problem(tomo, shape, flag, rng)
            # few shots + boundary truths make the positivity constraints active (that is where constraint bugs show)
            kind = str(rng.choice(["interior", "boundary", "pure"], p=[0.2, 0.3, 0.5] if grp == "few" else [0.34, 0.33, 0.33]))
            ops = draw_true_ops(t, d, m, rng, kind)
            truth_s = refopt.stack_from_ops(t, B, d, m, ops if t != "Gate" else [ref.choi_of_map(ref.kraus_map(ops), d)])
            md = model_of_qt(qt, st["models"])
            p_true = md.probs_s(truth_s)
            J = qt.num_schedules
            pj = np.clip(p_true.reshape(J, -1), 0.0, None)
            N = N_GROUPS[grp][int(rng.integers(0, len(N_GROUPS[grp])))]
            if N is None:
                qs = [r / r.sum() for r in pj]
                # keep exact data away from quara's clipping thresholds (1e-10 / 1e-12)
                qs = [np.where(r < 1e-9, 0.0, r) for r in qs]
                qs = [r / r.sum() for r in qs]
                n_rec = 100000
            else:
                qs = [rng.multinomial(N, r / r.sum()) / N for r in pj]
                n_rec = N
            emp = [(n_rec, np.array(r, dtype=np.float64)) for r in qs]
            q = np.concatenate(qs)
            ds = DataSet(md, q, J, "exact" if N is None else "sampled", truth_s)
            ds.equal_counts = True
            st["ds"] = ds
            if i < 1:
                ctx.sample({"tomography": tomo, "shape": shape, "flag": flag, "loss_family": fam, "true_kind": kind, "shots": N,
                            "schedules": J, "n_var": md.nv, "data_head": q[:6], "sigma_min_A": md.sigma_min})

            def fresh(empd=emp):
                return [(n, np.array(p, dtype=np.float64)) for n, p in empd]

            # ---- backtracking runs: fresh loss / option / algorithm / estimator objects each time
            combos = [(fast, mode) for fast in (False, True) for mode in MODES]
            # rotate so that across cases every (variant, mode) is visited
            picks = [combos[(i * P["runs"] + j) % len(combos)] for j in range(P["runs"])]
            held = []
            for (fast, mode) in picks:
                Lc, Oc = loss_classes(fam, fast)
                eps = EPS_BY_MODE[mode][int(rng.integers(0, 2))]
                h = int(rng.choice([1, 1, 2, 3, 5]))
                gamma = float(rng.choice([0.3, 0.3, 0.1, 0.5]))
                r_mu = rng.random()
                mu = None if r_mu < 0.7 else float(3 / (2 * np.sqrt(md.nv)) * rng.choice([0.5, 2.0]))
                start = None
                if not fast and rng.random() < 0.3:
                    # (the fast losses never set num_var, so quara rejects an explicit start point with them: ValueError)
                    start = md.var(md.make_feasible(refopt.random_physical(t, B, d, m, rng)))
                st["shared_algo"] = shared.get("pgdb")
                warm = st.get("warm")
                if (not fast and reuse and start is None and warm is not None and np.shape(warm) == (md.nv,)
                        and np.all(np.isfinite(warm)) and rng.random() < 0.6):
                    # warm start: the very array object the shared algorithm object returned last (other data then)
                    start = warm
                    ctx.count("pgdb:warm-start-from-the-array-returned-last")
                kw = dict(mode_stopping_criterion_gradient_descent=mode, num_history_stopping_criterion_gradient_descent=h,
                          max_iteration_optimization=MAX_ITER_BY_MODE.get(mode, MAX_ITER), gamma=gamma, mu=mu, var_start=start)
                if eps is not None:
                    kw["eps"] = eps
                ok, opt = ctx.attempt(ProjectedGradientDescentBacktrackingOption, **kw)
                if not ok:
                    ctx.violation(f"pgdb:option:{mode}:" + ctx.exc_key(opt), {"kw": {k: v for k, v in kw.items() if k != 'var_start'}})
                    continue
                hd = {"est": obj(reuse, "estimator", LossMinimizationEstimator), "loss": obj(reuse, f"loss:{Lc.__name__}", Lc),
                      "lopt": Oc("identity"), "algo": obj(reuse, "pgdb", ProjectedGradientDescentBacktracking), "opt": opt, "kw": kw,
                      "fast": fast, "mode": mode, "start": start, "qt": qt}
                n0 = len(st["runs"])
                ok, res = ctx.attempt(hd["est"].calc_estimate, qt, fresh(), hd["loss"], hd["lopt"], hd["algo"], opt,
                                      is_computation_time_required=True, is_detailed_results_required=True)
                if not ok:
                    # (one key per loss family and raising site: the stopping mode / type do not matter to an exception)
                    ctx.violation(f"pgdb:{fam}:" + ctx.exc_key(res),
                                  {"type": t, "flag": flag, "loss": Lc.__name__, "mode": mode, "eps": eps, "gamma": gamma, "mu": mu,
                                   "random_start": start is not None, "shots": N, "message": str(res)[:200]})
                    continue
                ctx.count("pgdb-estimates")
                st["shared_algo"] = shared.get("pgdb")
                if len(st["runs"]) == n0 + 1:
                    hd.update(res=res, rec=st["runs"][-1])
                    held.append(hd)
            # ---- CVXPY-backed estimator (SCS); supports only the parametrisation with the equality constraint built in
            Lcv = CvxpyUniformSquaredError if fam == "se" else CvxpyRelativeEntropy
            cvo = {"est": obj(reuse, "cvx-estimator", CvxpyLossMinimizationEstimator), "loss": obj(reuse, f"cvx-loss:{Lcv.__name__}", Lcv),
                   "lopt": CvxpyLossFunctionOption(), "algo": obj(reuse, "cvx-algo", CvxpyMinimizationAlgorithm),
                   "opt": CvxpyMinimizationAlgorithmOption(name_solver="scs", eps_tol=1e-9, mode_constraint="physical")}

            def cvx_call(qt_, data, tag, single=True, expect_ok=True, t_=t):
                """one estimate with the case's CVXPY objects; returns (result or None, the records the hook made)"""
                st["tag"] = tag
                n0 = len(st["cvx"])
                try:
                    fn = cvo["est"].calc_estimate if single else cvo["est"].calc_estimate_sequence
                    ok, res = ctx.attempt(fn, qt_, data, cvo["loss"], cvo["lopt"], cvo["algo"], cvo["opt"])
                finally:
                    st["tag"] = ""
                if expect_ok:
                    if not ok:
                        ctx.violation(f"cvxpy-scs:{fam}:" + ctx.exc_key(res) + tag,
                                      {"type": t_, "flag": bool(qt_.on_para_eq_constraint), "shots": N, "message": str(res)[:200], "history_step": tag})
                        return None, []
                    ctx.count("cvxpy-estimates" + tag)
                    return res, st["cvx"][n0:]
                ctx.truth("cvxpy:rejects-flag-off", (not ok) and isinstance(res, ValueError),
                          key=(f"cvxpy-scs:{t_}:accepts-on_para_eq_constraint-off" if ok else f"cvxpy-scs:{t_}:rejects-flag-off-with-{type(res).__name__}") + tag,
                          info={"flag": False, "history_step": tag})
                return None, []

            cv_res, cv_recs = cvx_call(qt, fresh(), "", expect_ok=flag)
            held_cvx = [(cv_res, r) for r in cv_recs[:1]] if cv_res is not None else []

            # =========================================================== history / combination steps
            # The property speaks about every estimate the two estimators return, whatever the objects did before.  Each
            # step below makes further estimates with objects that have a past (only through the public calc_estimate /
            # calc_estimate_sequence, which document that they re-set the loss and the algorithm); the hooks judge them with
            # the oracles and tolerances of the first calls.  Verdict keys carry the name of the step.
            step = (i + shape_offset(P)) % 3
            # ---- a second data set for the case's tomography (same truth): library-sampled through the public
            #      generate_from_var / generate_empi_dists in half of the cases, drawn here otherwise
            N_b = [n for n in N_GROUPS[grp] if n != N][0] if len(N_GROUPS[grp]) > 1 else int(hrng.choice([100, 1000]))
            emp_b = None
            if hrng.random() < 0.5:
                try:
                    with hs.paused():
                        true_obj = qt.generate_empty_estimation_obj_with_setting_info().generate_from_var(md.var(truth_s))
                        qt.reset_seed(int(hrng.integers(0, 2**31 - 1)))
                        qt.calc_prob_dists(true_obj)
                        lib = qt.generate_empi_dists(true_obj, int(N_b), int(hrng.integers(0, 2**31 - 1)))
                    cand = [(int(n), np.array(p_, dtype=np.float64)) for n, p_ in lib]
                    if len(cand) == J and all(np.all(np.isfinite(p_)) and abs(p_.sum() - 1) < 1e-9 and p_.min() >= 0 for _, p_ in cand):
                        emp_b = cand
                        ctx.count("second-data-set:library-sampled")
                except Exception:  # noqa: BLE001 - sampling is not this property's business (C14); fall back to own draws
                    ctx.count("second-data-set:library-sampling-raised")
            if emp_b is None:
                emp_b = sample_data(md, J, truth_s, int(N_b), hrng)
            ds_b = register(md, emp_b, "sampled", truth_s)
            # ---- a sibling tomography: same type, in half of the cases the same shape (a twin: other testers, same sizes),
            #      otherwise another shape / outcome number / parametrisation flag
            want_twin = hrng.random() < 0.5
            flag2 = flag if (want_twin or hrng.random() < 0.6) else (not flag)
            sib = None
            for _ in range(12):
                cand = build_problem(tomo, shape, flag2, hrng)
                if (shape_sig(cand[0]) == shape_sig(qt)) == want_twin:
                    sib = cand
                    break
                sib = sib or cand
            qt2, _, B2, d2, t2, m2 = sib
            twin = shape_sig(qt2) == shape_sig(qt)
            md2 = model_of_qt(qt2, st["models"])
            kind2 = str(hrng.choice(["interior", "boundary", "pure"]))
            ops2 = draw_true_ops(t2, d2, m2, hrng, kind2)
            truth2_s = refopt.stack_from_ops(t2, B2, d2, m2, ops2 if t2 != "Gate" else [ref.choi_of_map(ref.kraus_map(ops2), d2)])
            emp2 = sample_data(md2, int(qt2.num_schedules), truth2_s, N, hrng)
            register(md2, emp2, "exact" if N is None else "sampled", truth2_s)
            sib_tag = ":twin-tomography" if twin else ":sibling-tomography"
            after_tag = ":after-twin-tomography" if twin else ":after-sibling-tomography"

            # ---- backtracking: the configuration that ended by its criterion in the fewest iterations is used again
            cands = [hd for hd in held if hd["rec"]["by_crit"] and hd["rec"]["k"] is not None]
            pick = min(cands, key=lambda hd: hd["rec"]["k"]) if cands else None
            extra_held = []
            if pick is None:
                ctx.count("history:no-criterion-stopped-run-to-repeat")
            elif step == 0:
                # (a) second call: the very same estimator / loss / loss option / algorithm / option objects and the same
                #     data once more, after whatever the other runs of the case did to them - through the estimator's
                #     DEFAULT path (no computation time, no detailed results => optimize(on_iteration_history=False)),
                #     or with one of the two flags only
                variant = [(False, False), (False, False), (False, False), (False, True), (True, False)][int(hrng.integers(0, 5))]
                max_it = int(pick["opt"].max_iteration_optimization)
                if pick["rec"]["judged"] and pick["rec"]["ok"] and pick["rec"]["k"] <= max_it // 2:
                    st["vouch"] = {"ds": ds, "L_start": pick["rec"]["L_start"]}
                buf = io.StringIO()
                st["stdout"] = buf
                try:
                    with contextlib.redirect_stdout(buf):
                        res2, recs2 = pgdb_call(pick, qt, fresh(), ":second-call", timed=variant[0], detailed=variant[1])
                finally:
                    st["vouch"], st["stdout"] = None, None
                if res2 is not None and recs2:
                    extra_held.append(dict(pick, res=res2, rec=recs2[0]))
            elif step == 1:
                # (c) calc_estimate_sequence with two data sets (the case's and the second one, random order) and the same
                #     objects: the estimator re-sets loss and algorithm per data set; every position is judged for its own data
                order = [emp_b, emp] if hrng.random() < 0.5 else [emp, emp_b]
                res2, recs2 = pgdb_call(pick, qt, [copy_emp(e) for e in order], ":dataset-sequence", single=False)
                if res2 is not None and len(recs2) == 2:
                    extra_held.append(dict(pick, res=res2, rec=recs2[0], pos=0))
                    extra_held.append(dict(pick, res=res2, rec=recs2[1], pos=1))
            else:
                # (c) the same objects serve the sibling tomography (no explicit start point there: it has the case's size),
                #     then the case's tomography and data again
                sib_h = dict(pick)
                if pick["start"] is not None:
                    ok, o2 = ctx.attempt(ProjectedGradientDescentBacktrackingOption, **dict(pick["kw"], var_start=None))
                    sib_h["opt_now"] = o2 if ok else None
                if sib_h.get("opt_now", sib_h["opt"]) is not None:
                    pgdb_call(sib_h, qt2, copy_emp(emp2), sib_tag)
                res2, recs2 = pgdb_call(pick, qt, fresh(), after_tag)
                if res2 is not None and recs2:
                    extra_held.append(dict(pick, res=res2, rec=recs2[0]))

            # ---- CVXPY-backed estimator, same objects: sibling tomography (accepted / rejected by ITS flag), then the
            #      case's tomography with a sequence of two data sets (or the rejection again)
            if flag2:
                cvx_call(qt2, copy_emp(emp2), sib_tag, t_=t2)
            else:
                cvx_call(qt2, copy_emp(emp2), sib_tag, expect_ok=False, t_=t2)
            if flag:
                order = [emp_b, emp] if hrng.random() < 0.5 else [emp, emp_b]
                res3, recs3 = cvx_call(qt, [copy_emp(e) for e in order], after_tag + ":dataset-sequence", single=False)
                if res3 is not None and len(recs3) == 2:
                    held_cvx += [(res3, recs3[0], 0), (res3, recs3[1], 1)]
            else:
                cvx_call(qt, fresh(), after_tag, expect_ok=False)

            # ---- (c) the two estimators agree (same data, equal counts per schedule; the estimates as they were returned)
            for cv in st["cvx"]:
                for run in st["runs"]:
                    if run["ds"] is not cv["ds"] or run["fam"] != cv["fam"]:
                        continue
                    if not (run["judged"] and run["ok"] and cv["ok"]):
                        # limit-hit / undecidable runs, or a run already reported as non-optimal: no second report
                        ctx.skip("agree:loss")
                        ctx.skip("agree:point")
                        continue
                    dsx = run["ds"]
                    mdx = dsx.model
                    htag = run["tag"] or cv["tag"]  # (one step name per key: the backtracking side's if it has one)
                    Lp, Lv = dsx.L_v(fam, run["v0"]), dsx.L_v(fam, cv["v0"])
                    tp = run["tp"] + cv["tp"]
                    tf = max(run["tf"] + cv["tf"], 100 * tp)
                    info = {"type": mdx.t, "loss": run["loss_name"], "mode": run["mode"], "eps": run["eps"], "L_pgdb": Lp, "L_cvxpy": Lv}
                    if htag:
                        info["history_step"] = htag
                    ctx.num("agree:loss", abs(Lp - Lv), tp, tf, key=f"pgdb-vs-cvxpy-scs:{mdx.t}:{fam}:{run['mode']}:losses-differ{htag}", info=info)
                    if fam == "se" and mdx.sigma_min > 1e-3:
                        # strictly convex: L(x) - L* >= sigma_min^2 |s - s*|^2 on the equality set => the minimiser is unique
                        dist = float(np.linalg.norm(mdx.stack(run["v0"]) - mdx.stack(cv["v0"])))
                        pp = 2 * np.sqrt(tp) * mdx.S_max / mdx.sigma_min
                        ctx.num("agree:point", dist, pp, max(100 * pp, 2 * np.sqrt(tf) * mdx.S_max / mdx.sigma_min),
                                key=f"pgdb-vs-cvxpy-scs:{mdx.t}:{fam}:{run['mode']}:points-differ{htag}", info=dict(info, sigma_min=mdx.sigma_min))
                    else:
                        ctx.skip("agree:point")

            # ---- (a) the results the caller still holds are read again after everything else: the estimate is the one
            #      that was returned (three-zone, not bitwise), it is still a minimiser for ITS data, and the iteration
            #      history still passes the trace checker
            rtag = ":result-re-read"
            for hd in held + extra_held:
                rec, res_h, pos = hd["rec"], hd["res"], hd.get("pos", 0)
                ok, v_now = ctx.attempt(lambda r=res_h, p_=pos: np.asarray(r.estimated_var_sequence[p_], dtype=np.float64))
                if not ok:
                    ctx.violation("LossMinimizationEstimationResult:" + ctx.exc_key(v_now) + rtag, {"type": t})
                    continue
                dsx = rec["ds"]
                mdx = dsx.model
                same = v_now.shape == rec["v0"].shape
                err = float(np.max(np.abs(v_now - rec["v0"]))) / (1.0 + float(np.max(np.abs(rec["v0"])))) if same else np.inf
                ctx.num("reread:estimate-unchanged", err, 1e-12, 1e-9, key="LossMinimizationEstimator:pgdb:estimate-held-by-caller-changed" + rtag,
                                  info=dict(rec["info"], first_step=rec["tag"]))
                if same and rec["judged"] and rec["ok"]:
                    _, key2 = gap_key(mdx, rec["tag"] + rtag)
                    judge_gap(ctx, "pgdb", key2, dsx, rec["fam"], v_now, rec["tp"], rec["tf"], rng, dict(rec["info"], history_step=rec["tag"] + rtag))
                det = res_h.detailed_results
                d_i = det[pos] if det is not None and len(det) > pos else None
                if d_i is not None and d_i.error_values is not None:
                    st["tag"] = rtag
                    try:
                        check_trace(ctx, mdx, hd["loss"], rec["fam"], hd.get("opt_now", hd["opt"]), d_i, tag=rec["tag"] + rtag, q=dsx.q,
                                    light=hd is not pick, counting=False)
                    finally:
                        st["tag"] = ""
            for item in held_cvx:
                res_h, rec = item[0], item[1]
                pos = item[2] if len(item) > 2 else 0
                ok, v_now = ctx.attempt(lambda r=res_h, p_=pos: np.asarray(r.estimated_var_sequence[p_], dtype=np.float64))
                if not ok:
                    ctx.violation("CvxpyLossMinimizationEstimationResult:" + ctx.exc_key(v_now) + rtag, {"type": t})
                    continue
                dsx = rec["ds"]
                same = v_now.shape == rec["v0"].shape
                err = float(np.max(np.abs(v_now - rec["v0"]))) / (1.0 + float(np.max(np.abs(rec["v0"])))) if same else np.inf
                ctx.num("reread:estimate-unchanged", err, 1e-12, 1e-9, key="CvxpyLossMinimizationEstimator:estimate-held-by-caller-changed" + rtag,
                                  info=dict(rec["info"], first_step=rec["tag"]))
                if same and rec["ok"]:
                    judge_gap(ctx, "cvxpy", rec["key"] + rtag, dsx, rec["fam"], v_now, rec["tp"], rec["tf"], rng,
                              dict(rec["info"], history_step=rec["tag"] + rtag))
                    rep = res_h.estimated_loss_sequence[pos] if res_h.estimated_loss_sequence else None
                    if rep is not None and rec["rep"] is not None and getattr(dsx, "equal_counts", True):
                        ctx.num("cvxpy:reported-loss", abs(float(rep) - dsx.L_v(rec["fam"], v_now) / dsx.J), rec["tp"], rec["tf"],
                                key=f"cvxpy-scs:{dsx.model.t}:{rec['fam']}:reported-loss-is-not-the-loss-at-the-estimate{rec['tag']}{rtag}",
                                info=rec["info"])
            st["ds"] = None
    finally:
        hs.uninstall()
    ctx.extra["hook_counts"] = hs.counts
    need = ["ProjectedGradientDescentBacktracking.optimize", "LossMinimizationEstimator.calc_estimate_sequence"]
    if flag:
        need.append("CvxpyLossMinimizationEstimator.calc_estimate_sequence")
    hs.require(need)


def finalize(merged, ctx):
    """aggregate the observed optimality gaps per cell (calibration record; written only on request)"""
    agg = {}
    for e in merged["extra"]:
        for cell, g in (e["extra"].get("gaps") or {}).items():
            agg[cell] = max(agg.get(cell, -1.0), g)
    path = os.environ.get("QV_C11_CALIB")
    if path:
        with open(path, "w") as f:
            json.dump(agg, f, indent=1, sort_keys=True)
