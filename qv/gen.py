"""Workload generators: build quara objects from operators produced by the
reference model.  (This module drives quara; it is not an oracle.)"""
import numpy as np

from qv import ref

SHAPES = {"S1": [2], "S3": [3], "S2": [2, 2], "S23": [2, 3], "S32": [3, 2], "S33": [3, 3], "S222": [2, 2, 2]}


def q():
    """lazy import of the quara names the generators need"""
    import types

    from quara.objects import gate as gate_mod
    from quara.objects import matrix_basis as mb
    from quara.objects import mprocess as mprocess_mod
    from quara.objects import povm as povm_mod
    from quara.objects import state as state_mod
    from quara.objects.composite_system import CompositeSystem
    from quara.objects.elemental_system import ElementalSystem
    from quara.objects.gate import Gate
    from quara.objects.mprocess import MProcess
    from quara.objects.povm import Povm
    from quara.objects.state import State

    return types.SimpleNamespace(**locals())


# ------------------------------------------------------------------- bases


def local_basis(dim, kind="std"):
    """MatrixBasis for one subsystem.
    std      normalised Pauli (d=2) / normalised Gell-Mann (d=3)
    nherm    quara's normalised Hermitian basis
    nggm     normalised generalised Gell-Mann
    unnorm   unnormalised Pauli / Gell-Mann              (not orthonormal)
    rot      Hermitian orthonormal, identity NOT first (rotated std basis)
    comp     computational basis (not Hermitian)
    """
    Q = q()
    mb = Q.mb
    if kind == "std":
        return mb.get_normalized_pauli_basis() if dim == 2 else mb.get_normalized_gell_mann_basis()
    if kind == "nherm":
        return mb.get_normalized_hermitian_basis(dim)
    if kind == "nggm":
        return mb.get_normalized_generalized_gell_mann_basis(dim=dim) if dim != 2 else mb.get_normalized_generalized_gell_mann_basis(n_qubit=1, dim=2)
    if kind == "unnorm":
        return mb.get_pauli_basis() if dim == 2 else mb.get_gell_mann_basis()
    if kind == "rot":
        std = [ref.dense(b) for b in local_basis(dim, "std")]
        n = len(std)
        # fixed real orthogonal mixing of elements 0 and 1 and a cyclic shift
        c, s = np.cos(0.7), np.sin(0.7)
        new = list(std)
        new[0] = c * std[0] + s * std[1]
        new[1] = -s * std[0] + c * std[1]
        new = new[1:] + new[:1]
        return mb.MatrixBasis(new)
    if kind == "comp":
        return mb.get_comp_basis(dim)
    raise ValueError(kind)


def make_csys(dims, names=None, kind="std"):
    Q = q()
    names = list(range(len(dims))) if names is None else list(names)
    es = [Q.ElementalSystem(n, local_basis(d, kind)) for n, d in zip(names, dims)]
    return Q.CompositeSystem(es)


def basis_of(c_sys):
    return ref.basis_list(c_sys.basis())


# ----------------------------------------------------------------- objects


def real_coeffs(B, M):
    c = ref.coeffs(B, M)
    return np.ascontiguousarray(c.real.astype(np.float64))


def make_state(c_sys, rho, **kw):
    Q = q()
    kw.setdefault("is_physicality_required", False)
    return Q.State(c_sys, real_coeffs(basis_of(c_sys), rho), **kw)


def make_povm(c_sys, mats, **kw):
    Q = q()
    kw.setdefault("is_physicality_required", False)
    B = basis_of(c_sys)
    return Q.Povm(c_sys, [real_coeffs(B, m) for m in mats], **kw)


def hs_real(B, fn):
    hs = ref.hs_of_map(B, fn)
    return np.ascontiguousarray(hs.real.astype(np.float64))


def make_gate(c_sys, kraus=None, fn=None, hs=None, **kw):
    Q = q()
    kw.setdefault("is_physicality_required", False)
    if hs is None:
        B = basis_of(c_sys)
        hs = hs_real(B, fn if fn is not None else ref.kraus_map(kraus))
    return Q.Gate(c_sys, np.ascontiguousarray(hs, dtype=np.float64), **kw)


def make_mprocess(c_sys, kraus_sets=None, hss=None, **kw):
    Q = q()
    kw.setdefault("is_physicality_required", False)
    if hss is None:
        B = basis_of(c_sys)
        hss = [hs_real(B, ref.kraus_map(ks)) for ks in kraus_sets]
    return Q.MProcess(c_sys, [np.ascontiguousarray(h, dtype=np.float64) for h in hss], **kw)


# ---------------------------------------------------- random physical objects


def rand_state(c_sys, rng, rank=None, **kw):
    return make_state(c_sys, ref.rand_density(c_sys.dim, rng, rank), **kw)


def rand_povm(c_sys, m, rng, rank=None, **kw):
    return make_povm(c_sys, ref.rand_povm(c_sys.dim, m, rng, rank), **kw)


def rand_gate(c_sys, rng, r=2, **kw):
    return make_gate(c_sys, kraus=ref.rand_kraus(c_sys.dim, r, rng), **kw)


def rand_mprocess(c_sys, m, rng, ranks=None, **kw):
    return make_mprocess(c_sys, kraus_sets=ref.rand_instrument(c_sys.dim, m, rng, ranks), **kw)


def boundary_state(c_sys, rng, kind):
    d = c_sys.dim
    if kind == "pure":
        return ref.rand_density(d, rng, 1)
    if kind == "rankdef":
        return ref.rand_density(d, rng, max(1, d - 1))
    if kind == "mixed":
        return np.eye(d) / d
    raise ValueError(kind)


def type_of(obj):
    return type(obj).__name__


def stacked(obj):
    return np.asarray(obj.to_stacked_vector(), dtype=np.float64)


def raw_params(obj):
    """raw parameter arrays of a quara object (read through public attributes)"""
    t = type_of(obj)
    if t == "State":
        return obj.vec
    if t == "Povm":
        return list(obj.vecs)
    if t == "Gate" or t == "EffectiveLindbladian":
        return obj.hs
    if t == "MProcess":
        return list(obj.hss)
    raise TypeError(t)


def ref_violations(obj):
    """reference eq/ineq violation sizes of a quara object, from raw data"""
    B = basis_of(obj.composite_system)
    t = type_of(obj)
    if t == "State":
        return ref.state_violations(B, obj.vec)
    if t == "Povm":
        return ref.povm_violations(B, obj.vecs)
    if t == "Gate":
        return ref.gate_violations(B, obj.hs)
    if t == "MProcess":
        return ref.mprocess_violations(B, obj.hss)
    raise TypeError(t)
