"""History-type mutations used to prove the teeth of the C20 history steps.

usage: python c20_mutations.py <worktree> <id>      (apply ONE mutation to a scratch worktree of /repo)
       git -C <worktree> checkout -- .              (undo)
Files are edited with newline='' and the file's own line ending.
"""
import sys

X = "quara/qcircuit/experiment.py"
QST = "quara/protocol/qtomography/standard/standard_qst.py"
QPT = "quara/protocol/qtomography/standard/standard_qpt.py"

MUT = {
    # stale cache after setter: counts cached by the public accessor num_qoperations, used by validation, never invalidated
    "M1": [(X, '''        if mode == "state":
            return len(self.states)
        elif mode == "povm":
            return len(self.povms)
        elif mode == "gate":
            return len(self.gates)
        elif mode == "mprocess":
            return len(self.mprocesses)
        else:
            raise ValueError(f"An unsupported mode is specified. mode={mode}")
''', '''        cache = self.__dict__.setdefault("_num_cache", {})
        if mode not in cache:
            cache[mode] = len(self.qoperations(mode))
        return cache[mode]
'''), (X, '''        if not (0 <= item_index < len(objdict[item_name])):
''', '''        limit = self.__dict__.get("_num_cache", {}).get(item_name, len(objdict[item_name]))
        if not (0 <= item_index < limit):
''')],
    # cache keyed by too little: the "all" expansion of StandardQpt remembered per number of states only
    "M2": [(QPT, '''        if schedules == "all":
            schedules = []
            for i, j in product(range(len(states)), range(len(povms))):
                schedules.append([("state", i), ("gate", 0), ("povm", j)])
''', '''        if schedules == "all":
            if len(states) not in _ALL_SCHEDULES:
                _ALL_SCHEDULES[len(states)] = [
                    [("state", i), ("gate", 0), ("povm", j)]
                    for i, j in product(range(len(states)), range(len(povms)))
                ]
            schedules = [list(s) for s in _ALL_SCHEDULES[len(states)]]
'''), (QPT, '''class StandardQpt(StandardQTomography):
''', '''_ALL_SCHEDULES = {}


class StandardQpt(StandardQTomography):
''')],
    # combination: non-default option x custom schedules: with on_para_eq_constraint the coefficients follow list order
    "M3": [(QST, '''            povm_index = schedule[-1][1]
            povm = self._experiment.povms[povm_index]
''', '''            povm_index = schedule_index if on_para_eq_constraint else schedule[-1][1]
            povm = self._experiment.povms[povm_index % len(self._experiment.povms)]
''')],
    # "already computed" result left by calc_prob_dists (hence by every generate_* method), dropped by the schedules
    # setter but not by the list setters
    "M4": [(X, '''        self._validate_schedule_index(schedule_index)
        schedule = self.schedules[schedule_index]
        key_map = dict(
''', '''        self._validate_schedule_index(schedule_index)
        done = self.__dict__.get("_prob_dists_done")
        if done is not None and schedule_index < len(done):
            return done[schedule_index]
        schedule = self.schedules[schedule_index]
        key_map = dict(
'''), (X, '''            r = self.calc_prob_dist(i)
            prob_dists.append(r)
        return prob_dists
''', '''            r = self.calc_prob_dist(i)
            prob_dists.append(r)
        self._prob_dists_done = prob_dists
        return prob_dists
'''), (X, '''        self._validate_schedules(value)
        self._schedules = value
''', '''        self._validate_schedules(value)
        self._prob_dists_done = None
        self._schedules = value
''')],
    # member dropped by copy(): the measurement-process list is not handed to the copy
    "M5": [(X, '''            povms=povms,
            mprocesses=mprocesses,
            schedules=schedules,
        )
        return experiment
''', '''            povms=povms,
            schedules=schedules,
        )
        return experiment
''')],
    # class-level memo keyed by (index, schedule) only - cleared by every setter of any experiment - so a second
    # experiment with the same schedule and other objects gets the first one's distribution
    "M6": [(X, '''        self._validate_schedule_index(schedule_index)
        schedule = self.schedules[schedule_index]
        key_map = dict(
''', '''        self._validate_schedule_index(schedule_index)
        schedule = self.schedules[schedule_index]
        memo_key = (schedule_index, tuple(schedule))
        for item in schedule:
            if not self.qoperations(item[0])[item[1]]:
                memo_key = None
        if memo_key in Experiment._MEMO:
            return Experiment._MEMO[memo_key]
        key_map = dict(
'''), (X, '''        prob_dist = op.compose_qoperations(*targets)
        return prob_dist.ps
''', '''        prob_dist = op.compose_qoperations(*targets)
        Experiment._MEMO[memo_key] = prob_dist.ps
        return prob_dist.ps
'''), (X, '''    def _validate_type(self, targets, expected_type) -> None:
''', '''    _MEMO = {}

    def _validate_type(self, targets, expected_type) -> None:
        Experiment._MEMO.clear()
''')],
    # derived table updated by a list setter BEFORE validation and not rolled back when the setter rejects
    "M7": [(X, """        self._validate_type(value, Povm)
        objdict = dict(
""", """        self._validate_type(value, Povm)
        self._sizes["povm"] = len(value)
        objdict = dict(
"""), (X, """        # Validate
        self._validate_schedules(schedules)
        # Set
""", """        # Validate
        self._sizes = dict(state=len(states), povm=len(povms), gate=len(gates), mprocess=len(mprocesses))
        self._validate_schedules(schedules)
        # Set
"""), (X, """        if not (0 <= item_index < len(objdict[item_name])):
""", """        limit = len(objdict[item_name])
        if item_name == "povm" and objdict["povm"] is self._povms:
            limit = self._sizes["povm"]
        if not (0 <= item_index < limit):
""")],
}


def main():
    root, mid = sys.argv[1], sys.argv[2]
    for rel, old, new in MUT[mid]:
        path = f"{root}/{rel}"
        with open(path, newline="") as f:
            text = f.read()
        nl = "\r\n" if "\r\n" in text else "\n"
        old_, new_ = old.replace("\n", nl), new.replace("\n", nl)
        assert text.count(old_) == 1, (mid, rel, text.count(old_), old[:60])
        with open(path, "w", newline="") as f:
            f.write(text.replace(old_, new_))
    print("applied", mid)


if __name__ == "__main__":
    main()
