import numpy as np
from quara.objects.composite_system_typical import generate_composite_system
from quara.objects.mprocess_typical import generate_mprocess_from_name
from quara.objects.mprocess import MProcess
from quara.objects.state_typical import generate_state_from_name
from quara.objects.gate_typical import generate_gate_from_gate_name
from quara.objects.operators import compose_qoperations
c = generate_composite_system("qubit", 1)
z = generate_mprocess_from_name(c, "z-type1")
m = MProcess(c, z.hss, eps_zero=1e-6)
print("eps_zero of the object / of its copy():", m.eps_zero, m.copy().eps_zero)
print("eps_zero after generate_from_var(to_var()):", m.generate_from_var(m.to_var()).eps_zero)
ens = compose_qoperations(m, generate_state_from_name(c, "a"))
print("ensemble eps_zero:", ens.eps_zero, " after a gate:", compose_qoperations(generate_gate_from_gate_name("x", c), ens).eps_zero)
