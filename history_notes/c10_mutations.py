"""apply one named history-type mutation to the scratch worktree /tmp/hist_c10 (CRLF preserved)"""
import sys

ROOT = "/tmp/hist_c10/"


def edit(path, old, new, count=1):
    with open(ROOT + path, newline="") as f:
        s = f.read()
    nl = "\r\n" if "\r\n" in s else "\n"
    old = old.replace("\n", nl)
    new = new.replace("\n", nl)
    assert s.count(old) == count, (path, s.count(old), old)
    s = s.replace(old, new)
    with open(ROOT + path, "w", newline="") as f:
        f.write(s)


PGD = "quara/minimization_algorithm/projected_gradient_descent.py"
PGDB = "quara/minimization_algorithm/projected_gradient_descent_backtracking.py"
FISTA = "quara/minimization_algorithm/projected_fast_iterative_shrinkage_thresholding_algorithm.py"
FSE = "quara/loss_function/standard_qtomography_based_weighted_probability_based_squared_error.py"
PBL = "quara/loss_function/probability_based_loss_function.py"
LIN = "quara/protocol/qtomography/standard/linear_estimator.py"
PLE = "quara/protocol/qtomography/standard/projected_linear_estimator.py"
LME = "quara/protocol/qtomography/standard/loss_minimization_estimator.py"
QOP = "quara/objects/qoperation.py"


def m1():
    """state left on a re-used algorithm object: the projection derived on the first call is kept (revert of cf50e5b)"""
    edit(PGD, "        if self._is_func_proj_specified:\n            return\n", "        if self._func_proj is not None:\n            return\n")


def m2():
    """fast squared-error loss caches the model coefficients of its first tomography (same shape => kept)"""
    edit(FSE, "        self._matA = np.copy(qt.calc_matA())\n        self._vecB = np.copy(qt.calc_vecB())\n",
         "        if getattr(self, \"_matA\", None) is None or self._matA.shape != qt.calc_matA().shape:\n"
         "            self._matA = np.copy(qt.calc_matA())\n            self._vecB = np.copy(qt.calc_vecB())\n")
    edit(FSE, "        self._matA = np.copy(qt.calc_matA())\n        self._calc_extend_weight_matrix()\n\n        self._on_func_gradient_prob_dists = True",
         "        if getattr(self, \"_matA\", None) is None or self._matA.shape != qt.calc_matA().shape:\n"
         "            self._matA = np.copy(qt.calc_matA())\n        self._calc_extend_weight_matrix()\n\n        self._on_func_gradient_prob_dists = True")


def m2b():
    """generic losses: the probability functions are built once per loss object (number of schedules unchanged => kept)"""
    edit(PBL, "        self._num_var = qt.num_variables\n",
         "        self._num_var = qt.num_variables\n"
         "        if self._func_prob_dists is not None and len(self._func_prob_dists) == qt.num_schedules:\n"
         "            return\n")


def m3():
    """linear estimator memoises the pseudo-inverse per estimator object, keyed by the shape of A"""
    edit(LIN, "        A_ddag = np.linalg.inv(A.T @ A) @ A.T\n",
         "        memo = getattr(self, \"_memo_ddag\", None)\n"
         "        if memo is None or memo[0] != A.shape:\n"
         "            memo = (A.shape, np.linalg.inv(A.T @ A) @ A.T, b)\n"
         "            self._memo_ddag = memo\n"
         "        A_ddag, b = memo[1], memo[2]\n")


def m4():
    """module-level cache of the variable-level projection closures keyed by class, flag, order, iteration limit"""
    edit(PGD, "            self._func_proj = setting_info.func_calc_proj_physical_with_var(\n"
              "                on_para_eq_constraint=setting_info.on_para_eq_constraint,\n"
              "                mode_proj_order=option.mode_proj_order,\n"
              "                max_iteration=option.max_iteration_proj_physical,\n"
              "            )\n",
         "            key = (type(setting_info), setting_info.on_para_eq_constraint, option.mode_proj_order, option.max_iteration_proj_physical)\n"
         "            if key not in _PROJ_CACHE:\n"
         "                _PROJ_CACHE[key] = setting_info.func_calc_proj_physical_with_var(\n"
         "                    on_para_eq_constraint=setting_info.on_para_eq_constraint,\n"
         "                    mode_proj_order=option.mode_proj_order,\n"
         "                    max_iteration=option.max_iteration_proj_physical,\n"
         "                )\n"
         "            self._func_proj = _PROJ_CACHE[key]\n")
    edit(PGD, "class ProjectedGradientDescentResult(MinimizationResult):", "_PROJ_CACHE = {}\n\n\nclass ProjectedGradientDescentResult(MinimizationResult):")


def m5():
    """backtracking returns its work buffer (kept on the algorithm object and overwritten by the next optimisation)"""
    edit(PGDB, "        if on_iteration_history:\n            computation_time = time.time() - start_time\n            result = ProjectedGradientDescentBacktrackingResult(\n                x_next,",
         "        buf = getattr(self, \"_x_buf\", None)\n"
         "        if buf is None or buf.shape != x_next.shape:\n"
         "            buf = self._x_buf = np.empty_like(x_next)\n"
         "        buf[:] = x_next\n"
         "        x_next = buf\n"
         "        if on_iteration_history:\n            computation_time = time.time() - start_time\n            result = ProjectedGradientDescentBacktrackingResult(\n                x_next,")


def m6():
    """projected linear estimator: 'already computed for this tomography' early exit that ignores the data"""
    edit(PLE, "        result = super().calc_estimate_sequence(\n            qtomography, empi_dists_sequence, is_computation_time_required\n        )\n",
         "        done = getattr(self, \"_done\", None)\n"
         "        if done is not None and done[0] is qtomography and done[1] == len(empi_dists_sequence):\n"
         "            return done[2]\n"
         "        result = super().calc_estimate_sequence(\n            qtomography, empi_dists_sequence, is_computation_time_required\n        )\n")
    edit(PLE, "            qtomography._template_qoperation,\n        )\n        return result",
         "            qtomography._template_qoperation,\n        )\n        self._done = (qtomography, len(empi_dists_sequence), result)\n        return result")


def m7():
    """FISTA without iteration history (the default path) hands back the point before the projection"""
    edit(FISTA, "            result = ProjectedFastIterativeShrinkageThresholdingAlgorithmResult(x_next)",
         "            result = ProjectedFastIterativeShrinkageThresholdingAlgorithmResult(tmp)")


def m8():
    """loss minimisation estimator skips re-setting the loss when it is handed the loss object of its previous call
    with data of the same length ('already prepared')"""
    edit(LME, "            # set loss settings\n            loss.set_from_standard_qtomography_option_data(\n",
         "            # set loss settings\n"
         "            if getattr(self, \"_prepared\", None) == (id(loss), id(qtomography)):\n"
         "                pass\n"
         "            else:\n"
         "              self._prepared = (id(loss), id(qtomography))\n"
         "              loss.set_from_standard_qtomography_option_data(\n")
    # re-indent the argument lines of the call
    edit(LME, "                qtomography,\n                loss_option,\n                empi_dists,\n                algo.is_gradient_required,\n                algo.is_hessian_required,\n            )\n",
         "                  qtomography,\n                  loss_option,\n                  empi_dists,\n                  algo.is_gradient_required,\n                  algo.is_hessian_required,\n              )\n")


def m9():
    """the object-level physical projection remembers the projection order of the first object of its class
    (option honoured on the first call only)"""
    edit(QOP, "        self._validate_mode_proj_order(mode_proj_order)\n        self._mode_proj_order = mode_proj_order\n",
         "        self._validate_mode_proj_order(mode_proj_order)\n"
         "        self._mode_proj_order = _FIRST_ORDER.setdefault(type(self), mode_proj_order)\n")
    edit(QOP, "class QOperation:", "_FIRST_ORDER = {}\n\n\nclass QOperation:")


if __name__ == "__main__":
    globals()[sys.argv[1]]()
    print("applied", sys.argv[1])
