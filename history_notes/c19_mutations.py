"""History-type mutations used to prove the teeth of C19's history steps.
usage:  python3 c19_mutations.py <worktree> <id>      (then `git -C <worktree> checkout -- .` to undo)
Files may have CRLF line endings: they are read/written with newline='' and the replacement uses the file's newline."""
import sys

SQ = "quara/protocol/qtomography/standard/standard_qtomography.py"
PV = "quara/protocol/qtomography/standard/standard_povmt.py"
MU = "quara/utils/matrix_util.py"


def patch(root, rel, old, new):
    p = f"{root}/{rel}"
    s = open(p, newline="").read()
    nl = "\r\n" if "\r\n" in s else "\n"
    old, new = old.replace("\n", nl), new.replace("\n", nl)
    assert s.count(old) == 1, (rel, s.count(old), old[:60])
    open(p, "w", newline="").write(s.replace(old, new))


M = {}

# M1  per-tomography memo of the true distribution keyed by the schedule only (the true object is forgotten)
M["M1"] = [(SQ, """        prob_dist = self.calc_prob_dist(qope, schedule_index)
        val = matrix_util.calc_covariance_mat(prob_dist, data_num)
        return val
""", """        cache = self.__dict__.setdefault("_prob_dist_memo", {})
        if schedule_index not in cache:
            cache[schedule_index] = self.calc_prob_dist(qope, schedule_index)
        prob_dist = cache[schedule_index]
        val = matrix_util.calc_covariance_mat(prob_dist, data_num)
        return val
""")]

# M2  Fisher matrix memoised per (schedule, id(var))
M["M2"] = [(SQ, """        if isinstance(var, QOperation):
            var = var.to_var()

        matA = self.calc_matA()
""", """        memo = self.__dict__.setdefault("_fisher_memo", {})
        memo_key = (j, id(var))
        if memo_key in memo:
            return memo[memo_key].copy()
        if isinstance(var, QOperation):
            var = var.to_var()

        matA = self.calc_matA()
"""), (SQ, """        fisher_matrix = matrix_util.calc_fisher_matrix(prob_dist, grad_prob_dist)

        return fisher_matrix
""", """        fisher_matrix = matrix_util.calc_fisher_matrix(prob_dist, grad_prob_dist)
        memo[memo_key] = fisher_matrix.copy()

        return fisher_matrix
""")]

# M3  calc_direct_sum writes into a module-level buffer that is re-used for every request of the same size
M["M3"] = [(MU, """    matrix = np.zeros((matrix_size, matrix_size))
    index = 0
    for diag in matrices:
        size = diag.shape[0]
        matrix[index : index + size, index : index + size] = diag
        index += size

    return matrix


def calc_conjugate(""", """    matrix = _DIRECT_SUM_BUFFERS.get(matrix_size)
    if matrix is None:
        matrix = _DIRECT_SUM_BUFFERS[matrix_size] = np.zeros((matrix_size, matrix_size))
    matrix[:] = 0.0
    index = 0
    for diag in matrices:
        size = diag.shape[0]
        matrix[index : index + size, index : index + size] = diag
        index += size

    return matrix


_DIRECT_SUM_BUFFERS = {}


def calc_conjugate(""")]

# M4  pickling a tomography restores the default parametrisation flag
M["M4"] = [(SQ, """    def get_coeffs_0th(self, schedule_index: int, x: int) -> np.float64:
""", """    def __getstate__(self):
        state = dict(self.__dict__)
        state.pop("_on_para_eq_constraint", None)
        return state

    def __setstate__(self, state):
        self.__dict__.update(state)
        self._on_para_eq_constraint = True

    def get_coeffs_0th(self, schedule_index: int, x: int) -> np.float64:
""")]

# M5  total Fisher matrix remembered per weight list (the variables are forgotten)
M["M5"] = [(SQ, """        fisher_matrices = []
        for schedule_index in range(self.num_schedules):
            fisher_matrices.append(
                weights[schedule_index] * self.calc_fisher_matrix(schedule_index, var)
            )
        return sum(fisher_matrices)
""", """        memo = self.__dict__.setdefault("_fisher_total_memo", {})
        memo_key = tuple(float(w) for w in weights)
        if memo_key in memo:
            return memo[memo_key].copy()
        fisher_matrices = []
        for schedule_index in range(self.num_schedules):
            fisher_matrices.append(
                weights[schedule_index] * self.calc_fisher_matrix(schedule_index, var)
            )
        memo[memo_key] = sum(fisher_matrices)
        return memo[memo_key].copy()
""")]

# M6  blocks of the total covariance are laid out in sorted-schedule order (identity for schedules="all")
M["M6"] = [(SQ, """        matrices = []
        for schedule_index in range(self.num_schedules):
            mat_single = self.calc_covariance_mat_single(
                qope, schedule_index, data_num_list[schedule_index]
            )
            matrices.append(mat_single)
""", """        matrices = []
        order = sorted(
            range(self.num_schedules), key=lambda k: self._experiment.schedules[k]
        )
        for schedule_index in order:
            mat_single = self.calc_covariance_mat_single(
                qope, schedule_index, data_num_list[schedule_index]
            )
            matrices.append(mat_single)
""")]

# M7  the Cramer-Rao bound normalises the caller's list of sample sizes in place
M["M7"] = [(SQ, """        weights = [tmp_N / N for tmp_N in list_N]
        fisher = self.calc_fisher_matrix_total(var, weights)
        val = np.trace(np.linalg.inv(fisher)) / N
        return val
""", """        weights = [tmp_N / N for tmp_N in list_N]
        fisher = self.calc_fisher_matrix_total(var, weights)
        val = np.trace(np.linalg.inv(fisher)) / N
        if isinstance(list_N, list):
            list_N[:] = weights
        return val
""")]

# M8  the MSE of the empirical distributions rescales the parameters of the true object in place (through the array
#     that to_stacked_vector hands out)
M["M8"] = [(SQ, """        mse_total = 0.0
        for schedule_index, data_num in enumerate(data_num_list):
""", """        stacked = qope.to_stacked_vector()
        if isinstance(stacked, np.ndarray) and stacked.flags.writeable:
            stacked[1:] *= 0.98
        mse_total = 0.0
        for schedule_index, data_num in enumerate(data_num_list):
""")]

# M9  left inverse cached on the tomography, and the object-space correction of StandardPovmt scales the cached
#     covariance in place ... (aliasing of an internal array by a later method)
M["M9"] = [(SQ, """        A_inv = matrix_util.calc_left_inv(self.calc_matA())
        val = matrix_util.calc_conjugate(
            A_inv, self.calc_covariance_mat_total(qope, data_num_list)
        )
        return val
""", """        if "_A_inv" not in self.__dict__:
            self._A_inv = matrix_util.calc_left_inv(self.calc_matA())
        A_inv = self._A_inv
        val = matrix_util.calc_conjugate(
            A_inv, self.calc_covariance_mat_total(qope, data_num_list)
        )
        return val
"""), (SQ, """    def __init__(
        self,
        experiment: Experiment,
        set_qoperations: SetQOperations,
    ):
""", """    def __getstate__(self):
        state = dict(self.__dict__)
        if "_A_inv" in state:
            state["_A_inv"] = state["_A_inv"][:, ::-1]
        return state

    def __init__(
        self,
        experiment: Experiment,
        set_qoperations: SetQOperations,
    ):
""")]

# M10 matS of StandardPovmt memoised at class level (first tomography's number of outcomes wins)
M["M10"] = [(PV, """    def _generate_matS(self):
        STATE_ITEM_INDEX = 0
""", """    _matS_memo = {}

    def _generate_matS(self):
        key = self._experiment.states[0].vec.shape[0]
        if key not in StandardPovmt._matS_memo:
            StandardPovmt._matS_memo[key] = self._generate_matS_uncached()
        return StandardPovmt._matS_memo[key]

    def _generate_matS_uncached(self):
        STATE_ITEM_INDEX = 0
""")]

# M15 module-level memo of the per-schedule covariance keyed by (class, parameters of the true object, schedule, size):
#     the tomography itself is not part of the key
M["M15"] = [(SQ, """        prob_dist = self.calc_prob_dist(qope, schedule_index)
        val = matrix_util.calc_covariance_mat(prob_dist, data_num)
        return val
""", """        memo_key = (
            type(self).__name__,
            qope.to_stacked_vector().tobytes(),
            schedule_index,
            data_num,
        )
        if memo_key not in _COV_SINGLE_MEMO:
            prob_dist = self.calc_prob_dist(qope, schedule_index)
            _COV_SINGLE_MEMO[memo_key] = matrix_util.calc_covariance_mat(
                prob_dist, data_num
            )
        return _COV_SINGLE_MEMO[memo_key].copy()
"""), (SQ, """class StandardQTomography(QTomography):
""", """_COV_SINGLE_MEMO = {}


class StandardQTomography(QTomography):
""")]

# M18 the distributions of a true object are remembered ON the true object (whichever tomography asked first)
M["M18"] = [(SQ, """        if self._on_para_eq_constraint:
            tmp_prob_dists = self.calc_matA() @ qope.to_var() + self.calc_vecB()
""", """        remembered = qope.__dict__.get("_prob_dists_of_true_object")
        if remembered is not None:
            return remembered
        if self._on_para_eq_constraint:
            tmp_prob_dists = self.calc_matA() @ qope.to_var() + self.calc_vecB()
"""), (SQ, """                start += size

        return prob_dists
""", """                start += size

        qope.__dict__["_prob_dists_of_true_object"] = prob_dists
        return prob_dists
""")]

if __name__ == "__main__":
    root, mid = sys.argv[1], sys.argv[2]
    for rel, old, new in M[mid]:
        patch(root, rel, old, new)
    print("applied", mid)
