"""History-type mutations used to prove the history steps of C16 (apply ONE to the scratch worktree /tmp/hist_c16).
usage: python3 c16_mutations.py <name> [root]      then   git -C /tmp/hist_c16 checkout -- .
"""
import sys

ROOT = sys.argv[2] if len(sys.argv) > 2 else "/tmp/hist_c16"


def edit(rel, pairs):
    p = f"{ROOT}/{rel}"
    s = open(p, newline="").read()
    nl = "\r\n" if "\r\n" in s else "\n"
    for old, new in pairs:
        old, new = old.replace("\n", nl), new.replace("\n", nl)
        assert s.count(old) == 1, (rel, old, s.count(old))
        s = s.replace(old, new)
    open(p, "w", newline="").write(s)


MD = "quara/objects/multinomial_distribution.py"
OP = "quara/objects/operators.py"
MP = "quara/objects/mprocess.py"
IU = "quara/utils/index_util.py"
SE = "quara/objects/state_ensemble.py"


def m1():
    """marginalize: nothing to sum when all variables are retained -> hands its own array to the new distribution
    (aliasing; the child's constructor then zeroes sub-1e-8 entries of the PARENT in place)"""
    edit(MD, [("""        # marginalize by np.sum
""", """        if len(axis) == 0:
            return MultinomialDistribution(self.ps, self.shape)
        # marginalize by np.sum
""")])


def m2():
    """conditionalize writes the new probabilities into a module-level scratch buffer per size; the returned
    distribution aliases it (overwritten by the next conditional of the same size)"""
    edit(MD, [("""class MultinomialDistribution:
""", """_SCRATCH = {}


class MultinomialDistribution:
"""), ("""        new_ps = new_ps.flatten() / np.sum(new_ps)
""", """        new_ps = new_ps.flatten() / np.sum(new_ps)
        buf = _SCRATCH.setdefault(len(new_ps), np.empty(len(new_ps)))
        buf[:] = new_ps
        new_ps = buf
""")])


def m3():
    """MProcess o State memoises (Mx_rho, p_x) on the MProcess object, keyed by the length of the state vector"""
    edit(OP, [("""    states = []
    ps = []
    Mx_rhos = []
    truncate = False
    if elem1.composite_system.is_orthonormal_hermitian_0thprop_identity:
""", """    states = []
    ps = []
    Mx_rhos = []
    truncate = False
    memo = elem1.__dict__.setdefault("_memo_apply", {})
    if (len(elem2.vec), weight) in memo:
        Mx_rhos, ps, truncate = memo[(len(elem2.vec), weight)]
        Mx_rhos, ps = list(Mx_rhos), list(ps)
    elif elem1.composite_system.is_orthonormal_hermitian_0thprop_identity:
"""), ("""    # normalize prob dist
    ps_before_normalization = list(ps)
""", """    memo[(len(elem2.vec), weight)] = (list(Mx_rhos), list(ps), truncate)
    # normalize prob dist
    ps_before_normalization = list(ps)
""")])


def m4():
    """set_mode_sampling(False) leaves the random stream; composition samples whenever a stream exists"""
    edit(MP, [("""        else:
            self._random_seed_or_generator = None
            self._random_state = None
""", """        else:
            self._random_seed_or_generator = None
""")])
    edit(OP, [("""    states, ps = _compose_qoperations_MProcess_State_for_States(elem1, elem2)

    if elem1.mode_sampling:
""", """    states, ps = _compose_qoperations_MProcess_State_for_States(elem1, elem2)

    if getattr(elem1, "_random_state", None) is not None:
""")])


def m5():
    """index_serial_from_index_multi_dimensional caches the strides per id() of the sizes object"""
    edit(IU, [("""def index_serial_from_index_multi_dimensional(
""", """_STRIDES = {}


def index_serial_from_index_multi_dimensional(
"""), ("""    serial_index = 0
    temp_len = 1
    for length, local_index in reversed(
        list(zip(nums_length, index_multi_dimensional))
    ):
        serial_index += local_index * temp_len
        temp_len = temp_len * length
    return serial_index
""", """    strides = _STRIDES.get(id(nums_length))
    if strides is None or len(strides) != len(nums_length):
        strides = []
        temp_len = 1
        for length in reversed(list(nums_length)):
            strides.append(temp_len)
            temp_len = temp_len * length
        strides = list(reversed(strides))
        if type(nums_length) == list:
            _STRIDES[id(nums_length)] = strides
    serial_index = 0
    for stride, local_index in zip(strides, index_multi_dimensional):
        serial_index += local_index * stride
    return serial_index
""")])


def m6():
    """conditionalize memoises the normalised slice in a module-level dict keyed by (shape, indices, values) - not by the data"""
    edit(MD, [("""class MultinomialDistribution:
""", """_COND = {}


class MultinomialDistribution:
"""), ("""        ### calc new ps
        # to extract specific columns from old ps, calculate ixgrid of numpy.
""", """        key = (tuple(self.shape), tuple(conditional_variable_indices), tuple(conditional_variable_values))
        if key in _COND:
            return MultinomialDistribution(_COND[key][0].copy(), _COND[key][1])
        ### calc new ps
        # to extract specific columns from old ps, calculate ixgrid of numpy.
"""), ("""        new_dist = MultinomialDistribution(new_ps, new_shape)
        return new_dist
""", """        new_dist = MultinomialDistribution(new_ps, new_shape)
        _COND[key] = (new_dist.ps.copy(), new_shape)
        return new_dist
""")])


def m8():
    """Gate o StateEnsemble overwrites the operand's list of states in place and returns an ensemble sharing it"""
    edit(OP, [("""        new_states = []
        for state in elem2.states:
            new_state = compose_qoperations(elem1, state)
            new_states.append(new_state)
        return StateEnsemble(new_states, elem2.prob_dist)
""", """        new_states = elem2.states
        for k, state in enumerate(list(new_states)):
            new_states[k] = compose_qoperations(elem1, state)
        return StateEnsemble(new_states, elem2.prob_dist)
""")])


def m9():
    """StateEnsemble.state memoises outcome -> serial index in a class-level dict keyed by the outcome and the NUMBER of
    variables (not by the shape)"""
    edit(SE, [("""        if type(outcome) == tuple:
            shape = self.prob_dist.shape
            serial_index = index_serial_from_index_multi_dimensional(
                nums_length=list(shape), index_multi_dimensional=outcome
            )
""", """        if type(outcome) == tuple:
            shape = self.prob_dist.shape
            memo = StateEnsemble.__dict__.get("_memo") or {}
            if "_memo" not in StateEnsemble.__dict__:
                StateEnsemble._memo = memo
            key = (outcome, len(self._states))
            if key not in memo:
                memo[key] = index_serial_from_index_multi_dimensional(
                    nums_length=list(shape), index_multi_dimensional=outcome
                )
            serial_index = memo[key]
""")])


def m7():
    """conditionalize 'sanitises' its own array first: entries below the DEFAULT threshold are zeroed in place
    (a parent built with eps_zero=1e-12 answers for other numbers after its first conditionalize)"""
    edit(MD, [("""        ### calc new ps
        # to extract specific columns from old ps, calculate ixgrid of numpy.
""", """        self._ps[self._ps < 1e-8] = 0.0
        ### calc new ps
        # to extract specific columns from old ps, calculate ixgrid of numpy.
""")])


def m10():
    """ProbDist.__getitem__ keeps the reshaped tensor in a class-level dict keyed by the shape"""
    edit("quara/objects/prob_dist.py", [("""            target = self._ps.reshape(*self._shape)
""", """            cache = ProbDist.__dict__.get("_T")
            if cache is None:
                cache = ProbDist._T = {}
            if tuple(self._shape) not in cache:
                cache[tuple(self._shape)] = self._ps.reshape(*self._shape)
            target = cache[tuple(self._shape)]
""")])


if __name__ == "__main__":
    globals()[sys.argv[1]]()
    print("applied", sys.argv[1], "to", ROOT)
