import sys
def patch(path, old, new, count=1):
    s = open(path, newline='').read()
    crlf = '\r\n' in s
    if crlf:
        old = old.replace('\n', '\r\n'); new = new.replace('\n', '\r\n')
    assert s.count(old) == count, (path, s.count(old))
    s = s.replace(old, new)
    open(path, 'w', newline='').write(s)
R = '/tmp/hist_c12/quara/'
FSE = R + 'loss_function/standard_qtomography_based_weighted_probability_based_squared_error.py'
FRE = R + 'loss_function/standard_qtomography_based_weighted_relative_entropy.py'
SE = R + 'loss_function/weighted_probability_based_squared_error.py'
RE = R + 'loss_function/weighted_relative_entropy.py'
PB = R + 'loss_function/probability_based_loss_function.py'
ENT = R + 'math/entropy.py'
m = sys.argv[1]
if m == 'M1':   # fast SE: block weight matrix is rebuilt only when it does not exist yet (or weights are cleared)
    patch(FSE, '''        super().set_weight_matrices(weight_matrices)
        self._calc_extend_weight_matrix()
''', '''        super().set_weight_matrices(weight_matrices)
        if self._extend_weight_matrix is None or weight_matrices is None:
            self._calc_extend_weight_matrix()
''')
elif m == 'M2':  # generic: model coefficients cached on the loss object, keyed by shape only
    patch(PB, '''        matA = np.copy(qt.calc_matA())
        vecB = np.copy(qt.calc_vecB())
        self._num_var = qt.num_variables
''', '''        cache = getattr(self, "_model_cache", None)
        key = (type(qt).__name__, qt.num_variables, qt.num_schedules)
        if cache is None or cache[0] != key:
            cache = (key, np.copy(qt.calc_matA()), np.copy(qt.calc_vecB()))
            self._model_cache = cache
        matA, vecB = cache[1], cache[2]
        self._num_var = qt.num_variables
''')
elif m == 'M3':  # entropy vector function returns a module-level scratch buffer (per size)
    patch(ENT, '''def relative_entropy_vector(''', '''_SCRATCH = {}


def relative_entropy_vector(''')
    patch(ENT, '''    vector = q_truncated * np.log(q_div_p_round)

    return vector
''', '''    out = _SCRATCH.setdefault(len(q_truncated), np.zeros(len(q_truncated)))
    np.multiply(q_truncated, np.log(q_div_p_round), out=out)
    return out
''')
elif m == 'M4':  # generic SE: covariance weights computed once per mode ("already computed" flag survives new data)
    patch(SE, '''            weight_matrices = []
            for (num_data, empi_dist_original) in data:
''', '''            if getattr(self, "_weights_mode", None) == mode_weight and self._weight_matrices:
                return
            self._weights_mode = mode_weight
            weight_matrices = []
            for (num_data, empi_dist_original) in data:
''')
elif m == 'M5':  # fast RE: flattened data kept from the first dataset
    patch(FRE, '''        self._prob_dists_q_flat = np.array(prob_dists_q, dtype=np.float64).flatten()
        super().set_prob_dists_q(prob_dists_q)
''', '''        if getattr(self, "_prob_dists_q_flat", None) is None or len(self._prob_dists_q_flat) != sum(len(q) for q in prob_dists_q):
            self._prob_dists_q_flat = np.array(prob_dists_q, dtype=np.float64).flatten()
        super().set_prob_dists_q(prob_dists_q)
''')
elif m == 'M6':  # generic SE value: residuals memoised by the argument only; memo survives setters
    patch(SE, '''        tmp_values = []
        for index in range(len(self.func_prob_dists)):
            vec = self.func_prob_dists[index](var) - self.prob_dists_q[index]
            if self.weight_matrices:
                tmp_value = multiply_veca_vecb_matc(
                    vec, vec, self.weight_matrices[index]
                )
''', '''        tmp_values = []
        memo = self.__dict__.setdefault("_residual_memo", {})
        mkey = var.tobytes()
        if mkey not in memo:
            if len(memo) > 64:
                memo.clear()
            memo[mkey] = [
                self.func_prob_dists[index](var) - self.prob_dists_q[index]
                for index in range(len(self.func_prob_dists))
            ]
        vecs = memo[mkey]
        for index in range(len(self.func_prob_dists)):
            vec = vecs[index]
            if self.weight_matrices:
                tmp_value = multiply_veca_vecb_matc(
                    vec, vec, self.weight_matrices[index]
                )
''')
elif m == 'M7':  # generic RE: "custom" option weights honoured on the first configuration only
    patch(RE, '''        elif mode_weight == "custom":
            self.set_weights(self.option.weights)
''', '''        elif mode_weight == "custom":
            if not getattr(self, "_custom_done", False):
                self.set_weights(self.option.weights)
                self._custom_done = True
''')
elif m == 'M8':  # fast SE: gradient matrix 2 A^T W cached, invalidated by weights setter only (not by a new model)
    patch(FSE, '''        if self._extend_weight_matrix is not None:
            grad = 2 * grad_ps.T @ self._extend_weight_matrix @ vec
''', '''        if self._extend_weight_matrix is not None:
            cached = getattr(self, "_grad_mat", None)
            if cached is None or cached[0] is not self.weight_matrices:
                cached = (self.weight_matrices, 2 * grad_ps.T @ self._extend_weight_matrix)
                self._grad_mat = cached
            grad = cached[1] @ vec
''')
elif m == 'M10':  # fast SE: block matrix cached in a module-level dict keyed by id() of the weights list
    patch(FSE, '''        zero = np.zeros((self.weight_matrices[0].shape))
''', '''        cached = _BLOCKS.get(id(self.weight_matrices))
        if cached is not None and cached.shape[0] == sum(w.shape[0] for w in self.weight_matrices):
            self._extend_weight_matrix = cached
            return
        zero = np.zeros((self.weight_matrices[0].shape))
''')
    patch(FSE, '''        self._extend_weight_matrix = np.block(block_matrix)
''', '''        self._extend_weight_matrix = np.block(block_matrix)
        if len(_BLOCKS) > 256:
            _BLOCKS.clear()
        _BLOCKS[id(self.weight_matrices)] = self._extend_weight_matrix
''')
    patch(FSE, '''class StandardQTomographyBasedWeightedProbabilityBasedSquaredErrorOption(''', '''_BLOCKS = {}


class StandardQTomographyBasedWeightedProbabilityBasedSquaredErrorOption(''')
elif m == 'M11':  # SimpleQuadratic: reference point kept at class level (the last constructed object wins)
    SQ = R + 'loss_function/simple_quadratic_loss_function.py'
    patch(SQ, '''        self._var_ref: np.ndarray = var_ref
''', '''        type(self)._var_ref = var_ref
''')
elif m == 'M14':  # generic SE gradient: gradients of the (linear) model computed once per object
    patch(SE, '''                vec_a = self.func_gradient_prob_dists[index](alpha, var)
                vec_b = self.func_prob_dists[index](var) - self.prob_dists_q[index]
''', '''                gcache = self.__dict__.setdefault("_grad_ps_cache", {})
                if (index, alpha) not in gcache:
                    gcache[(index, alpha)] = self.func_gradient_prob_dists[index](alpha, var)
                vec_a = gcache[(index, alpha)]
                if vec_a.shape != self.prob_dists_q[index].shape:
                    gcache.clear()
                    vec_a = gcache[(index, alpha)] = self.func_gradient_prob_dists[index](alpha, var)
                vec_b = self.func_prob_dists[index](var) - self.prob_dists_q[index]
''')
elif m == 'M15':  # generic RE hessian: stacked model gradients cached per schedule on the object, never invalidated
    patch(RE, '''        hess = np.zeros((self.num_var, self.num_var), dtype=np.float64)
        for index in range(len(self.func_prob_dists)):
            # calc list of gradient p
            tmp_grad_ps = []
            for alpha in range(self.num_var):
                tmp_grad_ps.append(self.func_gradient_prob_dists[index](alpha, var))
            grad_ps = np.stack(tmp_grad_ps, 1)
''', '''        hess = np.zeros((self.num_var, self.num_var), dtype=np.float64)
        hcache = self.__dict__.setdefault("_hess_grad_ps", {})
        for index in range(len(self.func_prob_dists)):
            # calc list of gradient p
            if index not in hcache or hcache[index].shape != (len(self.prob_dists_q[index]), self.num_var):
                tmp_grad_ps = []
                for alpha in range(self.num_var):
                    tmp_grad_ps.append(self.func_gradient_prob_dists[index](alpha, var))
                hcache[index] = np.stack(tmp_grad_ps, 1)
            grad_ps = hcache[index]
''')
elif m == 'M17':  # base class: the option object is stored on the first configuration only
    LF = R + 'loss_function/loss_function.py'
    patch(LF, '''        self._option = option
        self.is_option_sufficient()
''', '''        if self._option is None:
            self._option = option
        self.is_option_sufficient()
''')
else:
    raise SystemExit('unknown')
print('applied', m)
