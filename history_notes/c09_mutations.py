"""History-type mutations used to prove the history steps of C09 (see c09.md).

usage:  python3 c09_mutations.py <worktree> <M1..M7>      (apply ONE to a clean scratch worktree of /repo)
        git -C <worktree> checkout -- .                    (undo)
Files are read / written with newline='' so that CRLF files keep their line endings.
"""
import sys

LE = "quara/protocol/qtomography/standard/linear_estimator.py"
ER = "quara/protocol/qtomography/standard/standard_qtomography_estimator.py"

SOLVE = """        A = qtomography.calc_matA()
        b = qtomography.calc_vecB()

        A_ddag = np.linalg.inv(A.T @ A) @ A.T
"""
APPEND = """            v = A_ddag @ (f - b)
"""
RESULT = """        result = LinearEstimationResult(
            estimate_sequence, comp_time_sequence, qtomography._template_qoperation
        )
"""

MUT = {
    # pickle round trip: estimates stored as one 2-D array, split back along the wrong axis
    "M1": [(ER, """    @property
    def estimated_var(self) -> np.ndarray:
""", """    def __getstate__(self):
        state = dict(self.__dict__)
        state["_estimated_var_sequence"] = np.array(self._estimated_var_sequence)
        return state

    def __setstate__(self, state):
        state = dict(state)
        state["_estimated_var_sequence"] = [v for v in state["_estimated_var_sequence"].T]
        self.__dict__.update(state)

    @property
    def estimated_var(self) -> np.ndarray:
""")],
    # estimator keeps one template per tomography CLASS (key too small: flag / options of a second tomography ignored)
    "M2": [(LE, """    def __init__(self):
        super().__init__()
""", """    def __init__(self):
        super().__init__()
        self._templates = {}
"""), (LE, RESULT, """        template = self._templates.setdefault(
            type(qtomography).__name__, qtomography._template_qoperation
        )
        result = LinearEstimationResult(
            estimate_sequence, comp_time_sequence, template
        )
""")],
    # left inverse cached per id(tomography)
    "M3": [(LE, """    def __init__(self):
        super().__init__()
""", """    def __init__(self):
        super().__init__()
        self._left_inverse = {}
"""), (LE, SOLVE, """        key = id(qtomography)
        if key not in self._left_inverse:
            A = qtomography.calc_matA()
            b = qtomography.calc_vecB()
            self._left_inverse[key] = (np.linalg.inv(A.T @ A) @ A.T, b)
        A_ddag, b = self._left_inverse[key]
""")],
    # estimates memoised per data vector (bytes) and size of the model, not per tomography
    "M4": [(LE, """    def __init__(self):
        super().__init__()
""", """    def __init__(self):
        super().__init__()
        self._memo = {}
"""), (LE, APPEND, """            memo_key = (A_ddag.shape, f.tobytes())
            if memo_key not in self._memo:
                self._memo[memo_key] = A_ddag @ (f - b)
            v = self._memo[memo_key].copy()
""")],
    # a non-default constructor option leaks into the estimate object (entries below the threshold are cut)
    "M5": [(ER, """        var = self._estimated_var_sequence[0]
        qoperation = self._template_qoperation.generate_from_var(var)
""", """        var = self._estimated_var_sequence[0]
        eps = self._template_qoperation.eps_truncate_imaginary_part
        if eps is not None and eps != self._default_eps():
            var = np.where(np.abs(var) < 1e3 * eps, 0.0, var)
        qoperation = self._template_qoperation.generate_from_var(var)
"""), (ER, """    @property
    def estimated_var(self) -> np.ndarray:
""", """    @staticmethod
    def _default_eps():
        from quara.settings import Settings

        return Settings.get_atol()

    @property
    def estimated_var(self) -> np.ndarray:
""")],
    # output buffers pooled per shape on the estimator: a later call of the same shape overwrites an earlier result
    "M6": [(LE, """    def __init__(self):
        super().__init__()
""", """    def __init__(self):
        super().__init__()
        self._buffers = {}
"""), (LE, """        estimate_sequence = []
        comp_time_sequence""", """        out = self._buffers.setdefault(
            (len(empi_dists_sequence), A.shape[1]),
            np.empty((len(empi_dists_sequence), A.shape[1])),
        )
        estimate_sequence = []
        comp_time_sequence"""), (LE, APPEND, """            v = out[len(estimate_sequence)]
            np.matmul(A_ddag, f - b, out=v)
""")],
    # consistency routine remembers the true distributions per id(true_object)
    "M7": [("quara/simulation/consistency_check.py", """    true_prob_dists = qtomography.generate_prob_dists_sequence(true_object)
""", """    key = (type(qtomography).__name__, qtomography.num_schedules, qtomography.on_para_eq_constraint, id(true_object))
    if key not in _TRUE_DISTS:
        _TRUE_DISTS[key] = qtomography.generate_prob_dists_sequence(true_object)
    true_prob_dists = _TRUE_DISTS[key]
"""), ("quara/simulation/consistency_check.py", """def calc_mse_of_true_estimated(
""", """_TRUE_DISTS = {}


def calc_mse_of_true_estimated(
""")],
}


def main():
    root, name = sys.argv[1], sys.argv[2]
    for rel, old, new in MUT[name]:
        path = f"{root}/{rel}"
        with open(path, newline="") as fh:
            src = fh.read()
        nl = "\r\n" if "\r\n" in src else "\n"
        old_, new_ = old.replace("\n", nl), new.replace("\n", nl)
        assert src.count(old_) == 1, (name, rel, src.count(old_))
        with open(path, "w", newline="") as fh:
            fh.write(src.replace(old_, new_))
    print("applied", name)


if __name__ == "__main__":
    main()
