import sys
R = "/tmp/hist_c06/"
def sub(path, old, new, count=1):
    s = open(R + path, newline='').read()
    assert s.count(old) >= 1, (path, old[:60])
    s = s.replace(old, new, count)
    open(R + path, 'w', newline='').write(s)

def m1():
    """generate_mprocess caches the generated HS list per mode on the Povm object (mode 2 ignores the new post-selected states)"""
    sub("quara/objects/povm.py", "        hss = []\n        if mode_backaction == 0:",
        "        cache = self.__dict__.setdefault('_gm_cache', {})\n        hss = []\n        if mode_backaction in cache and (mode_backaction != 2 or post_selected_states is not None):\n            hss = [h.copy() for h in cache[mode_backaction]]\n        elif mode_backaction == 0:")
    sub("quara/objects/povm.py", "        # generate MProcess\n        mprocess = MProcess(", "        cache[mode_backaction] = [h.copy() for h in hss]\n        # generate MProcess\n        mprocess = MProcess(")

def m2():
    """Povm caches its matrices; mode 1 subtracts in place (deflation) while building the spectral decomposition"""
    sub("quara/objects/povm.py", "        return to_matrices_from_vecs(self.composite_system, self.vecs)",
        "        if '_mats' not in self.__dict__:\n            self._mats = to_matrices_from_vecs(self.composite_system, self.vecs)\n        return self._mats")
    sub("quara/objects/povm.py", "                hs_cb = None\n                for eigenval, Ps in spectral_decomp.items():\n                    P = reduce(add, Ps)\n",
        "                hs_cb = None\n                for eigenval, Ps in spectral_decomp.items():\n                    P = reduce(add, Ps)\n                    matrix -= eigenval * P\n")

def m3():
    """set_mode_sampling(False) leaves the random stream behind and composition samples whenever a stream exists"""
    sub("quara/objects/mprocess.py", "        else:\n            self._random_seed_or_generator = None\n            self._random_state = None\n",
        "        else:\n            self._random_seed_or_generator = None\n            if not hasattr(self, '_random_state'):\n                self._random_state = None\n")
    sub("quara/objects/operators.py", "    if elem1.mode_sampling:\n        # return State\n", "    if elem1.random_state is not None:\n        # return State\n")

def m4():
    """Povm o State writes the probabilities into a module-level scratch buffer per outcome count: the returned distribution aliases it"""
    sub("quara/objects/operators.py", "def _to_list(*elements):", "_PROB_BUF = {}\n\n\ndef _to_list(*elements):")
    sub("quara/objects/operators.py", "        prob = np.array(prob_list, dtype=np.float64)\n        prob = matrix_util.truncate_and_normalize(prob)\n",
        "        buf = _PROB_BUF.setdefault(len(prob_list), np.zeros(len(prob_list), dtype=np.float64))\n        buf[:] = matrix_util.truncate_and_normalize(np.array(prob_list, dtype=np.float64))\n        prob = buf\n")

def m5():
    """generate_mprocess keeps the comp-basis -> working-basis conversion pair in a module-level cache keyed by the dimension only"""
    sub("quara/objects/povm.py", "class Povm(QOperation):", "_BASIS_PAIR = {}\n\n\nclass Povm(QOperation):")
    s = open(R + "quara/objects/povm.py", newline='').read()
    old = "                hs_gb = convert_hs(\n                    hs_cb,\n                    self.composite_system.comp_basis(),\n                    self.composite_system.basis(),\n                )\n"
    new = "                pair = _BASIS_PAIR.setdefault(self.dim, (self.composite_system.comp_basis(), self.composite_system.basis()))\n                hs_gb = convert_hs(hs_cb, pair[0], pair[1])\n"
    assert s.count(old) == 2
    open(R + "quara/objects/povm.py", 'w', newline='').write(s.replace(old, new))

def m6():
    """Gate o Gate multiplies into a per-dimension scratch matrix that the returned Gate keeps"""
    sub("quara/objects/operators.py", "def _to_list(*elements):", "_GG_BUF = {}\n\n\ndef _to_list(*elements):")
    sub("quara/objects/operators.py", "        matrix = elem1.hs @ elem2.hs\n", "        matrix = _GG_BUF.setdefault(elem1.hs.shape, np.zeros(elem1.hs.shape, dtype=np.float64))\n        matrix[:] = elem1.hs @ elem2.hs\n")

def m7():
    """MProcess.to_povm memoised per object; set aside: the memo is keyed by nothing and shared through copy.copy-like construction -> here: compose(MProcess, State) memoises (states, ps) on the MProcess keyed by id(state)"""
    sub("quara/objects/operators.py", "    states, ps = _compose_qoperations_MProcess_State_for_States(elem1, elem2)\n",
        "    memo = elem1.__dict__.setdefault('_on_state_memo', {})\n    if len(elem2.vec) in memo:\n        states, ps = memo[len(elem2.vec)]\n    else:\n        states, ps = _compose_qoperations_MProcess_State_for_States(elem1, elem2)\n        memo[len(elem2.vec)] = (states, ps)\n")

globals()[sys.argv[1]]()
print(globals()[sys.argv[1]].__doc__)
