"""apply one named history-type mutation to the scratch worktree /tmp/hist_c18 (line endings preserved)
usage: python3 c18_mutations.py m1     (then: git -C /tmp/hist_c18 checkout -- .)"""
import sys

ROOT = "/tmp/hist_c18/"
EL = "quara/objects/effective_lindbladian.py"
CS = "quara/objects/composite_system.py"
RS = "quara/simulation/random_effective_lindbladian_generation_setting.py"
QOP = "quara/objects/qoperation.py"


def edit(path, old, new, count=1):
    with open(ROOT + path, newline="") as f:
        s = f.read()
    nl = "\r\n" if "\r\n" in s else "\n"
    old = old.replace("\n", nl)
    new = new.replace("\n", nl)
    assert s.count(old) == count, (path, s.count(old), old)
    s = s.replace(old, new)
    with open(ROOT + path, "w", newline="") as f:
        f.write(s)


K_HEAD = '''            k matrix of this EffectiveLindbladian.
        """
        basis = self.composite_system.basis()
'''
K_TAIL = '''                tmp_k_mat[alpha, beta] = np.trace(
                    lindbladian_cb @ mutil.kron(B_alpha, B_beta.conj())
                )

        return tmp_k_mat
'''


def m1():
    """stale cache after a public setter: calc_k_mat memoises K per object (hands out copies); set_zero does not clear it"""
    edit(EL, K_HEAD, '''            k matrix of this EffectiveLindbladian.
        """
        if getattr(self, "_k_mat_memo", None) is not None:
            return self._k_mat_memo.copy()
        basis = self.composite_system.basis()
''')
    edit(EL, K_TAIL, K_TAIL.replace("        return tmp_k_mat\n", "        self._k_mat_memo = tmp_k_mat.copy()\n        return tmp_k_mat\n"))


def m2a():
    """(equivalent mutant, kept for the record) calc_h_mat keeps its commutator tables per dimension: the sum over an
    orthonormal basis of tr(L (B (x) I - I (x) conj B)) B does not depend on which orthonormal basis is used"""
    edit(EL, '''        tmp_h_mat = np.zeros((self.dim, self.dim), dtype=np.complex128)
        for B_alpha in basis:
            trace = np.trace(
                lindbladian_cb
                @ (mutil.kron(B_alpha, identity) - mutil.kron(identity, B_alpha.conj()))
            )
            h_alpha = 1j / (2 * self.dim) * trace
            tmp_h_mat += h_alpha * B_alpha
''', '''        tmp_h_mat = np.zeros((self.dim, self.dim), dtype=np.complex128)
        tables = _H_TABLES.get(self.dim)
        if tables is None:
            tables = _H_TABLES[self.dim] = [
                (mutil.kron(B_alpha, identity) - mutil.kron(identity, B_alpha.conj()), B_alpha)
                for B_alpha in basis
            ]
        for table, B_alpha in tables:
            trace = np.trace(lindbladian_cb @ table)
            h_alpha = 1j / (2 * self.dim) * trace
            tmp_h_mat += h_alpha * B_alpha
''')
    edit(EL, "class EffectiveLindbladian(Gate):\n", "_H_TABLES = {}\n\n\nclass EffectiveLindbladian(Gate):\n")


def m2():
    """module-level cache keyed by too little: calc_k_mat keeps its B_a (x) conj B_b tables per dimension (not per basis)"""
    edit(EL, '''        for alpha, B_alpha in enumerate(basis[1:]):
            for beta, B_beta in enumerate(basis[1:]):
                tmp_k_mat[alpha, beta] = np.trace(
                    lindbladian_cb @ mutil.kron(B_alpha, B_beta.conj())
                )
''', '''        tables = _K_TABLES.get(self.dim)
        if tables is None:
            tables = _K_TABLES[self.dim] = [
                [mutil.kron(B_alpha, B_beta.conj()) for B_beta in basis[1:]]
                for B_alpha in basis[1:]
            ]
        for alpha in range(len(tables)):
            for beta in range(len(tables)):
                tmp_k_mat[alpha, beta] = np.trace(lindbladian_cb @ tables[alpha][beta])
''')
    edit(EL, "class EffectiveLindbladian(Gate):\n", "_K_TABLES = {}\n\n\nclass EffectiveLindbladian(Gate):\n")


def m3():
    """memo keyed by the input only: _calc_k_part_from_k_mat remembers the last K it was given, whatever the system"""
    edit(EL, '''def _calc_k_part_from_k_mat(k_mat: np.ndarray, c_sys: CompositeSystem) -> np.ndarray:
    return _calc_k_part_from_k_mat_with_sparsity(k_mat, c_sys)
''', '''_K_PART_MEMO = {}


def _calc_k_part_from_k_mat(k_mat: np.ndarray, c_sys: CompositeSystem) -> np.ndarray:
    key = (k_mat.shape, np.asarray(k_mat, dtype=np.complex128).tobytes())
    if key not in _K_PART_MEMO:
        if len(_K_PART_MEMO) > 64:
            _K_PART_MEMO.clear()
        _K_PART_MEMO[key] = _calc_k_part_from_k_mat_with_sparsity(k_mat, c_sys)
    return _K_PART_MEMO[key].copy()
''')


def m4():
    """result aliases an internal buffer: the sparse K-part routine writes into one work array per composite system"""
    edit(EL, '''    k_part_vec = c_sys.basis_basisconjugate_T_sparse_from_1.dot(k_mat.flatten())
    k_part = k_part_vec.reshape((c_sys.dim ** 2, c_sys.dim ** 2))
    return k_part
''', '''    k_part_vec = c_sys.basis_basisconjugate_T_sparse_from_1.dot(k_mat.flatten())
    work = getattr(c_sys, "_k_part_work", None)
    if work is None or work.shape != (c_sys.dim ** 2, c_sys.dim ** 2):
        work = c_sys._k_part_work = np.zeros((c_sys.dim ** 2, c_sys.dim ** 2), dtype=np.complex128)
    work[:, :] = k_part_vec.reshape((c_sys.dim ** 2, c_sys.dim ** 2))
    return work
''')


def m5():
    """option honoured on the first call only: is_physical memoises its verdict per (object, atol_eq_const) and so
    ignores a different atol_ineq_const of a later call"""
    edit(EL, '''    def is_tp(self, atol: float = None) -> bool:
        """returns whether the effective Lindbladian is TP(trace-preserving map).
''', '''    def is_physical(self, atol_eq_const: float = None, atol_ineq_const: float = None) -> bool:
        memo = self.__dict__.setdefault("_physical_memo", {})
        key = (id(self._hs), atol_eq_const, Settings.get_atol())
        if key not in memo:
            memo[key] = super().is_physical(atol_eq_const, atol_ineq_const)
        return memo[key]

    def is_tp(self, atol: float = None) -> bool:
        """returns whether the effective Lindbladian is TP(trace-preserving map).
''')


def m6():
    """module-level cache keyed by the dimension in the random-generation setting: the traceless basis elements of the
    first composite system serve every later system of that dimension"""
    edit(RS, '''        basis = self.composite_system.basis()
        terms = []
        for index, h_alpha in enumerate(random_vector):
            terms.append(h_alpha * basis[index + 1])
''', '''        dim = self.composite_system.dim
        if dim not in _TRACELESS_BASIS:
            _TRACELESS_BASIS[dim] = [b for b in self.composite_system.basis()][1:]
        basis = _TRACELESS_BASIS[dim]
        terms = []
        for index, h_alpha in enumerate(random_vector):
            terms.append(h_alpha * basis[index])
''')
    edit(RS, "class RandomEffectiveLindbladianGenerationSetting(\n", "_TRACELESS_BASIS = {}\n\n\nclass RandomEffectiveLindbladianGenerationSetting(\n")


def m7():
    """two sites: K memo per object (as m1, but cleared by set_zero) + scalar multiplication that carries the memo over to
    the product without scaling it"""
    m1()
    edit(EL, '''    def _generate_from_var_func(self):
        return convert_var_to_effective_lindbladian
''', '''    def _generate_from_var_func(self):
        return convert_var_to_effective_lindbladian

    def set_zero(self):
        super().set_zero()
        self._k_mat_memo = None

    def __mul__(self, other):
        new = super().__mul__(other)
        new._k_mat_memo = getattr(self, "_k_mat_memo", None)
        return new
''')


def m8():
    """rebuild path after the documented delete: basishermitian_basis_T_from_1 alone is rebuilt by a short routine that
    forgets the Hermitian conjugate's transposition (B_b^* B_a instead of B_b^dagger B_a)"""
    edit(CS, '''        if self._basishermitian_basis_T_from_1 is None:
            self._calc_basis_basisconjugate_sparse()
        return self._basishermitian_basis_T_from_1
''', '''        if self._basishermitian_basis_T_from_1 is None:
            if self._basis_basisconjugate_T_sparse_from_1 is None:
                self._calc_basis_basisconjugate_sparse()
            else:
                basis = self._total_basis.basis
                rows = [
                    sparse.csr_matrix((basis[b].conj() @ basis[a]).reshape(1, -1))
                    for a in range(1, len(basis))
                    for b in range(1, len(basis))
                ]
                self._basishermitian_basis_T_from_1 = sparse.vstack(rows).T
        return self._basishermitian_basis_T_from_1
''')


def m9():
    """to_gate memoises the gate on the object ('already computed' flag); set_zero does not clear it"""
    edit(EL, '''        new_hs = expm(self.hs)
        gate = Gate(
''', '''        if getattr(self, "_gate_memo", None) is not None:
            return self._gate_memo.copy()
        new_hs = expm(self.hs)
        gate = self._gate_memo = Gate(
''')


def m10():
    """builder memo keyed by the inputs only: generate_hs_from_hk remembers (H, K) -> hs across composite systems"""
    edit(EL, '''    dim = c_sys.dim

    # calculate h_part
    _check_h_mat(h_mat, dim)
    h_part = _calc_h_part_from_h_mat(h_mat)

    # calculate k_part
    _check_k_mat(k_mat, dim)
    k_part = _calc_k_part_from_k_mat(k_mat, c_sys)

    # calculate j_part
    j_mat = _calc_j_mat_from_k_mat(k_mat, c_sys)
''', '''    dim = c_sys.dim
    key = (np.asarray(h_mat, dtype=np.complex128).tobytes(), np.asarray(k_mat, dtype=np.complex128).tobytes())
    if key in _HK_MEMO:
        return _HK_MEMO[key].copy()

    # calculate h_part
    _check_h_mat(h_mat, dim)
    h_part = _calc_h_part_from_h_mat(h_mat)

    # calculate k_part
    _check_k_mat(k_mat, dim)
    k_part = _calc_k_part_from_k_mat(k_mat, c_sys)

    # calculate j_part
    j_mat = _calc_j_mat_from_k_mat(k_mat, c_sys)
''')
    edit(EL, '''    lindbladian_hermitian_basis = _truncate_hs(
        lindbladian_tmp, eps_truncate_imaginary_part
    )

    return lindbladian_hermitian_basis


def generate_effective_lindbladian_from_hk(
''', '''    lindbladian_hermitian_basis = _truncate_hs(
        lindbladian_tmp, eps_truncate_imaginary_part
    )
    if len(_HK_MEMO) > 32:
        _HK_MEMO.clear()
    _HK_MEMO[key] = lindbladian_hermitian_basis.copy()

    return lindbladian_hermitian_basis


def generate_effective_lindbladian_from_hk(
''')
    edit(EL, "class EffectiveLindbladian(Gate):\n", "_HK_MEMO = {}\n\n\nclass EffectiveLindbladian(Gate):\n")


def m11():
    """combination with a non-default option: the inequality verdict is waved through for objects built with
    on_algo_ineq_constraint=False ('the algorithm does not enforce it')"""
    edit(EL, '''        atol = Settings.get_atol() if atol is None else atol

        # for A:L^{gb}, "A is CP"  <=> "k >= 0"
''', '''        atol = Settings.get_atol() if atol is None else atol
        if not self.on_algo_ineq_constraint:
            return True

        # for A:L^{gb}, "A is CP"  <=> "k >= 0"
''')


def m12():
    """projection memo: calc_proj_ineq_constraint keeps its result on the receiver and returns it again later, also after
    set_zero"""
    edit(EL, '''    def calc_proj_ineq_constraint(self) -> "EffectiveLindbladian":
        h_mat = self.calc_h_mat()
''', '''    def calc_proj_ineq_constraint(self) -> "EffectiveLindbladian":
        if getattr(self, "_proj_ineq_memo", None) is not None:
            return self._proj_ineq_memo.copy()
        h_mat = self.calc_h_mat()
''')
    edit(EL, '''            eps_truncate_imaginary_part=self.eps_truncate_imaginary_part,
        )

        return new_lindbladian

    def is_tp(self, atol: float = None) -> bool:
''', '''            eps_truncate_imaginary_part=self.eps_truncate_imaginary_part,
        )
        self._proj_ineq_memo = new_lindbladian

        return new_lindbladian

    def is_tp(self, atol: float = None) -> bool:
''')


def m13():
    """pickle support that drops state: __getstate__ of the composite system leaves out the sparse tables and
    __setstate__ restores the K-part table from the full table with the row/column selection of the wrong axis"""
    edit(CS, '''    @property
    def basis_basisconjugate_T_sparse_from_1(self) -> np.ndarray:
        if self._basis_basisconjugate_T_sparse_from_1 is None:
            self._calc_basis_basisconjugate_sparse()
        return self._basis_basisconjugate_T_sparse_from_1
''', '''    def __getstate__(self):
        state = dict(self.__dict__)
        state["_basis_basisconjugate_T_sparse_from_1"] = None
        state["_restore_from_full"] = state.get("_basis_basisconjugate_T_sparse") is not None
        return state

    def __setstate__(self, state):
        restore = state.pop("_restore_from_full", False)
        self.__dict__.update(state)
        if restore:
            n = len(self._total_basis.basis)
            keep = [a * n + b for a in range(n - 1) for b in range(n - 1)]
            self._basis_basisconjugate_T_sparse_from_1 = self._basis_basisconjugate_T_sparse.tocsc()[:, keep]

    @property
    def basis_basisconjugate_T_sparse_from_1(self) -> np.ndarray:
        if self._basis_basisconjugate_T_sparse_from_1 is None:
            self._calc_basis_basisconjugate_sparse()
        return self._basis_basisconjugate_T_sparse_from_1
''')


if __name__ == "__main__":
    globals()[sys.argv[1]]()
    print("applied", sys.argv[1], (globals()[sys.argv[1]].__doc__ or "").split("\n")[0])
