"""apply one named history-type mutation to the scratch worktree /tmp/hist_c11 (CRLF preserved)
usage: python c11_mutations.py <name>      (then QV_REPO=/tmp/hist_c11 QV_JOBS=5 ./check C11 quick; git -C /tmp/hist_c11 checkout -- .)"""
import sys

ROOT = "/tmp/hist_c11/"


def edit(path, old, new, count=1):
    with open(ROOT + path, newline="") as f:
        s = f.read()
    nl = "\r\n" if "\r\n" in s else "\n"
    old = old.replace("\n", nl)
    new = new.replace("\n", nl)
    assert s.count(old) == count, (path, s.count(old), old)
    s = s.replace(old, new)
    with open(ROOT + path, "w", newline="") as f:
        f.write(s)


PGD = "quara/minimization_algorithm/projected_gradient_descent.py"
PGDB = "quara/minimization_algorithm/projected_gradient_descent_backtracking.py"
LME = "quara/protocol/qtomography/standard/loss_minimization_estimator.py"
CVA = "quara/interface/cvxpy/qtomography/standard/minimization_algorithm.py"
CVL = "quara/interface/cvxpy/qtomography/standard/loss_function.py"
CVE = "quara/interface/cvxpy/qtomography/standard/estimator.py"
PBL = "quara/loss_function/probability_based_loss_function.py"

SET_LOSS = ("            loss.set_from_standard_qtomography_option_data(\n"
            "                qtomography,\n"
            "                loss_option,\n"
            "                empi_dists,\n"
            "                algo.is_gradient_required,\n"
            "                algo.is_hessian_required,\n"
            "            )\n")


def m1():
    """'already set up' flag on the estimator: the loss is not re-set when the estimator is handed the loss object and the
    tomography of its previous estimate (the data may have changed)"""
    edit(LME, SET_LOSS,
         "            if getattr(self, \"_last_setup\", None) != (id(loss), id(qtomography)):\n"
         "                loss.set_from_standard_qtomography_option_data(\n"
         "                    qtomography, loss_option, empi_dists, algo.is_gradient_required, algo.is_hessian_required)\n"
         "                self._last_setup = (id(loss), id(qtomography))\n")


def m2():
    """loop-invariant hoisting gone wrong: calc_estimate_sequence sets the loss once, from the first data set"""
    edit(LME, "        for empi_dists in empi_dists_sequence:\n            if is_computation_time_required:\n                start_time = time.time()\n\n            # set loss settings\n" + SET_LOSS,
         "        loss.set_from_standard_qtomography_option_data(\n            qtomography, loss_option, empi_dists_sequence[0],\n"
         "            algo.is_gradient_required, algo.is_hessian_required)\n"
         "        for empi_dists in empi_dists_sequence:\n            if is_computation_time_required:\n                start_time = time.time()\n\n")


def m3():
    """result aliases a work buffer kept on the algorithm object: the next optimisation of the same size overwrites it"""
    edit(PGDB, "            x_next = x_prev + alpha * y_prev\n",
         "            buf = getattr(self, \"_x_buf\", None)\n"
         "            if buf is None or buf.shape != x_prev.shape:\n"
         "                buf = self._x_buf = np.empty_like(x_prev, dtype=np.float64)\n"
         "            x_new = x_prev + alpha * y_prev\n"
         "            x_next = x_new\n")
    edit(PGDB, "            result = ProjectedGradientDescentBacktrackingResult(x_next)\n            return result\n",
         "            self._x_buf[:] = x_next\n            result = ProjectedGradientDescentBacktrackingResult(self._x_buf)\n            return result\n")
    edit(PGDB, "            result = ProjectedGradientDescentBacktrackingResult(\n                x_next,\n",
         "            self._x_buf[:] = x_next\n            xs[-1] = self._x_buf\n            result = ProjectedGradientDescentBacktrackingResult(\n                self._x_buf,\n")


def m4():
    """combination: the history-free loop (estimator default path) projects onto the equality constraint only"""
    edit(PGDB, "        is_doing = True\n        for k in range(1, max_iteration + 1):\n",
         "        is_doing = True\n        func_proj = self.func_proj\n"
         "        if not on_iteration_history and self._qt is not None:\n"
         "            info = self._qt.generate_empty_estimation_obj_with_setting_info()\n"
         "            func_proj = info.func_calc_proj_eq_constraint_with_var(info.on_para_eq_constraint)\n"
         "        for k in range(1, max_iteration + 1):\n")
    edit(PGDB, "                self.func_proj(x_prev - loss_function.gradient(x_prev) / mu) - x_prev\n",
         "                func_proj(x_prev - loss_function.gradient(x_prev) / mu) - x_prev\n")


def m5():
    """CVXPY algorithm memoises the compiled problem per tomography object (id of loss.sqt): new data, old objective"""
    edit(CVA, "        objective = cp.Minimize(self.loss.value_cvxpy(var))\n        problem = cp.Problem(objective, constraints)\n",
         "        memo = getattr(self, \"_memo_problem\", None)\n"
         "        if memo is not None and memo[0] is self.loss.sqt and memo[1] is self.loss:\n"
         "            var, problem = memo[2], memo[3]\n"
         "        else:\n"
         "            objective = cp.Minimize(self.loss.value_cvxpy(var))\n"
         "            problem = cp.Problem(objective, constraints)\n"
         "            self._memo_problem = (self.loss.sqt, self.loss, var, problem)\n")


def m6():
    """the estimator keeps its list of estimates as an attribute that is cleared in place and refilled by the next call:
    a result object held by the caller shows the estimates of the later call"""
    edit(LME, "        estimated_var_sequence = []\n        computation_times = [] if is_computation_time_required else None\n",
         "        if not hasattr(self, \"_var_seq\"):\n            self._var_seq = []\n        self._var_seq.clear()\n"
         "        estimated_var_sequence = self._var_seq\n        computation_times = [] if is_computation_time_required else None\n")


def m7():
    """default step scale mu computed once per algorithm object (from the first tomography's number of variables)"""
    edit(PGDB, "        elif self._qt:\n            mu = 3 / (2 * np.sqrt(self._qt.num_variables))\n",
         "        elif self._qt:\n            if getattr(self, \"_mu_default\", None) is None:\n"
         "                self._mu_default = 3 / (2 * np.sqrt(self._qt.num_variables))\n            mu = self._mu_default\n")


def m8():
    """generic losses keep their probability functions when the new tomography has the sizes of the previous one
    (cache keyed by shape: a twin tomography gets the first one's model)"""
    edit(PBL, "        self._num_var = qt.num_variables\n",
         "        if (self._func_prob_dists is not None and len(self._func_prob_dists) == qt.num_schedules\n"
         "                and self._num_var == qt.num_variables and getattr(self, \"_rows\", None) == matA.shape[0]):\n"
         "            return\n"
         "        self._rows = matA.shape[0]\n"
         "        self._num_var = qt.num_variables\n")


def m9():
    """CVXPY loss: the data are taken over only when none are set yet for this tomography (flag survives the setter)"""
    edit(CVL, "        self._sqt = sqt\n        self._type_estimate = type_standard_qtomography(sqt)\n",
         "        if sqt is not self._sqt:\n            self._on_prob_dists_data = False\n"
         "        self._sqt = sqt\n        self._type_estimate = type_standard_qtomography(sqt)\n")
    edit(CVL, "    def set_prob_dists_data(self, ps: List[np.ndarray]) -> None:\n",
         "    def set_prob_dists_data(self, ps: List[np.ndarray]) -> None:\n        if self._on_prob_dists_data:\n            return\n")


def m10():
    """CVXPY loss accepts a tomography with on_para_eq_constraint=False once it has accepted one with True
    (validation only on the first set-up of a loss object)"""
    edit(CVL, "        if sqt.on_para_eq_constraint == False:\n", "        if sqt.on_para_eq_constraint == False and self._sqt is None:\n")


if __name__ == "__main__":
    globals()[sys.argv[1]]()
    print("applied", sys.argv[1])
