"""History-type mutations for C15 (applied one at a time to the scratch worktree /tmp/hist_c15).

usage: python3 c15_mutations.py <id>      (then run the check with QV_REPO=/tmp/hist_c15; `git -C /tmp/hist_c15 checkout -- .` afterwards)
Files may have CRLF endings: read / written with newline='' and the file's own newline kept.
"""
import sys

ROOT = "/tmp/hist_c15/"
SIM = "quara/simulation/standard_qtomography_simulation.py"
FLOW = "quara/simulation/standard_qtomography_simulation_flow.py"
SE = "quara/loss_function/standard_qtomography_based_weighted_probability_based_squared_error.py"
CHK = "quara/simulation/standard_qtomography_simulation_check.py"


def sub(path, old, new, count=1):
    p = ROOT + path
    s = open(p, newline="").read()
    nl = "\r\n" if "\r\n" in s else "\n"
    old, new = old.replace("\n", nl), new.replace("\n", nl)
    assert s.count(old) >= 1, (path, old)
    s = s.replace(old, new, count)
    open(p, "w", newline="").write(s)


def M1():
    """copy() of a simulation setting rebuilds the algorithm option from its 'main' fields: gamma / mu / mode_proj_order
    (non-default values) are dropped; the option fields the old workload set (flags, stopping mode, history, eps) are kept"""
    sub(SIM, "            algo_option=self.algo_option,\n            seed_data=self.seed_data,",
        "            algo_option=None if self.algo_option is None else type(self.algo_option)(\n"
        "                on_algo_eq_constraint=self.algo_option.on_algo_eq_constraint,\n"
        "                on_algo_ineq_constraint=self.algo_option.on_algo_ineq_constraint,\n"
        "                mode_stopping_criterion_gradient_descent=self.algo_option.mode_stopping_criterion_gradient_descent,\n"
        "                num_history_stopping_criterion_gradient_descent=self.algo_option.num_history_stopping_criterion_gradient_descent,\n"
        "                eps=self.algo_option.eps,\n"
        "            ),\n            seed_data=self.seed_data,")


def M1b():
    """copy() of a simulation setting drops custom loss weights (rebuilds the loss option with identity weights)"""
    sub(SIM, "            loss_option=self.loss_option,\n            algo=copy.deepcopy(self.algo),",
        "            loss_option=None if self.loss_option is None else type(self.loss_option)(\"identity\"),\n"
        "            algo=copy.deepcopy(self.algo),")


def M2():
    """state left on a re-used loss object: the fast squared-error loss computes the model matrices (matA, vecB) only
    when it has none yet ('they do not change between data sets')"""
    sub(SE, "        self._matA = np.copy(qt.calc_matA())\n        self._vecB = np.copy(qt.calc_vecB())\n        self._calc_extend_weight_matrix()",
        "        if getattr(self, \"_matA\", None) is None:\n            self._matA = np.copy(qt.calc_matA())\n"
        "            self._vecB = np.copy(qt.calc_vecB())\n        self._calc_extend_weight_matrix()")
    sub(SE, "        self._matA = np.copy(qt.calc_matA())\n        self._calc_extend_weight_matrix()\n\n        self._on_func_gradient_prob_dists = True",
        "        if getattr(self, \"_matA\", None) is None:\n            self._matA = np.copy(qt.calc_matA())\n"
        "        self._calc_extend_weight_matrix()\n\n        self._on_func_gradient_prob_dists = True")


def M4():
    """aliasing: generate_empi_dists_and_calc_estimate collects the repetitions in module-level lists that are cleared
    at the next call; the returned SimulationResult aliases them"""
    sub(SIM, "        estimation_results = []\n        empi_dists_sequences = []\n        # uses one stream",
        "        estimation_results = _EST_BUF\n        empi_dists_sequences = _EMPI_BUF\n        estimation_results.clear()\n"
        "        empi_dists_sequences.clear()\n        # uses one stream")
    sub(SIM, "# common\ndef execute_simulation(", "_EST_BUF = []\n_EMPI_BUF = []\n\n\n# common\ndef execute_simulation(")


def M4f():
    """aliasing: the flow returns a module-level result list that the next call clears and refills"""
    sub(FLOW, "    all_results = []\n    start = time.time()", "    all_results = _ALL_RESULTS\n    all_results.clear()\n    start = time.time()")
    sub(FLOW, "def execute_simulation_test_settings(", "_ALL_RESULTS = []\n\n\ndef execute_simulation_test_settings(")


def M9():
    """state left on a re-used test-setting object: the per-sample object generators are spawned once and kept on the
    test setting; a second run continues the consumed generators"""
    sub(FLOW, "    gens_qperations = [Generator(MT19937(s)) for s in sg.spawn(n_sample)]\n",
        "    if getattr(test_setting, \"_gens_qoperations\", None) is None:\n"
        "        test_setting._gens_qoperations = [Generator(MT19937(s)) for s in sg.spawn(n_sample)]\n"
        "    gens_qperations = test_setting._gens_qoperations\n")


def M10():
    """combination: with several test settings the data seed sequence of every test setting is the one of the first
    (module-level 'current seed sequence' set once per call)"""
    sub(FLOW, "    sg = SeedSequence(tmp_sim_setting.seed_data)\n",
        "    if _DATA_SEED.get(\"root\") != root_dir:\n        _DATA_SEED[\"root\"] = root_dir\n"
        "        _DATA_SEED[\"seed\"] = tmp_sim_setting.seed_data\n    sg = SeedSequence(_DATA_SEED[\"seed\"])\n")
    sub(FLOW, "def execute_simulation_case_unit(", "_DATA_SEED = {}\n\n\ndef execute_simulation_case_unit(")


def M11():
    """combination: result_index of a case unit hard-codes test_setting_index 0 in the pickled file name (results of a
    second test setting overwrite the files of the first one)"""
    sub(FLOW, "    # Save pickle\n    dir_path = Path(root_dir) / str(test_setting_index) / str(sample_index)",
        "    # Save pickle\n    dir_path = Path(root_dir) / \"0\" / str(sample_index)")


def M15():
    """copy() of a simulation setting drops the data seed (seed_data=None in the copy)"""
    sub(SIM, "            algo_option=self.algo_option,\n            seed_data=self.seed_data,",
        "            algo_option=self.algo_option,\n            seed_data=None,")


MUT = {k: v for k, v in globals().items() if k.startswith("M") and callable(v)}

if __name__ == "__main__":
    MUT[sys.argv[1]]()
    print("applied", sys.argv[1], "-", MUT[sys.argv[1]].__doc__.strip().split("\n")[0])
