"""history-type mutations of my own for C02 teeth; usage: mutate.py <name> (applied to /tmp/hist_c02)"""
import sys
ROOT = "/tmp/hist_c02/"

def edit(path, old, new, count=1):
    with open(ROOT + path, newline="") as f:
        s = f.read()
    nl = "\r\n" if "\r\n" in s else "\n"
    old, new = old.replace("\n", nl), new.replace("\n", nl)
    assert s.count(old) == count, (path, s.count(old), old)
    s = s.replace(old, new)
    with open(ROOT + path, "w", newline="") as f:
        f.write(s)

def m1():
    """Gate caches its sparse Choi matrix after the first query; set_zero() does not invalidate it"""
    edit("quara/objects/gate.py",
         "        return to_choi_from_hs_with_sparsity(self.composite_system, self._hs)\n",
         "        if getattr(self, \"_choi_sparse_cache\", None) is None:\n"
         "            self._choi_sparse_cache = to_choi_from_hs_with_sparsity(\n"
         "                self.composite_system, self._hs\n"
         "            )\n"
         "        return self._choi_sparse_cache.copy()\n")

def m2():
    """to_density_matrix_from_vec memoised by the identity of the vec array (entry dropped when the array dies):
    the same array handed in again with new contents gets the old answer"""
    edit("quara/objects/state.py",
         "    density_vec = c_sys.basis_T_sparse.dot(vec)\n"
         "    density = density_vec.reshape((c_sys.dim, c_sys.dim))\n"
         "    return density\n",
         "    key = (id(c_sys), id(vec))\n"
         "    hit = _DM_MEMO.get(key)\n"
         "    if hit is not None:\n"
         "        return hit.copy()\n"
         "    density_vec = c_sys.basis_T_sparse.dot(vec)\n"
         "    density = density_vec.reshape((c_sys.dim, c_sys.dim))\n"
         "    try:\n"
         "        weakref.finalize(vec, _DM_MEMO.pop, key, None)\n"
         "        weakref.finalize(c_sys, _DM_MEMO.pop, key, None)\n"
         "        _DM_MEMO[key] = density.copy()\n"
         "    except TypeError:\n"
         "        pass\n"
         "    return density\n")
    edit("quara/objects/state.py", "import copy\n", "import copy\nimport weakref\n\n_DM_MEMO = {}\n")

def m3():
    """MProcess.to_choi_matrix_with_sparsity fills and returns one per-object result buffer: a result the caller holds
    is overwritten by the next query of another outcome"""
    edit("quara/objects/mprocess.py",
         "        hs = self.hs(outcome)\n        return gate.to_choi_from_hs_with_sparsity(self.composite_system, hs)\n",
         "        hs = self.hs(outcome)\n"
         "        choi = gate.to_choi_from_hs_with_sparsity(self.composite_system, hs)\n"
         "        if getattr(self, \"_choi_buffer\", None) is None:\n"
         "            self._choi_buffer = np.zeros(choi.shape, dtype=np.complex128)\n"
         "        self._choi_buffer[:, :] = choi\n"
         "        return self._choi_buffer\n")

def m4():
    """MProcess.copy() rebuilds the object without its (non-default) shape"""
    edit("quara/objects/mprocess.py",
         "            hss,\n            shape=shape,\n            mode_sampling=mode_sampling,\n            random_seed_or_generator=random_seed_or_generator,\n            is_physicality_required=self.is_physicality_required,\n",
         "            hss,\n            mode_sampling=mode_sampling,\n            random_seed_or_generator=random_seed_or_generator,\n            is_physicality_required=self.is_physicality_required,\n")

def m5():
    """Povm keeps the dense matrices built by the first matrices() call; set_zero() forgets to drop them"""
    edit("quara/objects/povm.py",
         "    def matrices(self) -> List[np.ndarray]:\n", "    def matrices(self) -> List[np.ndarray]:\n        if getattr(self, \"_matrices_cache\", None) is not None:\n            return [m.copy() for m in self._matrices_cache]\n        self._matrices_cache = self._matrices_uncached()\n        return [m.copy() for m in self._matrices_cache]\n\n    def _matrices_uncached(self) -> List[np.ndarray]:\n")

def m6():
    """a veteran fault: CompositeSystem-level 'last HS -> process matrix' memo keyed by the id of the gate object only
    checked against shape (so a re-used object... ) -- State.to_density_matrix caches per object and copy() via
    generate_from_var is fine; here: Gate.to_process_matrix remembers its result per object and __init__ of a NEW object
    never sees it, but set_zero keeps it"""
    edit("quara/objects/gate.py",
         "        return to_process_matrix_from_hs(self.composite_system, self.hs)\n",
         "        if getattr(self, \"_chi\", None) is None:\n            self._chi = to_process_matrix_from_hs(self.composite_system, self.hs)\n        return self._chi.copy()\n")

def m7():
    """State.to_density_matrix returns a cached array which to_density_matrix_with_sparsity... no: convert_basis scales
    in place: the dense density matrix is cached and returned without a copy; a later State.convert_basis call
    normalises the cached matrix in place (for its own use), so held results and later queries are wrong"""
    edit("quara/objects/state.py",
         "        density = np.zeros((self._dim, self._dim), dtype=np.complex128)\n"
         "        for coefficient, basis in zip(self._vec, self.composite_system.basis()):\n"
         "            density += coefficient * basis\n"
         "        density = np.asarray(density)\n"
         "        return density\n",
         "        if getattr(self, \"_density\", None) is not None:\n"
         "            return self._density\n"
         "        density = np.zeros((self._dim, self._dim), dtype=np.complex128)\n"
         "        for coefficient, basis in zip(self._vec, self.composite_system.basis()):\n"
         "            density += coefficient * basis\n"
         "        density = np.asarray(density)\n"
         "        self._density = density\n"
         "        return density\n")
    edit("quara/objects/state.py",
         "        converted_vec = convert_vec(\n            self._vec, self.composite_system.basis(), other_basis\n        )\n",
         "        if getattr(self, \"_density\", None) is not None:\n"
         "            self._density *= 0.5  # scratch use of the cached matrix\n"
         "        converted_vec = convert_vec(\n            self._vec, self.composite_system.basis(), other_basis\n        )\n")

globals()[sys.argv[1]]()
print("applied", sys.argv[1])
