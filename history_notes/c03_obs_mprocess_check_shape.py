"""Observed while building the C03 history steps (outside C03, not judged by any step): adding two MProcess objects with
different outcome shapes is rejected with AttributeError instead of the intended ValueError, because the message of
MProcess._check_shape formats `shape_left.shape` of a tuple.
PYTHONPATH=/verif/qv/shim:/repo /venv/bin/python c03_obs_mprocess_check_shape.py"""
import numpy as np
from quara.objects.composite_system_typical import generate_composite_system
from quara.objects.mprocess import MProcess

c = generate_composite_system("qubit", 1)
rng = np.random.default_rng(0)
hss = lambda: [rng.standard_normal((4, 4)) for _ in range(4)]  # noqa: E731
a = MProcess(c, hss(), shape=(2, 2), is_physicality_required=False)
b = MProcess(c, hss(), is_physicality_required=False)           # shape (4,)
try:
    a + b
except Exception as e:  # noqa: BLE001
    print(type(e).__name__, e)      # AttributeError: 'tuple' object has no attribute 'shape'
