"""History-type mutations used to prove the history steps of C17 (apply ONE to the scratch worktree /tmp/hist_c17).
usage: python3 c17_mutations.py <name> [root]      then   git -C /tmp/hist_c17 checkout -- .
Every one of them is invisible to a workload that asks each (name, form, system) freshly and judges it at once.
"""
import sys

ROOT = sys.argv[2] if len(sys.argv) > 2 else "/tmp/hist_c17"


def edit(rel, pairs):
    p = f"{ROOT}/{rel}"
    s = open(p, newline="").read()
    nl = "\r\n" if "\r\n" in s else "\n"
    for old, new in pairs:
        old, new = old.replace("\n", nl), new.replace("\n", nl)
        assert s.count(old) == 1, (rel, old, s.count(old))
        s = s.replace(old, new)
    open(p, "w", newline="").write(s)


ST = "quara/objects/state_typical.py"
PT = "quara/objects/povm_typical.py"
GT = "quara/objects/gate_typical.py"
MT = "quara/objects/mprocess_typical.py"


def m1():
    """lru_cache on generate_state_pure_state_vector_from_name ("is_valid_state_name walks >1000 names"): the catalogue
    hands out its cached array; a caller that modifies its vector changes every later answer"""
    edit(ST, [("""from itertools import product
from typing import List, Union
""", """from functools import lru_cache
from itertools import product
from typing import List, Union
"""), ("""def generate_state_pure_state_vector_from_name(state_name: str) -> np.ndarray:
""", """@lru_cache(maxsize=None)
def generate_state_pure_state_vector_from_name(state_name: str) -> np.ndarray:
""")])


def m2():
    """density-matrix vectors memoised per (state name, dimension of the basis): a second basis of the same dimension
    gets the coefficients with respect to the first one (a copy is returned, so nothing else shows)"""
    edit(ST, [("""    density_mat = generate_state_density_mat_from_name(state_name)
    vec = calc_hermitian_matrix_expansion_coefficient_hermitian_basis(
        density_mat, basis
    )
    return vec
""", """    key = (state_name, basis.dim)
    if key not in _DMV_CACHE:
        density_mat = generate_state_density_mat_from_name(state_name)
        _DMV_CACHE[key] = calc_hermitian_matrix_expansion_coefficient_hermitian_basis(
            density_mat, basis
        )
    return _DMV_CACHE[key].copy()


_DMV_CACHE = {}
""")])


def m3():
    """generate_mprocess_hss_from_name writes the HS matrices into per-size scratch buffers ("avoid re-allocating");
    the returned list - and the MProcess built from it, which keeps the arrays - aliases the buffers that the next
    instrument of the same size overwrites"""
    edit(MT, [("""    hss = [
        truncate_hs(convert_hs(hs_cb, c_sys.comp_basis(), c_sys.basis()))
        for hs_cb in hss_cb
    ]

    return hss
""", """    hss = []
    for k, hs_cb in enumerate(hss_cb):
        hs = truncate_hs(convert_hs(hs_cb, c_sys.comp_basis(), c_sys.basis()))
        buf = _HSS_BUF.setdefault((size, k), np.empty_like(hs))
        buf[...] = hs
        hss.append(buf)

    return hss


_HSS_BUF = {}
""")])


def m4():
    """lru_cache on the private list helper _get_povm_names_2qubit_typical; get_povm_names_2qubit extends the list it
    gets IN PLACE (names += ...), so the listed names grow by nine duplicates with every call"""
    edit(PT, [("""def _get_povm_names_2qubit_typical() -> List[str]:
""", """import functools


@functools.lru_cache(maxsize=None)
def _get_povm_names_2qubit_typical() -> List[str]:
""")])


def m5():
    """generate_mprocess_from_name memoises the MProcess per (name, dimension): a second composite system of the same
    size gets the object that lives on the first one"""
    edit(MT, [("""def generate_mprocess_from_name(
    c_sys: CompositeSystem, mprocess_name: str, is_physicality_required: bool = True
) -> MProcess:
""", """_MP_CACHE = {}


def generate_mprocess_from_name(
    c_sys: CompositeSystem, mprocess_name: str, is_physicality_required: bool = True
) -> MProcess:
    key = (mprocess_name, c_sys.dim, is_physicality_required)
    if key not in _MP_CACHE:
        _MP_CACHE[key] = _generate_mprocess_from_name(
            c_sys, mprocess_name, is_physicality_required
        )
    return _MP_CACHE[key]


def _generate_mprocess_from_name(
    c_sys: CompositeSystem, mprocess_name: str, is_physicality_required: bool = True
) -> MProcess:
""")])


def m6():
    """generate_gate_mat_from_gate_name memoised per (name, dims, ids), the cached matrix itself is returned"""
    edit(GT, [("""def generate_gate_mat_from_gate_name(
    gate_name: str, dims: List[int] = None, ids: List[int] = None
) -> np.ndarray:
""", """_GATE_MAT_CACHE = {}


def generate_gate_mat_from_gate_name(
    gate_name: str, dims: List[int] = None, ids: List[int] = None
) -> np.ndarray:
    key = (gate_name, tuple(dims or []), tuple(ids or []))
    if key not in _GATE_MAT_CACHE:
        _GATE_MAT_CACHE[key] = _generate_gate_mat_from_gate_name(gate_name, dims, ids)
    return _GATE_MAT_CACHE[key]


def _generate_gate_mat_from_gate_name(
    gate_name: str, dims: List[int] = None, ids: List[int] = None
) -> np.ndarray:
""")])


def m7():
    """POVM vectors memoised per (name, dimension of the basis), copies returned (as m2, POVM side)"""
    edit(PT, [("""    matrices = generate_povm_matrices_from_name(povm_name)
    vecs = [
        calc_hermitian_matrix_expansion_coefficient_hermitian_basis(matrix, basis)
        for matrix in matrices
    ]
    return vecs
""", """    key = (povm_name, basis.dim)
    if key not in _VECS_CACHE:
        matrices = generate_povm_matrices_from_name(povm_name)
        _VECS_CACHE[key] = [
            calc_hermitian_matrix_expansion_coefficient_hermitian_basis(matrix, basis)
            for matrix in matrices
        ]
    return [v.copy() for v in _VECS_CACHE[key]]


_VECS_CACHE = {}
""")])


def m8():
    """calc_gate_mat_from_hamiltonian_mat (3-qubit and 2-qutrit gates) returns a per-dimension scratch buffer; Gate
    objects keep the array they are given, so an earlier Gate changes when the next name is generated"""
    edit(GT, [("""    u = calc_unitary_mat_from_hamiltonian_mat(h)
    hs = calc_gate_mat_from_unitary_mat_with_hermitian_basis(
        from_u=u, to_basis=to_basis
    )
    return hs
""", """    u = calc_unitary_mat_from_hamiltonian_mat(h)
    hs = calc_gate_mat_from_unitary_mat_with_hermitian_basis(
        from_u=u, to_basis=to_basis
    )
    buf = _HS_SCRATCH.setdefault(hs.shape, np.empty_like(hs))
    buf[...] = hs
    return buf


_HS_SCRATCH = {}
""")])


def m9():
    """the x-type2 instrument is derived from the memoised pure-state vectors of x-type1 (callers get copies) and changes
    the phase convention of |-> in the memo (idempotent, so x-type2 itself stays right); x-type1, asked earlier, is wrong
    when asked again"""
    edit(MT, [("""def get_mprocess_xtype1_set_pure_state_vectors() -> List[List[np.ndarray]]:
""", """import functools


def get_mprocess_xtype1_set_pure_state_vectors() -> List[List[np.ndarray]]:
    return [[v.copy() for v in o] for o in _xtype1_vectors_memo()]


@functools.lru_cache(maxsize=None)
def _xtype1_vectors_memo() -> List[List[np.ndarray]]:
"""), ("""    set_kraus_matrices = [
        [
            np.array([[1, 1], [1, 1]], dtype=np.complex128) / 2,
        ],
        [
            np.array([[1, -1], [1, -1]], dtype=np.complex128) / 2,
        ],
    ]
    return set_kraus_matrices


def get_mprocess_ytype2_set_kraus_matrices""", """    (plus,), (minus,) = _xtype1_vectors_memo()
    minus[1] = abs(minus[1]) * 1j   # |-> kept with a +i relative phase for the outer products below
    set_kraus_matrices = [
        [
            np.outer(plus, plus.conj()),
        ],
        [
            np.outer(plus, (minus * np.array([1, 1j])).conj()),
        ],
    ]
    return set_kraus_matrices


def get_mprocess_ytype2_set_kraus_matrices""")])


def m10():
    """generate_gate_from_gate_name memoises the Gate per (name, dimension, relative order of the ids): a second
    composite system of the same size gets the Gate that lives on the first one"""
    edit(GT, [("""def generate_gate_from_gate_name(
    gate_name: str,
    c_sys: CompositeSystem,
    ids: List[int] = None,
    is_physicality_required: bool = True,
) -> "Gate":
""", """_GATE_CACHE = {}


def generate_gate_from_gate_name(
    gate_name: str,
    c_sys: CompositeSystem,
    ids: List[int] = None,
    is_physicality_required: bool = True,
) -> "Gate":
    key = (gate_name, c_sys.dim, tuple(np.argsort(ids or [])), is_physicality_required)
    if key not in _GATE_CACHE:
        _GATE_CACHE[key] = _generate_gate_from_gate_name(
            gate_name, c_sys, ids, is_physicality_required
        )
    return _GATE_CACHE[key]


def _generate_gate_from_gate_name(
    gate_name: str,
    c_sys: CompositeSystem,
    ids: List[int] = None,
    is_physicality_required: bool = True,
) -> "Gate":
""")])


if __name__ == "__main__":
    globals()[sys.argv[1]]()
    print("applied", sys.argv[1], "to", ROOT)
