# standalone: Kraus extraction with a non-default tolerance on a map that is CP within that tolerance
import numpy as np, warnings
from quara.objects.composite_system_typical import generate_composite_system
from quara.objects import gate as gm
c = generate_composite_system("qubit", 1)
hs_id = np.eye(4)
# Choi of identity channel has eigenvalues {2,0,0,0}; perturb one zero eigenvalue to -3e-12
C = gm.to_choi_from_hs(c, hs_id)
w, V = np.linalg.eigh(C)
w[0] = -3e-12
C2 = (V * w) @ V.conj().T
hs = gm.to_hs_from_choi(c, C2)
print("lambda_min", np.linalg.eigvalsh(gm.to_choi_from_hs(c, hs))[0])
with warnings.catch_warnings(record=True) as ws:
    warnings.simplefilter("always")
    K = gm.to_kraus_matrices_from_hs(c, hs, atol=1e-10)
    print("n kraus", len(K), "any nan:", any(np.isnan(k).any() for k in K), [str(x.message)[:60] for x in ws])
print("default atol ->", len(gm.to_kraus_matrices_from_hs(c, hs)))
g = gm.Gate(c, hs, is_physicality_required=False, eps_proj_physical=1e-10)
print("Gate(eps_proj_physical=1e-10).to_kraus_matrices nan:", any(np.isnan(k).any() for k in g.to_kraus_matrices()))
