#!/usr/bin/env python3
"""History-type mutations for C01 (teeth of the history steps).  usage: mutate.py <name> [worktree=/tmp/hist_c01]
Every mutation is invisible to fresh-object / default-option / ask-once use. CRLF endings are preserved."""
import sys

W = sys.argv[2] if len(sys.argv) > 2 else "/tmp/hist_c01"


def edit(rel, pairs):
    p = f"{W}/{rel}"
    s = open(p, newline="").read()
    nl = "\r\n" if "\r\n" in s else "\n"
    for old, new in pairs:
        old, new = old.replace("\n", nl), new.replace("\n", nl)
        assert s.count(old) == 1, (rel, s.count(old), old[:80])
        s = s.replace(old, new)
    open(p, "w", newline="").write(s)


def m1():
    """Gate.is_tp / is_cp remember their verdict per tolerance on the object; set_zero() does not forget (stale cache after setter)"""
    edit("quara/objects/gate.py", [
        ("        return is_tp(self.composite_system, self.hs, atol)\n",
         "        key = (\"tp\", Settings.get_atol() if atol is None else atol)\n"
         "        cache = self.__dict__.setdefault(\"_verdicts\", {})\n"
         "        if key not in cache:\n"
         "            cache[key] = is_tp(self.composite_system, self.hs, atol)\n"
         "        return cache[key]\n"),
        ("        return is_cp(self.composite_system, self.hs, atol)\n",
         "        key = (\"cp\", Settings.get_atol() if atol is None else atol)\n"
         "        cache = self.__dict__.setdefault(\"_verdicts\", {})\n"
         "        if key not in cache:\n"
         "            cache[key] = is_cp(self.composite_system, self.hs, atol)\n"
         "        return cache[key]\n"),
    ])


def m2():
    """gate.is_cp memoised by (id(c_sys), id(hs), atol), entry dropped when the array dies (cache keyed by identity)"""
    edit("quara/objects/gate.py", [
        ("    atol = Settings.get_atol() if atol is None else atol\n\n    # \"A is CP\"  <=> \"C(A) >= 0\"\n"
         "    return mutil.is_positive_semidefinite(\n        to_choi_from_hs_with_sparsity(c_sys, hs), atol=atol\n    )\n",
         "    atol = Settings.get_atol() if atol is None else atol\n\n    import weakref\n\n"
         "    key = (id(c_sys), id(hs), atol)\n"
         "    if key in _CP_MEMO:\n        return _CP_MEMO[key]\n"
         "    # \"A is CP\"  <=> \"C(A) >= 0\"\n"
         "    res = mutil.is_positive_semidefinite(\n        to_choi_from_hs_with_sparsity(c_sys, hs), atol=atol\n    )\n"
         "    try:\n        weakref.finalize(hs, _CP_MEMO.pop, key, None)\n        _CP_MEMO[key] = res\n    except TypeError:\n        pass\n"
         "    return res\n\n\n_CP_MEMO = {}\n"),
    ])


def m3():
    """Povm.is_positive_semidefinite resolves the default tolerance once per object (option honoured on the first call only)"""
    edit("quara/objects/povm.py", [
        ("        atol = Settings.get_atol() if atol is None else atol\n\n        for m in self.matrices_with_sparsity():\n            if not mutil.is_positive_semidefinite(m, atol):\n",
         "        if atol is None:\n            if not hasattr(self, \"_atol_default\"):\n                self._atol_default = Settings.get_atol()\n            atol = self._atol_default\n\n"
         "        for m in self.matrices_with_sparsity():\n            if not mutil.is_positive_semidefinite(m, atol):\n"),
    ])


def m4():
    """State.to_density_matrix_with_sparsity returns an array cached per vec; calc_proj_ineq_constraint clips it in place
    (accessor result modified by a later method)"""
    edit("quara/objects/state.py", [
        ("        return to_density_matrix_from_vec(self.composite_system, self.vec)\n",
         "        c = self.__dict__.get(\"_dm_cache\")\n"
         "        if c is None or c[0] is not self._vec:\n"
         "            c = (self._vec, to_density_matrix_from_vec(self.composite_system, self.vec))\n"
         "            self._dm_cache = c\n"
         "        return c[1]\n"),
        ("        new_density_matrix = eigenvecs @ diag @ eigenvecs.T.conjugate()\n        vec_new = to_vec_from_density_matrix_with_sparsity(\n            self.composite_system,\n            new_density_matrix,\n            eps_truncate_imaginary_part=self.eps_truncate_imaginary_part,\n        )\n\n        # create new State\n",
         "        density_matrix_orig[:] = eigenvecs @ diag @ eigenvecs.T.conjugate()\n        new_density_matrix = density_matrix_orig\n        vec_new = to_vec_from_density_matrix_with_sparsity(\n            self.composite_system,\n            new_density_matrix,\n            eps_truncate_imaginary_part=self.eps_truncate_imaginary_part,\n        )\n\n        # create new State\n"),
    ])


def m5():
    """gate.is_tp remembers per dimension whether the first-row shortcut applies (module-level cache keyed by too little:
    a second composite system of the same dimension with another basis gets the first one's branch)"""
    edit("quara/objects/gate.py", [
        ("    if c_sys.is_orthonormal_hermitian_0thprop_identity is True:\n        # if A:HS representation of gate, then A:TP <=> the first row of A is [1, 0,..., 0].\n",
         "    if _FIRST_ROW_TEST.setdefault(c_sys.dim, c_sys.is_orthonormal_hermitian_0thprop_identity is True):\n        # if A:HS representation of gate, then A:TP <=> the first row of A is [1, 0,..., 0].\n"),
        ("def is_tp(c_sys: CompositeSystem, hs: np.ndarray, atol: float = None) -> bool:\n",
         "_FIRST_ROW_TEST = {}\n\n\ndef is_tp(c_sys: CompositeSystem, hs: np.ndarray, atol: float = None) -> bool:\n"),
    ])


def m6():
    """CompositeSystem._calc_basis_sparse gets an 'already computed' flag that delete_basis_T_sparse does not reset"""
    edit("quara/objects/composite_system.py", [
        ("    def _calc_basis_sparse(self) -> None:\n        basis = copy.deepcopy(self._total_basis.basis)\n",
         "    def _calc_basis_sparse(self) -> None:\n        if getattr(self, \"_basis_sparse_done\", False):\n            return\n        self._basis_sparse_done = True\n        basis = copy.deepcopy(self._total_basis.basis)\n"),
    ])


def m7():
    """QOperation.is_physical checks only the inequality constraint for objects that are not estimation objects
    (needs the non-default option is_estimation_object=False, or an origin / zero / arithmetic result)"""
    edit("quara/objects/qoperation.py", [
        ("        return self.is_eq_constraint_satisfied(\n            atol_eq_const\n        ) and self.is_ineq_constraint_satisfied(atol_ineq_const)\n",
         "        if not self.is_estimation_object:\n            return self.is_ineq_constraint_satisfied(atol_ineq_const)\n"
         "        return self.is_eq_constraint_satisfied(\n            atol_eq_const\n        ) and self.is_ineq_constraint_satisfied(atol_ineq_const)\n"),
    ])


def m8():
    """MProcess.is_sum_tp keeps the summed HS matrix of its first call on the object (set_zero / nothing invalidates it)"""
    edit("quara/objects/mprocess.py", [
        ("        sum_hss = np.sum(self._hss, axis=0)\n        return gate.is_tp(self.composite_system, sum_hss, atol)\n",
         "        if not hasattr(self, \"_sum_hss\"):\n            self._sum_hss = np.sum(self._hss, axis=0)\n        return gate.is_tp(self.composite_system, self._sum_hss, atol)\n"),
    ])


if __name__ == "__main__":
    globals()[sys.argv[1]]()
    print("applied", sys.argv[1], "to", W)
