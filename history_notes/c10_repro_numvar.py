# re-using a fast (StandardQTomographyBased*) loss object with a tomography of another number of variables:
# the generic losses re-read num_var in set_func_prob_dists_from_standard_qt, the fast ones do not
import numpy as np
from quara.objects.composite_system_typical import generate_composite_system
from quara.objects.povm_typical import generate_povm_from_name
from quara.objects.state_typical import generate_state_from_name
from quara.protocol.qtomography.standard.standard_qst import StandardQst
from quara.protocol.qtomography.standard.standard_povmt import StandardPovmt
from quara.protocol.qtomography.standard.loss_minimization_estimator import LossMinimizationEstimator
from quara.loss_function.standard_qtomography_based_weighted_probability_based_squared_error import (
    StandardQTomographyBasedWeightedProbabilityBasedSquaredError as FSE, StandardQTomographyBasedWeightedProbabilityBasedSquaredErrorOption as FSEO)
from quara.loss_function.weighted_probability_based_squared_error import (
    WeightedProbabilityBasedSquaredError as SE, WeightedProbabilityBasedSquaredErrorOption as SEO)
from quara.minimization_algorithm.projected_gradient_descent_backtracking import (
    ProjectedGradientDescentBacktracking as PGDB, ProjectedGradientDescentBacktrackingOption as PGDBO)

c = generate_composite_system("qubit", 1)
states = [generate_state_from_name(c, n) for n in ("x0", "y0", "z0", "z1")]
qt2 = StandardPovmt(states, 2, on_para_eq_constraint=True, schedules="all")
qt3 = StandardPovmt(states, 3, on_para_eq_constraint=True, schedules="all")
for L, LO in ((SE, SEO), (FSE, FSEO)):
    loss = L(qt2.num_variables)
    est = LossMinimizationEstimator()
    d2 = [(10, np.array([0.5, 0.5]))] * 4
    d3 = [(10, np.array([0.3, 0.3, 0.4]))] * 4
    est.calc_estimate(qt2, d2, loss, LO("identity"), PGDB(), PGDBO(max_iteration_optimization=5))
    v0 = qt3.generate_empty_estimation_obj_with_setting_info().generate_origin_obj().to_var()
    try:
        est.calc_estimate(qt3, d3, loss, LO("identity"), PGDB(), PGDBO(max_iteration_optimization=5, var_start=v0))
        print(L.__name__, "re-used with another num_var: ok, loss.num_var =", loss.num_var, "tomography:", qt3.num_variables)
    except Exception as e:
        print(L.__name__, "re-used with another num_var: raises", type(e).__name__, e, "| loss.num_var =", loss.num_var, "tomography:", qt3.num_variables)
