"""apply one named history-type mutation to the scratch worktree /tmp/hist_c03 (line endings preserved)
usage: python3 c03_mutations.py m1   (then QV_REPO=/tmp/hist_c03 ./check C03 quick; git -C /tmp/hist_c03 checkout -- .)"""
import sys

ROOT = "/tmp/hist_c03/"


def edit(path, old, new, count=1):
    with open(ROOT + path, newline="") as f:
        s = f.read()
    nl = "\r\n" if "\r\n" in s else "\n"
    old = old.replace("\n", nl)
    new = new.replace("\n", nl)
    assert s.count(old) == count, (path, s.count(old), old)
    s = s.replace(old, new)
    with open(ROOT + path, "w", newline="") as f:
        f.write(s)


STATE = "quara/objects/state.py"
GATE = "quara/objects/gate.py"
POVM = "quara/objects/povm.py"
QOP = "quara/objects/qoperation.py"
SETQ = "quara/objects/qoperations.py"
TOMO = ["quara/protocol/qtomography/standard/standard_qst.py", "quara/protocol/qtomography/standard/standard_povmt.py",
        "quara/protocol/qtomography/standard/standard_qpt.py", "quara/protocol/qtomography/standard/standard_qmpt.py"]


def m1():
    """stale cache after a public mutator: State.to_var / Povm.to_var memoise the vector on the object, set_zero() does not drop it"""
    edit(STATE, "        return convert_vec_to_var(\n            c_sys=self.composite_system,\n            vec=self.vec,\n            on_para_eq_constraint=self.on_para_eq_constraint,\n        )\n",
         "        if getattr(self, \"_var_memo\", None) is None:\n            self._var_memo = convert_vec_to_var(\n                c_sys=self.composite_system,\n                vec=self.vec,\n"
         "                on_para_eq_constraint=self.on_para_eq_constraint,\n            )\n        return self._var_memo\n")
    edit(POVM, "        return convert_vecs_to_var(\n            c_sys=self.composite_system,\n            vecs=list(self.vecs),\n            on_para_eq_constraint=self.on_para_eq_constraint,\n        )\n",
         "        if getattr(self, \"_var_memo\", None) is None:\n            self._var_memo = convert_vecs_to_var(\n                c_sys=self.composite_system,\n                vecs=list(self.vecs),\n"
         "                on_para_eq_constraint=self.on_para_eq_constraint,\n            )\n        return self._var_memo\n")


def m2():
    """option dropped by copy(): QOperation.copy() rebuilds the object without on_para_eq_constraint (constructor default True)"""
    edit(QOP, "            is_physicality_required=self.is_physicality_required,\n            is_estimation_object=self.is_estimation_object,\n"
              "            on_para_eq_constraint=self.on_para_eq_constraint,\n",
         "            is_physicality_required=self.is_physicality_required,\n            is_estimation_object=self.is_estimation_object,\n")


def m3():
    """state left on a re-used template: an explicit on_para_eq_constraint given to generate_from_var sticks to the template"""
    edit(QOP, "        eps_proj_physical = (\n            self.eps_proj_physical if eps_proj_physical is None else eps_proj_physical\n        )\n\n        generate_from_var_func = self._generate_from_var_func()\n",
         "        eps_proj_physical = (\n            self.eps_proj_physical if eps_proj_physical is None else eps_proj_physical\n        )\n"
         "        self._on_para_eq_constraint = on_para_eq_constraint\n\n        generate_from_var_func = self._generate_from_var_func()\n")


def m4():
    """accessor returns a cached array that a later method overwrites: Gate.to_stacked_vector keeps a per-object buffer which
    calc_gradient uses as scratch space"""
    edit(GATE, "    def calc_gradient(self, var_index: int) -> \"Gate\":\n        gate = calc_gradient_from_gate(\n",
         "    def calc_gradient(self, var_index: int) -> \"Gate\":\n        scratch = self.to_stacked_vector()\n        scratch[:] = 0.0\n        gate = calc_gradient_from_gate(\n")
    with open(ROOT + GATE, newline="") as f:
        s = f.read()
    nl = "\r\n" if "\r\n" in s else "\n"
    i = s.index("    def to_stacked_vector(self) -> np.ndarray:")
    j = s.index("    def _embed_qoperation_from_qutrits_to_qubits", i)
    body = ("    def to_stacked_vector(self) -> np.ndarray:\n        if getattr(self, \"_stacked_buf\", None) is None:\n"
            "            self._stacked_buf = self.hs.flatten()\n        return self._stacked_buf\n\n").replace("\n", nl)
    s = s[:i] + body + s[j:]
    with open(ROOT + GATE, "w", newline="") as f:
        f.write(s)


def m5():
    """stale cache after a setter: SetQOperations memoises the block offsets; the setters drop the memo only when the
    length of the list changes ('same number of operations => same layout')"""
    edit(SETQ, "        self._mprocesses: List[MProcess] = mprocesses\n", "        self._mprocesses: List[MProcess] = mprocesses\n        self._offsets_memo = None\n")
    for name, cls in (("states", "State"), ("povms", "Povm"), ("gates", "Gate"), ("mprocesses", "MProcess")):
        edit(SETQ, f"        self._validate_type(value, {cls})\n        self._{name} = value\n",
             f"        self._validate_type(value, {cls})\n        if len(value) != len(self._{name}):\n            self._offsets_memo = None\n        self._{name} = value\n")
    edit(SETQ, "        states_first_index = 0\n", "        if self._offsets_memo is not None:\n            return self._offsets_memo\n        states_first_index = 0\n")
    edit(SETQ, "        return dict(\n            state=states_first_index,\n            gate=gates_first_index,\n            povm=povms_first_index,\n            mprocess=mprocesses_first_index,\n        )\n",
         "        self._offsets_memo = dict(\n            state=states_first_index,\n            gate=gates_first_index,\n            povm=povms_first_index,\n            mprocess=mprocesses_first_index,\n        )\n        return self._offsets_memo\n")


def m6():
    """cache keyed by id(): the tomography classes memoise convert_var_to_qoperation per id(var)"""
    for path, res in zip(TOMO, ("state", "povm", "gate", "mprocess")):
        edit(path, f"        {res} = template.generate_from_var(var=var)\n        return {res}\n",
             f"        memo = self.__dict__.setdefault(\"_conv_memo\", {{}})\n        if id(var) not in memo:\n            memo[id(var)] = template.generate_from_var(var=var)\n        return memo[id(var)]\n")


def m7():
    """option dropped on a derived object: QOperation.generate_origin_obj() rebuilds without on_para_eq_constraint"""
    edit(QOP, "        new_value = self._generate_origin_obj()\n        new_qoperation = self.__class__(\n            self.composite_system,\n            new_value,\n"
              "            is_physicality_required=False,\n            is_estimation_object=False,\n            on_para_eq_constraint=self.on_para_eq_constraint,\n",
         "        new_value = self._generate_origin_obj()\n        new_qoperation = self.__class__(\n            self.composite_system,\n            new_value,\n"
         "            is_physicality_required=False,\n            is_estimation_object=False,\n")


def m4b():
    """accessor returns a cached array that a later method overwrites: Gate.to_stacked_vector keeps a per-object buffer which
    calc_gradient uses as scratch space when it exists (m4 called the accessor itself inside calc_gradient and was therefore
    visible without any history)"""
    edit(GATE, "    def calc_gradient(self, var_index: int) -> \"Gate\":\n        gate = calc_gradient_from_gate(\n",
         "    def calc_gradient(self, var_index: int) -> \"Gate\":\n        scratch = getattr(self, \"_stacked_buf\", None)\n        if scratch is not None:\n            scratch[:] = 0.0\n        gate = calc_gradient_from_gate(\n")
    with open(ROOT + GATE, newline="") as f:
        s = f.read()
    nl = "\r\n" if "\r\n" in s else "\n"
    i = s.index("    def to_stacked_vector(self) -> np.ndarray:")
    j = s.index("    def _embed_qoperation_from_qutrits_to_qubits", i)
    body = ("    def to_stacked_vector(self) -> np.ndarray:\n        if getattr(self, \"_stacked_buf\", None) is None:\n"
            "            self._stacked_buf = self.hs.flatten()\n        return self._stacked_buf\n\n").replace("\n", nl)
    s = s[:i] + body + s[j:]
    with open(ROOT + GATE, "w", newline="") as f:
        f.write(s)


def m8():
    """'already computed' memo that survives a setter: SetQOperations.local_info_from_index_var_total remembers its last
    question and answer"""
    edit(SETQ, "        # Type Operation\n        mode = self._get_mode_from_index_var_total(index_var_total)\n",
         "        last = getattr(self, \"_last_local_info\", None)\n        if last is not None and last[0] == index_var_total:\n            return dict(last[1])\n"
         "        # Type Operation\n        mode = self._get_mode_from_index_var_total(index_var_total)\n")
    edit(SETQ, "            index_var_local=index_var_local,\n        )\n        return local_info\n",
         "            index_var_local=index_var_local,\n        )\n        self._last_local_info = (index_var_total, dict(local_info))\n        return local_info\n")



if __name__ == "__main__":
    globals()[sys.argv[1]]()
    print("applied", sys.argv[1], globals()[sys.argv[1]].__doc__.split("\n")[0])
