"""EffectiveLindbladian.generate_from_var always raises (outside property C18: var conversion is not in the statement)
run: PYTHONPATH=/verif/qv/shim:/repo /venv/bin/python c18_repro_generate_from_var.py"""
import numpy as np
from quara.objects.composite_system import CompositeSystem
from quara.objects.elemental_system import ElementalSystem
from quara.objects.matrix_basis import get_normalized_pauli_basis
from quara.objects.effective_lindbladian import generate_effective_lindbladian_from_h

c_sys = CompositeSystem([ElementalSystem(0, get_normalized_pauli_basis())])
L = generate_effective_lindbladian_from_h(c_sys, np.array([[0.3, 0.1 - 0.2j], [0.1 + 0.2j, -0.3]]))
try:
    L.generate_from_var(L.to_var())
    print("no exception")
except TypeError as e:
    # QOperation.generate_from_var forwards mode_proj_order=..., which convert_var_to_effective_lindbladian does not accept
    print("TypeError:", e)
# second observation: with on_para_eq_constraint=True the conversion back inserts the first row of a *gate* (1,0,..,0),
# so to_var -> convert_var_to_effective_lindbladian does not reproduce a trace-preserving generator (first row 0)
from quara.objects.effective_lindbladian import convert_var_to_effective_lindbladian
L2 = convert_var_to_effective_lindbladian(c_sys, L.to_var(), is_physicality_required=False)
print("first row after var round trip:", L2.hs[0], " original:", L.hs[0])
