"""History-type mutations used to prove the history steps of C14 (apply ONE to the scratch worktree /tmp/hist_c14).
usage: python3 c14_mutations.py <name> [root]      then   git -C /tmp/hist_c14 checkout -- .
"""
import sys

ROOT = sys.argv[2] if len(sys.argv) > 2 else "/tmp/hist_c14"


def edit(rel, pairs):
    p = f"{ROOT}/{rel}"
    s = open(p, newline="").read()
    nl = "\r\n" if "\r\n" in s else "\n"
    for old, new in pairs:
        old, new = old.replace("\n", nl), new.replace("\n", nl)
        assert s.count(old) == 1, (rel, old, s.count(old))
        s = s.replace(old, new)
    open(p, "w", newline="").write(s)


EX = "quara/qcircuit/experiment.py"
DG = "quara/qcircuit/data_generator.py"
MD = "quara/objects/multinomial_distribution.py"
QST = "quara/protocol/qtomography/standard/standard_qst.py"
POVMT = "quara/protocol/qtomography/standard/standard_povmt.py"

CALC_HEAD = """        self._validate_schedule_index(schedule_index)
        schedule = self.schedules[schedule_index]
        key_map = dict("""
CALC_TAIL = """        prob_dist = op.compose_qoperations(*targets)
        return prob_dist.ps
"""


def m1():
    """Experiment.calc_prob_dist caches the distribution per schedule index on the object; the schedules setter clears
    the cache, the four member-list setters do not (stale cache after a public setter)"""
    edit(EX, [(CALC_HEAD, """        self._validate_schedule_index(schedule_index)
        cache = self.__dict__.setdefault("_prob_cache", {})
        if schedule_index in cache:
            return cache[schedule_index].copy()
        schedule = self.schedules[schedule_index]
        key_map = dict("""),
              (CALC_TAIL, """        prob_dist = op.compose_qoperations(*targets)
        cache[schedule_index] = prob_dist.ps.copy()
        return prob_dist.ps
"""),
              ("""        self._validate_schedules(value)
        self._schedules = value
""", """        self._validate_schedules(value)
        self._schedules = value
        self.__dict__.pop("_prob_cache", None)
""")])


def m2():
    """as m1, every setter clears the cache - but copy() hands the SAME cache dict to the copy (shared mutable state
    between an object and its copies; the tomography entry points fill it through their temporary copies)"""
    edit(EX, [(CALC_HEAD, """        self._validate_schedule_index(schedule_index)
        cache = self.__dict__.setdefault("_prob_cache", {})
        if schedule_index in cache:
            return cache[schedule_index].copy()
        schedule = self.schedules[schedule_index]
        key_map = dict("""),
              (CALC_TAIL, """        prob_dist = op.compose_qoperations(*targets)
        cache[schedule_index] = prob_dist.ps.copy()
        return prob_dist.ps
"""),
              ("""        self._validate_schedules(value)
        self._schedules = value
""", """        self._validate_schedules(value)
        self._schedules = value
        self.__dict__.setdefault("_prob_cache", {}).clear()
"""),
              ("""            self._states = value
""", """            self._states = value
            self.__dict__.setdefault("_prob_cache", {}).clear()
"""),
              ("""            self._povms = value
""", """            self._povms = value
            self.__dict__.setdefault("_prob_cache", {}).clear()
"""),
              ("""            self._gates = value
""", """            self._gates = value
            self.__dict__.setdefault("_prob_cache", {}).clear()
"""),
              ("""            self._mprocesses = value
""", """            self._mprocesses = value
            self.__dict__.setdefault("_prob_cache", {}).clear()
"""),
              ("""            schedules=schedules,
        )
        return experiment
""", """            schedules=schedules,
        )
        experiment._prob_cache = self.__dict__.setdefault("_prob_cache", {})
        return experiment
""")])


def m3():
    """generate_data_from_prob_dist validates and snapshots a probability array once per array OBJECT (identity
    keyed, the array is kept alive so the id cannot be recycled): contents changed in place are not noticed"""
    edit(DG, [("""def generate_data_from_prob_dist(
""", """_SEEN = {}


def _validated(prob_dist, atol):
    ent = _SEEN.get(id(prob_dist))
    if ent is not None and ent[0] is prob_dist and ent[2] == atol:
        return ent[1]
    validate_prob_dist(prob_dist, eps=atol)
    if len(_SEEN) > 256:
        _SEEN.clear()
    snap = np.array(prob_dist, dtype=np.float64)
    _SEEN[id(prob_dist)] = (prob_dist, snap, atol)
    return snap


def generate_data_from_prob_dist(
"""),
              ("""    validate_prob_dist(prob_dist, eps=atol)

    # generate random numbers.""", """    prob_dist = _validated(prob_dist, atol)

    # generate random numbers.""")])


def m4():
    """generate_empi_dist_sequence_from_prob_dist memoises its result for an int seed under (seed, vector bytes,
    sizes) and returns the memoised list itself (results shared between calls: the caller's changes come back)"""
    edit(DG, [("""    stream = to_stream(seed_or_generator)
    empi_dist_sequence = []
    for num_sum in num_sums:
""", """    memo_key = None
    if type(seed_or_generator) == int:
        memo_key = (seed_or_generator, np.asarray(prob_dist).tobytes(), tuple(num_sums))
        if memo_key in _MEMO:
            return _MEMO[memo_key]
    stream = to_stream(seed_or_generator)
    empi_dist_sequence = []
    for num_sum in num_sums:
"""),
              ("""        empi_dist_sequence.append((num_sum, empi_dist))

    return empi_dist_sequence
""", """        empi_dist_sequence.append((num_sum, empi_dist))
    if memo_key is not None:
        if len(_MEMO) > 64:
            _MEMO.clear()
        _MEMO[memo_key] = empi_dist_sequence
    return empi_dist_sequence
"""),
              ("""def generate_empi_dist_sequence_from_prob_dist(
""", """_MEMO = {}


def generate_empi_dist_sequence_from_prob_dist(
""")])


def m5():
    """calc_empi_dist_sequence divides into module-level output buffers, one per (number of outcomes, position):
    the arrays of an earlier result are overwritten by the next call with the same number of outcomes"""
    edit(DG, [("""def calc_empi_dist_sequence(
""", """_OUT = {}


def calc_empi_dist_sequence(
"""),
              ("""            empidist = cumulative_frequency / (index + 1)
""", """            out = _OUT.setdefault((measurement_num, next_num_sum_position), np.empty(measurement_num))
            empidist = np.divide(cumulative_frequency, index + 1, out=out)
""")])


def m6():
    """StandardQst.generate_empi_dists keeps its temporary experiment (with the true state put in) for later calls
    instead of rebuilding it: a second true object gets the data of the first"""
    edit(QST, [("""        see :func:`~quara.protocol.qtomography.qtomography.QTomography.generate_empi_dists`
        \"\"\"
        tmp_experiment = self._experiment.copy()
        for schedule_index in range(len(tmp_experiment.schedules)):
            state_index = self._get_target_index(tmp_experiment, schedule_index)
            tmp_experiment.states[state_index] = state
""", """        see :func:`~quara.protocol.qtomography.qtomography.QTomography.generate_empi_dists`
        \"\"\"
        tmp_experiment = getattr(self, "_tmp_experiment", None)
        if tmp_experiment is None:
            tmp_experiment = self._tmp_experiment = self._experiment.copy()
            for schedule_index in range(len(tmp_experiment.schedules)):
                state_index = self._get_target_index(tmp_experiment, schedule_index)
                tmp_experiment.states[state_index] = state
""")])


def m7():
    """StandardPovmt.generate_empi_dists sizes its request by the number of tester states instead of the number of
    schedules (equal for schedules='all', different for a custom schedule list: non-default option)"""
    edit(POVMT, [("""            tmp_experiment.povms[target_index] = povm

        num_sums = [num_sum] * self._num_schedules
""", """            tmp_experiment.povms[target_index] = povm

        num_sums = [num_sum] * len(self._experiment.states)
""")])


def m9():
    """Experiment remembers the number of schedules at the first length validation; the schedules setter does not
    reset it (stale derived value after a setter)"""
    edit(EX, [("""        if len(target) != len(self.schedules):
""", """        if "_n_schedules" not in self.__dict__:
            self._n_schedules = len(self.schedules)
        if len(target) != self._n_schedules:
""")])


def m11():
    """an explicit int seed is offset by the experiment's own data seed (state left by reset_seed_data / the
    constructor option leaks into explicitly seeded output; still deterministic per object)"""
    edit(EX, [("""        prob_dist = self.calc_prob_dist(schedule_index)
        empi_dist_sequence = data_generator.generate_empi_dist_sequence_from_prob_dist(
            prob_dist, num_sums, seed_or_generator
        )
""", """        prob_dist = self.calc_prob_dist(schedule_index)
        if type(seed_or_generator) == int and self._seed_data is not None:
            seed_or_generator = seed_or_generator + self._seed_data
        empi_dist_sequence = data_generator.generate_empi_dist_sequence_from_prob_dist(
            prob_dist, num_sums, seed_or_generator
        )
""")])


def m13():
    """execute_random_sampling remembers its last int-seeded request on the object and returns the remembered list
    for an identical request (the caller's changes to the earlier result come back)"""
    edit(MD, [("""        stream = to_stream(random_generator)
        samplings = list(multinomial.rvs(num, self.ps, size=size, random_state=stream))
        return samplings
""", """        key = (num, size, random_generator) if type(random_generator) == int else None
        if key is not None and getattr(self, "_last", (None, None))[0] == key:
            return self._last[1]
        stream = to_stream(random_generator)
        samplings = list(multinomial.rvs(num, self.ps, size=size, random_state=stream))
        if key is not None:
            self._last = (key, samplings)
        return samplings
""")])


def m15():
    """calc_empi_dist_sequence checks the range of the data once per list OBJECT (identity keyed, list kept alive):
    a list the caller changed afterwards is not checked again (a negative datum then counts from the end)"""
    edit(DG, [("""def calc_empi_dist_sequence(
""", """_CHECKED = {}


def calc_empi_dist_sequence(
"""),
              ("""    for index, d in enumerate(data):
        # whether 0 <= d < 'measurement_num'.
        if not 0 <= d < measurement_num:
""", """    ent = _CHECKED.get(id(data))
    checked = ent is not None and ent[0] is data and ent[1] == (measurement_num, len(data))
    if not checked and len(data) <= num_sums[-1]:
        if len(_CHECKED) > 256:
            _CHECKED.clear()
        _CHECKED[id(data)] = (data, (measurement_num, len(data)))
    for index, d in enumerate(data):
        # whether 0 <= d < 'measurement_num'.
        if not checked and not 0 <= d < measurement_num:
""")])


def m16():
    """Experiment gets a __getstate__ with an explicit field list that predates measurement processes (a pickled
    experiment comes back without its mprocess list; nothing else in this property's code pickles)"""
    edit(EX, [("""    @property
    def states(self) -> List[State]:
        return self._states
""", """    def __getstate__(self):
        return {k: self.__dict__[k] for k in ("_states", "_povms", "_gates", "_schedules", "_seed_data")}

    def __setstate__(self, state):
        self.__dict__.update(state)
        self.__dict__.setdefault("_mprocesses", [])

    @property
    def states(self) -> List[State]:
        return self._states
""")])


if __name__ == "__main__":
    globals()[sys.argv[1]]()
    print("applied", sys.argv[1], "to", ROOT)
